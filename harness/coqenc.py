"""Encode Python values / observables as Gallina terms of the model's types.

Everything the correspondence check hands to Coq goes through this module, so the
encoding is type-exact: bool / int / float never collapse, tuples and lists are kept
apart, dicts keep insertion order, floats are exact dyadics.
"""
import math
import pathlib

TYPE_NAMES = {
    int: "TInt", float: "TFloat", str: "TStr", list: "TList", dict: "TDict",
    bool: "TBool", type(None): "TNone", tuple: "TTuple", pathlib.Path: "TPath",
    type: "TType",
}

EXC_NAMES = {
    "TypeError", "AttributeError", "KeyError", "IndexError", "ValueError",
    "ZeroDivisionError", "OverflowError", "StopIteration", "RecursionError",
    "RuntimeError", "NotImplementedError", "InvalidCallable",
}
EXC_MAP = {
    "MalformedConditionLikeSpec": "MalformedCond",
    "MalformedDataPathSpec": "MalformedPath",
    "MalformedRuleSpec": "MalformedRule",
}


class Unencodable(Exception):
    pass


def z(n):
    return f"({n})" if n < 0 else str(n)


def enc_str(s):
    b = s.encode("utf-8")
    for ch in b:
        if ch < 9 or (13 < ch < 32) or ch == 127:
            raise Unencodable(f"control byte in string {s!r}")
    return '"' + s.replace('"', '""') + '"'


def float_parts(x):
    if math.isnan(x) or math.isinf(x):
        raise Unencodable("nan/inf")
    neg = math.copysign(1.0, x) < 0
    n, d = abs(x).as_integer_ratio()
    if n == 0:
        return neg, 0, 0
    e = -(d.bit_length() - 1)
    while n % 2 == 0:
        n //= 2
        e += 1
    return neg, n, e


class ObjTags:
    """Gives inert objects (DataPath, conditions ...) tags; objects that are == get one tag."""

    def __init__(self):
        self.objs = []

    def tag(self, o):
        for i, p in enumerate(self.objs):
            try:
                if p is o or (type(p) is type(o) and p == o):
                    return i
            except Exception:
                pass
        self.objs.append(o)
        return len(self.objs) - 1


def enc_val(v, tags=None):
    if v is None:
        return "VNone"
    if v is True:
        return "(VBool true)"
    if v is False:
        return "(VBool false)"
    t = type(v)
    if t is int:
        return f"(VInt {z(v)})"
    if t is float:
        neg, m, e = float_parts(v)
        return f"(VFloat {'true' if neg else 'false'} {m}%N {z(e)})"
    if t is str:
        return f"(VStr {enc_str(v)})"
    if t is list:
        return "(VList [" + "; ".join(enc_val(i, tags) for i in v) + "])"
    if t is tuple:
        return "(VTuple [" + "; ".join(enc_val(i, tags) for i in v) + "])"
    if t is dict:
        return "(VDict [" + "; ".join(f"({enc_val(k, tags)}, {enc_val(x, tags)})" for k, x in v.items()) + "])"
    if isinstance(v, type):
        if v in TYPE_NAMES:
            return f"(VType {TYPE_NAMES[v]})"
        return "(VType TObj)"
    if tags is not None:
        return f"(VObj {tags.tag(v)}%N)"
    raise Unencodable(f"cannot encode {type(v)!r}")


def enc_exc_name(name):
    if name in EXC_NAMES:
        return name
    return EXC_MAP.get(name, "OtherExc")


def enc_res(outcome, tags=None):
    """outcome = ('ok', value) | ('exc', class name)"""
    if outcome[0] == "ok":
        return f"(Ok {enc_val(outcome[1], tags)})"
    return f"(Err {enc_exc_name(outcome[1])})"


def enc_list(items):
    return "[" + "; ".join(items) + "]"


def enc_opt(x, f):
    return "None" if x is None else f"(Some {f(x)})"


def enc_bool(b):
    return "true" if b else "false"


class ImplementationHangs(BaseException):
    """The implementation did not return within the time limit (an unbounded loop counts as a failure, not as a hang of the check)."""


def _alarm(_sig, _frm):
    raise ImplementationHangs()


def run_outcome(fn, limit=8.0):
    """Run fn() and return its canonical outcome.  A call that does not return within `limit` seconds is the outcome
    ('exc', 'ImplementationHangs') (only in the main thread, where the interval timer can interrupt pure Python code)."""
    import signal
    import threading
    timed = threading.current_thread() is threading.main_thread()
    if timed:
        old = signal.signal(signal.SIGALRM, _alarm)
        signal.setitimer(signal.ITIMER_REAL, limit)
    try:
        return ("ok", fn())
    except RecursionError:
        return ("exc", "RecursionError")
    except ImplementationHangs:
        return ("exc", "ImplementationHangs")
    except Exception as e:  # noqa: BLE001 - the class name is the observable
        return ("exc", type(e).__name__)
    finally:
        if timed:
            signal.setitimer(signal.ITIMER_REAL, 0)
            signal.signal(signal.SIGALRM, old)
