"""Canonical descriptions of valida objects (mirrors coq/theories/Descr.v)."""
from .terms import valida


class Inert0:
    """Encoder hook: every inert object nested inside a literal gets tag 0 (as the model does)."""
    def tag(self, o):
        return 0


def describe_arg(a, inert=False):
    v = valida()
    if isinstance(a, v.DataPath) and not inert:
        return ("path", describe_path(a))
    return a          # inside a path part a data-path argument stays an opaque object (tag 0), as in the model (Descr.v)


def describe_cond(c, inert=False):
    v = valida()
    if isinstance(c, v.conditions.NullCondition):
        return ("null",)
    if isinstance(c, v.conditions.ConditionBinaryOp):
        return (c.FLATTEN_SYMBOL, describe_cond(c.children[0], inert), describe_cond(c.children[1], inert))
    return ("leaf", type(c).__name__, c.callable.name, [describe_arg(a, inert) for a in c.callable.args],
            {k: describe_arg(a, inert) for k, a in c.callable.kwargs.items()})


def describe_part(p):
    v = valida()
    name = type(p).__name__
    if isinstance(p, v.datapath.MapOrListValue):
        return (name, describe_cond(p.condition, True), describe_cond(p.list_condition, True), describe_cond(p.map_condition, True), p.label)
    return (name, describe_cond(p.condition, True), p.label)


def describe_path(p):
    return ([describe_part(x) for x in p.parts], p.is_concrete, p.DATUM_TYPE.name, p.MULTI_TYPE.name)


def describe_rule(r):
    casts = [(k, f.__name__) for k, f in (r.cast or {}).items()]
    return (describe_path(r.path), describe_cond(r.condition), casts)
