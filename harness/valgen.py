"""Generators of JSON/YAML-like values, documents and callable arguments (one PRNG)."""
import random

INTS = [0, 1, -1, 2, 3, 7, -7, 10, 2 ** 31, 2 ** 53, 2 ** 53 + 1, 2 ** 63 - 1, -(2 ** 63 - 1), 4, 6, 12]
FLOATS = [0.0, -0.0, 1.0, 2.0, 2.5, 0.1, 1e-8, 1e15, 2.0 ** 53, 5e-324, -1.5, 3.0, 1e-9, 0.5]
STRS = ["", "a", "abc", "b<", "1", "2.5", " 3 ", "1_0", "true", "TRUE", "False", "path", "\\path",
        "%d", "%z", "100%", "`x`", "é", "b", "ab", "key", "x y", "-7", "3", "A", "%s", "%(k)s", "%"]
KEYSTRS = ["a", "b", "c", "abc", "", "1", "key", "é", "path", "A"]
TYPES = [int, float, str, list, dict, bool]


class Gen:
    def __init__(self, seed):
        self.r = random.Random(seed)

    # -- scalars -------------------------------------------------------
    def small_int(self):
        return self.r.choice([0, 1, 2, 3, -1, 4, 5, 7])

    def scalar(self):
        k = self.r.random()
        if k < 0.25:
            return self.r.choice(INTS) if self.r.random() < 0.5 else self.small_int()
        if k < 0.40:
            return self.r.choice(FLOATS)
        if k < 0.70:
            return self.r.choice(STRS)
        if k < 0.82:
            return self.r.choice([True, False])
        if k < 0.90:
            return None
        return self.r.choice(INTS + FLOATS)

    def key(self):
        k = self.r.random()
        if k < 0.6:
            return self.r.choice(KEYSTRS)
        if k < 0.75:
            return self.r.choice([0, 1, 2, -1, 7])
        if k < 0.85:
            return self.r.choice([1.0, 2.5, 0.0])
        if k < 0.93:
            return self.r.choice([True, False])
        return None

    # -- nested values ---------------------------------------------------
    def value(self, depth=3, width=4):
        if depth <= 0 or self.r.random() < 0.45:
            return self.scalar()
        if self.r.random() < 0.5:
            return [self.value(depth - 1, width) for _ in range(self.r.randint(0, width))]
        d = {}
        for _ in range(self.r.randint(0, width)):
            d[self.key()] = self.value(depth - 1, width)
        return d

    def twin(self, v):
        """A value that is == to v (or v again) but of another type where Python has one: items of a
        container must be judged independently even when they are equal / hash-equal."""
        if isinstance(v, bool):
            return self.r.choice([int(v), float(v), v])
        if isinstance(v, int) and abs(v) < 2 ** 53:
            return self.r.choice([float(v), v] + ([bool(v)] if v in (0, 1) else []))
        if isinstance(v, float) and v == int(v) and abs(v) < 2 ** 53:
            return self.r.choice([int(v), v] + ([bool(v)] if v in (0.0, 1.0) else []) + ([-v] if v == 0 else []))
        return copy_value(v)

    def container(self, depth=3, width=4, kind=None):
        """A non-empty list or dict; three in ten hold an equal-valued twin of one of their items."""
        kind = kind or self.r.choice(["list", "dict"])
        n = self.r.randint(1, width)
        if kind == "list":
            out = [self.value(depth - 1, width) for _ in range(n)]
            if self.r.random() < 0.3:
                out.insert(self.r.randint(0, len(out)), self.twin(self.r.choice(out)))
            return out
        d = {}
        while not d:
            for _ in range(n):
                d[self.key()] = self.value(depth - 1, width)
        if self.r.random() < 0.3:
            k = self.r.choice(["t", "tw", 9, 2.25])
            if k not in d:
                d[k] = self.twin(self.r.choice(list(d.values())))
        return d

    def document(self, depth=4, width=4):
        return self.container(depth, width)

    # -- values occurring in a document ----------------------------------
    def harvest(self, doc, out=None, depth=0):
        """All (value-ish) things occurring in the document: values, keys, lengths, types."""
        if out is None:
            out = []
        if depth > 6:
            return out
        out.append(doc)
        if isinstance(doc, dict):
            out.append(len(doc))
            for k, v in doc.items():
                out.append(k)
                self.harvest(v, out, depth + 1)
        elif isinstance(doc, list):
            out.append(len(doc))
            for v in doc:
                self.harvest(v, out, depth + 1)
        elif isinstance(doc, str):
            out.append(len(doc))
        return out


def copy_value(v):
    """Deep copy preserving types exactly."""
    if isinstance(v, list):
        return [copy_value(i) for i in v]
    if isinstance(v, tuple):
        return tuple(copy_value(i) for i in v)
    if isinstance(v, dict):
        return {k: copy_value(x) for k, x in v.items()}
    return v


def type_exact_eq(a, b):
    """Equality that distinguishes 1 / 1.0 / True, -0.0 / 0.0, list / tuple and dict order."""
    if type(a) is not type(b):
        return False
    if isinstance(a, (list, tuple)):
        return len(a) == len(b) and all(type_exact_eq(x, y) for x, y in zip(a, b))
    if isinstance(a, dict):
        return len(a) == len(b) and all(
            type_exact_eq(k1, k2) and type_exact_eq(v1, v2)
            for (k1, v1), (k2, v2) in zip(a.items(), b.items()))
    if isinstance(a, float):
        return a.hex() == b.hex()
    return a == b
