"""Generators of JSON/YAML-like values, documents and callable arguments (one PRNG)."""
import random

INTS = [0, 1, -1, 2, 3, 7, -7, 10, 2 ** 31, 2 ** 53, 2 ** 53 + 1, 2 ** 63 - 1, -(2 ** 63 - 1), 4, 6, 12]
FLOATS = [0.0, -0.0, 1.0, 2.0, 2.5, 0.1, 1e-8, 1e15, 2.0 ** 53, 5e-324, -1.5, 3.0, 1e-9, 0.5]
STRS = ["", "a", "abc", "b<", "1", "2.5", " 3 ", "1_0", "true", "TRUE", "False", "path", "\\path",
        "%d", "%z", "100%", "`x`", "é", "b", "ab", "key", "x y", "-7", "3", "A", "%s", "%(k)s", "%", "%c"]
KEYSTRS = ["a", "b", "c", "abc", "", "1", "key", "é", "path", "A", "a  b", " a", "b\n", "{x}", "${HOME}"]
TYPES = [int, float, str, list, dict, bool]


class Gen:
    def __init__(self, seed):
        self.r = random.Random(seed)

    # -- scalars -------------------------------------------------------
    def small_int(self):
        return self.r.choice([0, 1, 2, 3, -1, 4, 5, 7])

    def scalar(self):
        k = self.r.random()
        if k < 0.25:
            return self.r.choice(INTS) if self.r.random() < 0.5 else self.small_int()
        if k < 0.40:
            return self.r.choice(FLOATS)
        if k < 0.70:
            return self.r.choice(STRS)
        if k < 0.82:
            return self.r.choice([True, False])
        if k < 0.90:
            return None
        return self.r.choice(INTS + FLOATS)

    def key(self):
        k = self.r.random()
        if k < 0.6:
            return self.r.choice(KEYSTRS)
        if k < 0.75:
            return self.r.choice([0, 1, 2, -1, 7])
        if k < 0.85:
            return self.r.choice([1.0, 2.5, 0.0])
        if k < 0.93:
            return self.r.choice([True, False])
        return None

    # -- nested values ---------------------------------------------------
    def value(self, depth=3, width=4):
        if depth <= 0 or self.r.random() < 0.45:
            return self.scalar()
        if self.r.random() < 0.5:
            return [self.value(depth - 1, width) for _ in range(self.r.randint(0, width))]
        d = {}
        for _ in range(self.r.randint(0, width)):
            d[self.key()] = self.value(depth - 1, width)
        return d

    def twin(self, v):
        """A value that is == to v (or v again) but of another type where Python has one: items of a
        container must be judged independently even when they are equal / hash-equal."""
        if isinstance(v, bool):
            return self.r.choice([int(v), float(v), v])
        if isinstance(v, int) and abs(v) < 2 ** 53:
            return self.r.choice([float(v), v] + ([bool(v)] if v in (0, 1) else []))
        if isinstance(v, float) and v == int(v) and abs(v) < 2 ** 53:
            return self.r.choice([int(v), v] + ([bool(v)] if v in (0.0, 1.0) else []) + ([-v] if v == 0 else []))
        return copy_value(v)

    def container(self, depth=3, width=4, kind=None):
        """A non-empty list or dict; three in ten hold an equal-valued twin of one of their items."""
        kind = kind or self.r.choice(["list", "dict"])
        n = self.r.randint(1, width)
        if kind == "list":
            out = [self.value(depth - 1, width) for _ in range(n)]
            if self.r.random() < 0.3:
                out.insert(self.r.randint(0, len(out)), self.twin(self.r.choice(out)))
            return out
        d = {}
        while not d:
            for _ in range(n):
                d[self.key()] = self.value(depth - 1, width)
        if self.r.random() < 0.3:
            k = self.r.choice(["t", "tw", 9, 2.25])
            if k not in d:
                d[k] = self.twin(self.r.choice(list(d.values())))
        return d

    def document(self, depth=4, width=4):
        return self.container(depth, width)

    def share(self, doc, times=None):
        """Make the document a DAG: the same list / dict OBJECT referenced from several positions (what a YAML loader
        produces for anchors and aliases, or `[row] * 3`).  No cycles.  The node-level meaning is that of the unfolded tree
        (which is what the encoders hand to the model)."""
        for _ in range(times if times is not None else self.r.randint(1, 3)):
            conts = []

            def walk(v, path):
                if isinstance(v, (list, dict)):
                    conts.append((path, v))
                    for k, x in (enumerate(v) if isinstance(v, list) else list(v.items())):
                        walk(x, path + (k,))
            walk(doc, ())
            inner = [(p, c) for p, c in conts if p and c]
            if not inner:
                return doc
            pc, c = self.r.choice(inner)
            below = set()

            def reach(v):
                if isinstance(v, (list, dict)) and id(v) not in below:
                    below.add(id(v))
                    for x in (v if isinstance(v, list) else v.values()):
                        reach(x)
            reach(c)
            targets = [(p, t) for p, t in conts if id(t) not in below]
            if not targets:
                return doc
            pt, t = self.r.choice(targets)
            if isinstance(t, list):
                k = self.r.random()
                if k < 0.4:
                    t.append(c)
                elif k < 0.7:
                    t.insert(self.r.randint(0, len(t)), c)
                else:
                    t.extend([c] * self.r.randint(1, 2))
            else:
                for _k in range(self.r.randint(1, 2)):
                    key = self.key()
                    if key not in t:
                        t[key] = c
        return doc

    # -- values occurring in a document ----------------------------------
    def harvest(self, doc, out=None, depth=0):
        """All (value-ish) things occurring in the document: values, keys, lengths, types."""
        if out is None:
            out = []
        if depth > 6:
            return out
        out.append(doc)
        if isinstance(doc, dict):
            out.append(len(doc))
            for k, v in doc.items():
                out.append(k)
                self.harvest(v, out, depth + 1)
        elif isinstance(doc, list):
            out.append(len(doc))
            for v in doc:
                self.harvest(v, out, depth + 1)
        elif isinstance(doc, str):
            out.append(len(doc))
        return out


def copy_value(v, _memo=None):
    """Deep copy preserving types exactly, and preserving which containers are one object (a document in which the same list /
    dict sits at several positions is copied to one of the same shape)."""
    if not isinstance(v, (list, tuple, dict)):
        return v
    _memo = {} if _memo is None else _memo
    if id(v) in _memo:
        return _memo[id(v)]
    if isinstance(v, list):
        out = _memo[id(v)] = []
        out.extend(copy_value(i, _memo) for i in v)
        return out
    if isinstance(v, dict):
        out = _memo[id(v)] = {}
        for k, x in v.items():
            out[k] = copy_value(x, _memo)
        return out
    return tuple(copy_value(i, _memo) for i in v)


def type_exact_eq(a, b):
    """Equality that distinguishes 1 / 1.0 / True, -0.0 / 0.0, list / tuple and dict order."""
    if type(a) is not type(b):
        return False
    if isinstance(a, (list, tuple)):
        return len(a) == len(b) and all(type_exact_eq(x, y) for x, y in zip(a, b))
    if isinstance(a, dict):
        return len(a) == len(b) and all(
            type_exact_eq(k1, k2) and type_exact_eq(v1, v2)
            for (k1, v1), (k2, v2) in zip(a.items(), b.items()))
    if isinstance(a, float):
        return a.hex() == b.hex()
    return a == b


def spoil(x, _seen=None):
    """Edit a (JSON-like) result in place, at every level: what a caller may do with a value it was handed.  Used to check
    that a second call does not hand out (or depend on) the same objects."""
    _seen = _seen if _seen is not None else set()
    if id(x) in _seen:
        return
    _seen.add(id(x))
    if isinstance(x, list):
        for i in x:
            spoil(i, _seen)
        x.append("spoiled")
        if len(x) > 1:
            x[0] = {"spoiled": 0}
    elif isinstance(x, dict):
        for i in list(x.values()):
            spoil(i, _seen)
        for k in list(x)[:1]:
            x[k] = ["spoiled"]
        x["spoiled"] = 1


def share_equal(x, pool=None):
    """The same structure with every pair of type-exactly equal lists / dicts inside it made ONE object: what a YAML loader
    builds for anchors and aliases, and what a caller who reuses a sub-spec passes in.  (Returns a new outer structure.)"""
    pool = {} if pool is None else pool
    if isinstance(x, list):
        y = [share_equal(i, pool) for i in x]
    elif isinstance(x, dict):
        y = {k: share_equal(i, pool) for k, i in x.items()}
    else:
        return x
    return pool.setdefault((type(y).__name__, repr(y)), y)


def twin_all(g, v, force=False):
    """A document == to v in which numbers / booleans are replaced by equal values of another type where there is one
    (1 / True / 1.0): equal documents are still different documents.  With `force`, the type always changes where it can."""
    if isinstance(v, list):
        return [twin_all(g, x, force) for x in v]
    if isinstance(v, dict):
        return {k: twin_all(g, x, force) for k, x in v.items()}
    t = g.twin(v)
    if force:
        for _ in range(6):
            if type(t) is not type(v):
                break
            t = g.twin(v)
    return t
