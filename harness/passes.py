"""The two passes every property check runs on the same generated cases:
K (correspondence): model evaluated in Coq == implementation outcome;
O (oracle): the hand-written specification (independent of Gen/) judges the implementation outcome."""
from . import coqrun


class Case:
    __slots__ = ("descr", "model", "oracle", "impl", "outcome", "nontrivial", "key")

    def __init__(self, descr, model, oracle, impl, outcome, nontrivial=False, key=None):
        self.descr, self.model, self.oracle, self.impl = descr, model, oracle, impl
        self.outcome, self.nontrivial, self.key = outcome, nontrivial, key


def run_passes(name, imports, cases, model_ok=True, spec_ok=True, jobs=16):
    k_idx = [i for i, c in enumerate(cases) if c.model is not None] if model_ok else []
    o_idx = [i for i, c in enumerate(cases) if c.oracle is not None] if spec_ok else []
    k_bad, o_bad = [], []
    err = None
    if k_idx:
        try:
            bad = coqrun.eval_cases(name + "_K", imports, [f"({cases[i].model}, {cases[i].impl})" for i in k_idx], jobs=jobs)
            k_bad = [k_idx[j] for j in bad]
        except coqrun.CoqEvalError as e:
            err = str(e)[-1500:]
            k_bad = k_idx[:1]
    if o_idx:
        spec_imports = imports if model_ok else " ".join(x for x in imports.split() if x not in ("Inst",))
        try:
            bad = coqrun.eval_cases(name + "_O", spec_imports,
                                    [f"(oracle_pair {cases[i].oracle} {cases[i].impl})" for i in o_idx], jobs=jobs)
            o_bad = [o_idx[j] for j in bad]
        except coqrun.CoqEvalError as e:
            err = (err or "") + str(e)[-1500:]
            nk_o = 0
    if err:
        print('COQ-EVAL-ERROR:', err[:1500], flush=True)
    return k_bad, o_bad, (0 if err else len(k_idx)), (0 if err else len(o_idx)), err
