"""Rule and schema terms."""
from . import coqenc as E
from .pathterms import PathT
from .terms import valida

CASTS = {"bool": ("CastStrBool", "TStr"), "int": ("CastStrInt", "TStr")}


class Tags:
    def __init__(self):
        self.n = 0

    def next(self):
        self.n += 1
        return self.n


def enc_arg1(tags):
    def enc(a):
        if isinstance(a, PathT):
            return f"(APath {tags.next()}%N {a.coq()})"
        return f"(ALit {E.enc_val(a)})"
    return enc


class RuleT:
    def __init__(self, path, cond, cast=None):
        self.path, self.cond, self.cast = path, cond, list(cast or [])   # cast: list of "bool" / "int"
        self.empty_cast = False     # cast={} (given, but empty) rather than cast=None: a different object for Rule.__eq__

    def cast_given(self):
        return bool(self.cast) or self.empty_cast

    def cast_dict(self):
        if not self.cast:
            return {} if self.empty_cast else None
        from valida.casting import cast_string_to_bool
        return {str: (int if self.cast[-1] == "int" else cast_string_to_bool)} if len(self.cast) == 1 else \
            {str: (int if self.cast[0] == "int" else cast_string_to_bool)}

    def build(self):
        v = valida()
        return v.Rule(path=self.path.build(), condition=self.cond.build(), cast=self.cast_dict())

    def coq(self, tags=None):
        tags = tags or Tags()
        casts = "[" + "; ".join(f"({CASTS[c][1]}, {CASTS[c][0]})" for c in self.cast[:1]) + "]"
        return f"(Build_ruleterm {self.path.coq()} {self.cond.coq(enc_arg1(tags))} {casts})"

    def descr(self):
        return f"Rule({self.path.descr()}, {self.cond.descr()}, cast={'{}' if self.empty_cast and not self.cast else self.cast[:1]})"


def obs_rule_test(rt):
    fails = [(f.index, f.value, tuple(f.path), len(f.reasons) >= 1) for f in rt.failures]
    return (rt.is_valid, rt.tested, rt.num_failures, fails)
