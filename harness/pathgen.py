"""Generator of data-path terms guided by the document (so that most paths select something)."""
from .valgen import copy_value
from .pathterms import Prim, MapT, ListT, MolT, PathT, lit, cnd
from .terms import Leaf, Null, Bin

DT_MODS = ["length", "dtype", "map_keys", "map_values"]
MT_MODS = ["first", "last", "single", "all"]


class PathGen:
    def __init__(self, cg):
        self.cg = cg
        self.g = cg.g
        self.r = cg.r

    def key_cond(self, node, depth=1):
        doc = node if isinstance(node, dict) and node else {"a": 1}
        return self.cg.tree(doc, depth=depth, classes=["Key", "Key", "KeyLength", "KeyDataType"], null_p=0.05)

    def index_cond(self, node, depth=1):
        doc = node if isinstance(node, list) and node else [1, 2]
        return self.cg.tree(doc, depth=depth, classes=["Index"], null_p=0.05)

    def value_cond(self, node, depth=1):
        doc = node if isinstance(node, (list, dict)) and node else [1, "a"]
        return self.cg.tree(doc, depth=depth, classes=["Value", "Value", "ValueLength", "ValueDataType"], null_p=0.05)

    def any_cond(self, node):
        return self.cg.tree(node if isinstance(node, (list, dict)) and node else [1], depth=1, null_p=0.1)

    def label(self):
        return self.r.choice([None, None, None, "lbl", "x"])

    def part_for(self, node, explicit_p=0.45):
        """A part term likely to apply to `node`."""
        r = self.r
        k = r.random()
        if r.random() < 0.05:
            # a map-or-list part given the same value as key and as index (what DataPath(1) builds, but for any value)
            pool = [0, 1, 1.0, 0.0, True, "a", None, {}, [1], 2.5, -1]
            if isinstance(node, dict):
                pool += [x for x in list(node.keys())[:3]]
            v = r.choice(pool)
            return MolT(key=lit(copy_value(v)), index=lit(copy_value(v)))
        if r.random() < 0.04:
            # key / index conditions that LOOK like plain equality but are not (pre-processed, or another callable):
            # such a part must never be abbreviated to a bare key
            n = r.choice([0, 1, 2, 3, 2.0, 1.0])
            kc = Leaf(r.choice(["KeyLength", "KeyDataType", "Key"]), r.choice(["equal_to", "equal_to", "not_equal_to", "less_than"]), [n])
            if kc.cls == "KeyDataType":
                kc.args = [r.choice([int, str, float])]
            if r.random() < 0.5:
                return MolT(index=lit(n) if isinstance(n, int) else None, key=cnd(kc))
            return MapT(key=cnd(kc))
        if isinstance(node, dict) and node:
            keys = list(node.keys())
            if k > explicit_p:
                key = r.choice(keys) if r.random() < 0.85 else self.g.key()
                if isinstance(key, (str, int, float)) and key is not None:
                    return Prim(key)
                return MapT(key=lit(key))
            kk = r.random()
            if kk < 0.2:
                return MapT(label=self.label())
            if kk < 0.45:
                return MapT(key=lit(r.choice(keys)) if r.random() < 0.5 else cnd(self.key_cond(node)), label=self.label())
            if kk < 0.65:
                return MapT(value=cnd(self.value_cond(node)) if r.random() < 0.8 else lit(r.choice(list(node.values()))))
            if kk < 0.75:
                return MapT(key=cnd(self.key_cond(node)), value=cnd(self.value_cond(node)),
                            condition=cnd(self.any_cond(node)) if r.random() < 0.3 else None)
            if kk < 0.9:
                return MolT(key=lit(r.choice(keys)) if r.random() < 0.6 else cnd(self.key_cond(node)),
                            index=lit(r.choice([0, 1])) if r.random() < 0.5 else None,
                            value=cnd(self.value_cond(node)) if r.random() < 0.3 else None, label=self.label())
            return ListT()  # inapplicable on purpose
        if isinstance(node, list) and node:
            if k > explicit_p:
                i = r.randrange(len(node)) if r.random() < 0.8 else r.choice([len(node), -1, -len(node), 7, float(len(node) - 1), True])
                return Prim(i)
            kk = r.random()
            if kk < 0.2:
                return ListT(label=self.label())
            if kk < 0.45:
                return ListT(index=lit(r.randrange(len(node))) if r.random() < 0.5 else cnd(self.index_cond(node)))
            if kk < 0.65:
                return ListT(value=cnd(self.value_cond(node)) if r.random() < 0.8 else lit(r.choice(node)))
            if kk < 0.75:
                return ListT(index=cnd(self.index_cond(node)), value=cnd(self.value_cond(node)))
            if kk < 0.9:
                return MolT(index=lit(r.randrange(len(node))) if r.random() < 0.6 else cnd(self.index_cond(node)),
                            key=lit("a") if r.random() < 0.4 else None,
                            value=cnd(self.value_cond(node)) if r.random() < 0.3 else None)
            return MapT()  # inapplicable on purpose
        # scalar / empty container: any part (must match nothing)
        return r.choice([Prim("a"), Prim(0), MapT(), ListT(), MolT(), Prim(2.5), Prim(True), Prim(-1), Prim(1.0), Prim("0")])

    def select(self, part, node):
        """Children of node the real part selects (used only to steer generation)."""
        try:
            fd = part.build()
            if not hasattr(fd, "filter"):
                from .terms import valida
                fd = valida().DataPath(fd).parts[0]
            f = fd.filter(node)
            return list(f.data)
        except Exception:
            return []

    def path(self, doc, max_len=4, mods_p=0.35, wrong_p=0.05):
        n = self.r.choice([0, 1, 1, 2, 2, 3, 3, max_len][:max_len + 4])
        parts = []
        frontier = [doc]
        for _ in range(n):
            node = self.r.choice(frontier) if frontier else None
            if self.r.random() < wrong_p:
                node = self.r.choice([None, 3, "abc", [], {}])
            p = self.part_for(node)
            dicts = [x for x in frontier if isinstance(x, dict) and x]
            lists = [x for x in frontier if isinstance(x, list) and x]
            if dicts and lists and self.r.random() < 0.5:
                # the nodes reached are of both kinds: ONE map-or-list part with its own key and index conditions (and,
                # mostly, a value condition) meets mappings and lists alike
                dn, ln = self.r.choice(dicts), self.r.choice(lists)
                vn = self.r.choice([dn, ln])
                p = MolT(key=lit(self.r.choice(list(dn.keys()))) if self.r.random() < 0.5 else cnd(self.key_cond(dn)),
                         index=lit(self.r.randrange(len(ln))) if self.r.random() < 0.5 else cnd(self.index_cond(ln)),
                         value=cnd(self.value_cond(vn)) if self.r.random() < 0.65 else None, label=self.label())
            if parts and parts[-1].explicit and self.r.random() < 0.07:
                p = parts[-1]        # the same part (the very same object once built) again, one level further down
            parts.append(p)
            new = []
            for nd in frontier[:6]:
                new.extend(self.select(p, nd))
            frontier = new
        mods = []
        if self.r.random() < mods_p:
            concrete = all(not p.explicit for p in parts)
            sel = frontier
            if self.r.random() < 0.7:
                if sel and all(isinstance(x, dict) for x in sel) and self.r.random() < 0.5:
                    mods.append(self.r.choice(["map_keys", "map_values", "length"]))
                elif sel and all(isinstance(x, (list, dict, str)) for x in sel) and self.r.random() < 0.7:
                    mods.append("length")
                else:
                    mods.append(self.r.choice(DT_MODS))
            if (not concrete and self.r.random() < 0.7) or self.r.random() < 0.1:
                m = self.r.choice(MT_MODS)
                if self.r.random() < 0.5:
                    mods.append(m)
                else:
                    mods.insert(0, m)
            if self.r.random() < 0.04:
                mods.append(self.r.choice(DT_MODS + MT_MODS))
        return PathT(parts, mods)

    def shared_doc_and_path(self, max_len=3, mods_p=0.35):
        """A document holding the SAME container object at several sibling positions, and a path that reaches all of them
        through a non-concrete part and descends into it (YAML anchors / `[row] * 3`)."""
        r, g = self.r, self.g
        c = g.container(3, 4)
        k = r.randint(2, 3)
        others = [g.value(2, 3) for _ in range(r.randint(0, 2))]
        if r.random() < 0.5:
            top = [c] * k + others
            r.shuffle(top)
        else:
            keys = r.sample(["a", "b", "c", "key", "path", "x", "t", "A"], k + len(others))
            vals = [c] * k + others
            r.shuffle(vals)
            top = dict(zip(keys, vals))
        first = self.part_for(top, explicit_p=1.0)
        doc, prefix = top, []
        w = r.random()
        if w < 0.25:
            doc, prefix = {"rows": top, "n": 1}, [Prim("rows")]
        elif w < 0.4:
            doc = [top, g.value(1, 2)]
            prefix = [self.part_for(doc, explicit_p=1.0)]
        pt = self.path(c, max_len=max_len, mods_p=mods_p, wrong_p=0.0)
        if not pt.parts:
            pt.parts = [self.part_for(c)]
        pt.parts = prefix + [first] + pt.parts
        return doc, pt

    def mixed_doc_and_path(self, doc=None):
        """A document with sibling mappings AND lists, and a path whose map-or-list part (own key, index and value conditions)
        meets both kinds through a non-concrete part before it."""
        r, g = self.r, self.g
        kids = [g.container(2, 4, "dict"), g.container(2, 4, "list")] + [g.container(2, 3) for _ in range(r.randint(0, 2))]
        kids += [g.scalar() for _ in range(r.randint(0, 1))]
        r.shuffle(kids)
        if r.random() < 0.5:
            top = kids
        else:
            top = dict(zip(r.sample(["a", "b", "c", "key", "x", "t", "A", 1, 2.5], len(kids)), kids))
        first = self.part_for(top, explicit_p=1.0) if r.random() < 0.5 else (ListT() if isinstance(top, list) else MapT())
        dn = r.choice([x for x in kids if isinstance(x, dict) and x])
        ln = r.choice([x for x in kids if isinstance(x, list) and x])
        vn = r.choice([dn, ln])
        mol = MolT(key=lit(r.choice(list(dn.keys()))) if r.random() < 0.5 else cnd(self.key_cond(dn)),
                   index=lit(r.randrange(len(ln))) if r.random() < 0.5 else cnd(self.index_cond(ln)),
                   value=cnd(self.value_cond(vn)) if r.random() < 0.8 else None, label=self.label())
        parts = [first, mol]
        if r.random() < 0.3:
            sel = self.select(mol, dn) + self.select(mol, ln)
            parts.append(self.part_for(r.choice(sel) if sel else None))
        return top, PathT(parts, [])

    def repeated_part_path(self, doc, mods_p=0.6):
        """A path that uses ONE part object at several positions (step = MapValue(); DataPath(step, step, step)), mostly with a
        multiplicity modifier, over a document nested deeply enough for it.  Returns (document, path): half of the time the document
        is one whose FIRST branch is a dead end below the second level while a later branch goes all the way down."""
        r, g = self.r, self.g
        k = r.random()
        n = r.choice([2, 3, 3, 4])
        if r.random() < 0.5:
            kind = r.choice(["dict", "list"])

            def mk(items):
                return list(items) if kind == "list" else {key: x for key, x in zip(["a", "b", "c", "key"], items)}
            deep = mk([g.scalar(), g.scalar()])
            for _ in range(n - 2):
                deep = mk([deep, mk([g.scalar()])])
            dead = mk([g.scalar(), mk([])])
            doc = mk([dead, deep] if r.random() < 0.7 else [dead, g.scalar(), deep])
            step = (ListT() if kind == "list" else MapT()) if k < 0.7 else MolT()
        else:
            step = MapT() if k < 0.4 else (ListT() if k < 0.6 else (MolT() if k < 0.8 else self.part_for(doc, explicit_p=1.0)))
        parts = [step] * n
        if r.random() < 0.2:
            parts = [self.part_for(doc)] + parts[:-1]
        mods = []
        if r.random() < mods_p:
            mods.append(r.choice(["first", "first", "last", "all"]))
        if r.random() < 0.3:
            mods.insert(r.randint(0, len(mods)), r.choice(["length", "dtype"]))
        return doc, PathT(parts, mods)

    def wide_doc_and_path(self):
        """A container with 9-14 children and a path selecting a FEW of them (positions on both sides of 8), possibly descending further:
        the selected nodes come in document order whatever their number and positions."""
        r, g = self.r, self.g
        n = r.randint(9, 14)
        kids = [g.r.choice([g.scalar(), {"id": i, "tag": g.scalar()}, [i, g.scalar()]]) if r.random() < 0.6 else {"id": i, "tag": i} for i in range(n)]
        as_list = r.random() < 0.6
        keys = [f"k{i}" for i in range(n)]
        top = kids if as_list else dict(zip(keys, kids))
        pos = sorted(r.sample(range(n), r.randint(2, 4)))
        if not any(p >= 8 for p in pos):
            pos[-1] = r.randint(8, n - 1)
        if not any(p < 8 and (p % 8) > (max(pos) % 8) for p in pos):
            pos[0] = min(7, (max(pos) % 8) + 1)
        pos = sorted(set(pos))
        if as_list:
            first = ListT(index=cnd(Leaf("Index", "in_", [list(pos)]))) if r.random() < 0.7 else MolT(index=cnd(Leaf("Index", "in_", [list(pos)])))
        else:
            first = MapT(key=cnd(Leaf("Key", "in_", [[keys[p] for p in pos]]))) if r.random() < 0.7 else MolT(key=cnd(Leaf("Key", "in_", [[keys[p] for p in pos]])))
        parts = [first]
        if r.random() < 0.4:
            parts.append(r.choice([Prim("id"), Prim(0), MapT(), Prim("tag")]))
        doc = top
        if r.random() < 0.4:
            doc = {"rows": top, "n": n}
            parts = [Prim("rows")] + parts
        return doc, PathT(parts, [])
