"""Spec spellings of DSL terms (C09/C10/C11) and structural mutations of specs (C19)."""
import inspect

from .terms import Leaf, Null, Bin, valida
from .pathterms import PathT, Prim, MapT, ListT, MolT

LABEL = {"Value": "value", "ValueLength": "value.length", "ValueDataType": "value.dtype", "Key": "key",
         "KeyLength": "key.length", "KeyDataType": "key.dtype", "Index": "index"}
TYPE_NAMES = {int: ["int"], float: ["float"], str: ["str"], list: ["list"], dict: ["dict", "map"], bool: ["bool"]}


class SpecGen:
    def __init__(self, g):
        self.g, self.r = g, g.r

    def randcase(self, s):
        k = self.r.random()
        if k < 0.5:
            return s
        if k < 0.7:
            return s.upper()
        return "".join(c.upper() if self.r.random() < 0.4 else c for c in s)

    def type_spelling(self, t):
        if t in TYPE_NAMES and self.r.random() < 0.8:
            return self.randcase(self.r.choice(TYPE_NAMES[t]))
        return t

    @staticmethod
    def esc(d):
        """Escape the keys of a literal mapping so that from_spec does not take it for a path spec."""
        if any(isinstance(k, str) and "path" in k for k in d):
            return {(k.replace("path", "\\path") if isinstance(k, str) else k): v for k, v in d.items()}
        return d

    def item_spec(self, v, as_type=False):
        """An item of a list argument / a value of a mapping argument (from_spec looks one level down)."""
        if isinstance(v, PathT):
            return self.spelled_path(v)
        if as_type and isinstance(v, type):
            return self.type_spelling(v)
        if isinstance(v, dict):
            return self.esc(v)
        return v

    def spelled_path(self, a):
        s = self.path_spec(a)
        if s is None:
            raise Unspellable()
        return s

    def arg_spec(self, a, as_type=False):
        if isinstance(a, PathT):
            return self.spelled_path(a)
        if as_type and isinstance(a, type):
            return self.type_spelling(a)
        if isinstance(a, dict):
            if any(isinstance(k, str) and "path" in k for k in a):
                return self.esc(a)
            return {k: self.item_spec(v) for k, v in a.items()}
        if isinstance(a, (list, tuple)):
            out = [self.item_spec(v, as_type) for v in a]
            # a spec given as a Python structure may hold a tuple, which stays one (opt-in: the JSON-route checks want lists)
            return tuple(out) if isinstance(a, tuple) and getattr(self, "keep_tuples", False) else out
        return a

    def leaf_key(self, t):
        label = LABEL[t.cls]
        toks = label.split(".")
        if len(toks) == 2:
            pre = toks[1]
            alts = {"dtype": ["dtype", "type"], "length": ["length", "len"]}[pre]
            toks[1] = self.r.choice(alts)
        m = t.method
        if m == "in_" and self.r.random() < 0.6:
            m = "in"
        return ".".join(self.randcase(x) for x in toks + [m])

    def leaf_spec(self, t):
        """A spec spelling of a DSL leaf, or None when the leaf has no spec form (e.g. bad arity)."""
        v = valida()
        cls = getattr(v.conditions, t.cls)
        try:
            sig = inspect.signature(getattr(cls, t.method))
            bound = sig.bind(*t.args, **t.kwargs)
        except (TypeError, AttributeError):
            return None
        params = list(sig.parameters.values())
        pk = [p for p in params if p.kind is p.POSITIONAL_OR_KEYWORD]
        va = [p for p in params if p.kind is p.VAR_POSITIONAL]
        kw = [p for p in params if p.kind is p.VAR_KEYWORD]
        as_type = "DataType" in t.cls or t.method in ("is_instance", "keys_is_instance")
        key = self.leaf_key(t)
        if not pk and not va and not kw:
            return {key: None}
        if len(pk) == 1 and not va and not kw:
            a = bound.arguments[pk[0].name]
            return {key: self.arg_spec(a, as_type)}
        if len(pk) > 1 and not va and not kw:
            bound.apply_defaults()
            vals = [self.item_spec(bound.arguments[p.name], as_type) for p in pk]
            if self.r.random() < 0.5:
                return {key: dict(zip([p.name for p in pk], vals))}
            return {key: vals}
        if va and not pk and not kw:
            return {key: [self.item_spec(a, as_type) for a in bound.arguments.get(va[0].name, ())]}
        if kw and not va:
            d = dict(bound.arguments.get(kw[0].name, {}))
            if any("path" in k for k in d):
                return {key: self.esc(d)}
            return {key: {k: self.item_spec(a, as_type) for k, a in d.items()}}
        return None

    def cond_spec(self, t):
        try:
            return self._cond_spec(t)
        except Unspellable:
            return None

    def _cond_spec(self, t):
        if isinstance(t, Null):
            return self.r.choice([{}, None]) if self.r.random() < 0.5 else {}
        if isinstance(t, Leaf):
            return self.leaf_spec(t)
        # flatten same-operator left spines into one list, as a spec author would
        items, cur = [t.b], t.a
        while isinstance(cur, Bin) and cur.op == t.op and self.r.random() < 0.7:
            items.insert(0, cur.b)
            cur = cur.a
        items.insert(0, cur)
        specs = [self._cond_spec(i) for i in items]
        if any(s is None for s in specs):
            return None
        return {t.op: specs}

    # ---- paths ----
    def part_spec(self, p):
        if isinstance(p, Prim):
            return p.v
        ty = {"MapValue": "map_value", "ListValue": "list_value", "MapOrListValue": "map_or_list_value"}[p.PY]
        d = {}
        if not (ty == "map_or_list_value" and self.r.random() < 0.5):
            d["type"] = ty
        for k, a in p.kw.items():
            if a is None or (a.is_lit and a.lit is None):
                continue
            if a.is_lit:
                cls = {"key": "key", "index": "index", "value": "value"}[k]
                d[f"{cls}.equal_to"] = self.arg_spec(a.lit)     # a literal mapping that looks like a path spec is escaped
            else:
                if isinstance(a.cond, Null) or not a.cond.leaves():
                    continue          # a null condition is the same as no condition; it has no spelling under key / index / value
                s = self.cond_spec(a.cond)
                if s is None:
                    return None
                if k in ("key", "index", "value") and isinstance(a.cond, Leaf) and self.r.random() < 0.4:
                    (kk, vv), = s.items()
                    # the shorthand is recognised by its lower-case datum prefix ("value." / "key." / "index."): in any other
                    # case the entry is an unknown argument of the part (ValueError), not a spelling
                    head, _, tail = kk.partition(".")
                    d[head.lower() + "." + tail] = vv
                else:
                    d[k] = s
        if p.label is not None:
            d["label"] = p.label
        return d

    def path_spec(self, pt):
        parts = [self.part_spec(p) for p in pt.parts]
        if any(isinstance(x, dict) and x is None for x in parts) or any(x is None and not isinstance(p, Prim) for x, p in zip(parts, pt.parts)):
            return None
        alias = {"dtype": ["dtype", "type"], "length": ["length", "len"]}
        key = ".".join(["path"] + [self.randcase(self.r.choice(alias.get(m, [m]))) for m in pt.mods])
        return {self.randcase("path") + key[4:]: parts}


NAMED_TYPES = (int, float, str, list, dict, bool)


class Unspellable(Exception):
    """A term that has no spelling in the spec language (a data-path argument with a part that cannot be written)."""


def delist(a):
    """Lists for tuples; a type object that has no name in the library's type table (NoneType, tuple ...) cannot be
    written in a spec or serialised at all, so it is outside the spec-language properties: replaced by a named one."""
    if isinstance(a, type) and a not in NAMED_TYPES:
        return str
    if isinstance(a, (list, tuple)):
        return [delist(x) for x in a]
    if isinstance(a, dict):
        return {k: delist(x) for k, x in a.items()}
    return a


def normalise_cond(t):
    """Specs are JSON/YAML-like: the DSL terms compared with them carry lists, not tuples."""
    for l in t.leaves():
        l.args = [a if isinstance(a, PathT) else delist(a) for a in l.args]
        l.kwargs = {k: (a if isinstance(a, PathT) else delist(a)) for k, a in l.kwargs.items()}
        if l.method in ("is_instance", "keys_is_instance"):
            # a string where classes go has no spec form (a string there is read as a type name): outside the spec language
            l.args = [str if isinstance(a, str) else a for a in l.args]
        for a in list(l.args) + list(l.kwargs.values()):
            if isinstance(a, PathT):
                normalise_path(a)
    return t


def normalise_path(pt):
    for part in pt.parts:
        for ca in getattr(part, "kw", {}).values():
            if ca is not None:
                if ca.is_lit:
                    ca.lit = delist(ca.lit)
                else:
                    normalise_cond(ca.cond)
    return pt


def nested_leaves(term):
    """All leaves of a condition term, including those inside the parts of data-path arguments."""
    out = []
    for l in term.leaves():
        out.append(l)
        for a in list(l.args) + list(l.kwargs.values()):
            if isinstance(a, PathT):
                out.extend(path_leaves(a))
    return out


def path_leaves(pt):
    out = []
    for part in pt.parts:
        for ca in getattr(part, "kw", {}).values():
            if ca is not None and not ca.is_lit:
                out.extend(nested_leaves(ca.cond))
    return out


def d12_flag(leaves):
    """Known finding D12: a condition on a data type (or is_instance) whose argument is not a type has no spec form."""
    for l in leaves:
        vals = list(l.args) + list(l.kwargs.values())
        flat = []
        for a in vals:
            flat.extend(a if isinstance(a, (list, tuple)) else [a])
        if "DataType" in l.cls and (not flat or any(not isinstance(a, type) for a in flat)):
            return True
        if l.method in ("is_instance", "keys_is_instance") and any(not isinstance(a, type) for a in l.args):
            return True
    return False
