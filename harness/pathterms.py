"""Path-part and path terms: built as real valida objects and printed as Gallina terms."""
from . import coqenc as E
from .terms import Term, valida


def enc_opt(x, f):
    return "None" if x is None else f"(Some {f(x)})"


class CArg:
    """key= / index= / value= / condition= argument: a raw value (lit) or a condition term."""

    def __init__(self, lit=None, cond=None, is_lit=False):
        self.lit, self.cond, self.is_lit = lit, cond, is_lit

    def build(self):
        return self.lit if self.is_lit else self.cond.build()

    def coq(self):
        return f"(KLit {E.enc_val(self.lit)})" if self.is_lit else f"(KCond {self.cond.coq()})"

    def descr(self):
        return repr(self.lit) if self.is_lit else self.cond.descr()

    def to_json(self):
        from .runner import jval
        from .props.c02 import term_json
        return {"lit": jval(self.lit)} if self.is_lit else {"cond": term_json(self.cond)}


def lit(v):
    return CArg(lit=v, is_lit=True)


def cnd(t):
    return CArg(cond=t)


class Prim:
    def __init__(self, v):
        self.v = v

    def build(self):
        return self.v

    def coq(self):
        return f"(PtPrim {E.enc_val(self.v)})"

    def descr(self):
        return repr(self.v)

    explicit = False


class PartT:
    explicit = True
    FIELDS = ()
    CTOR = ""
    PY = ""

    def __init__(self, label=None, **kw):
        self.kw = {k: kw.get(k) for k in self.FIELDS}
        self.label = label

    def build(self):
        cls = getattr(valida().datapath, self.PY)
        args = {k: a.build() for k, a in self.kw.items() if a is not None}
        if self.label is not None:
            args["label"] = self.label
        return cls(**args)

    def coq(self):
        fs = " ".join(enc_opt(self.kw[k], lambda a: a.coq()) for k in self.FIELDS)
        return f"({self.CTOR} {fs} {enc_opt(self.label, E.enc_val)})"

    def descr(self):
        a = [f"{k}={v.descr()}" for k, v in self.kw.items() if v is not None]
        if self.label is not None:
            a.append(f"label={self.label!r}")
        return f"{self.PY}({', '.join(a)})"


class MapT(PartT):
    FIELDS = ("key", "value", "condition")
    CTOR, PY = "PtMap", "MapValue"


class ListT(PartT):
    FIELDS = ("index", "value", "condition")
    CTOR, PY = "PtList", "ListValue"


class MolT(PartT):
    FIELDS = ("key", "index", "value", "list_condition", "map_condition", "condition")
    CTOR, PY = "PtMol", "MapOrListValue"


class PathT:
    def __init__(self, parts, mods=(), src=None, has_src=False):
        self.parts, self.mods, self.src, self.has_src = list(parts), list(mods), src, has_src

    def __repr__(self):
        return self.descr()

    def build(self, parts_only=False):
        v = valida()
        # the SAME part term object at several positions is built once: one part object used at several positions of the path
        built = {}
        ps = [built[id(p)] if id(p) in built else built.setdefault(id(p), p.build()) for p in self.parts]
        if parts_only:
            return ps
        p = v.DataPath(*ps, source_data=self.src) if self.has_src else v.DataPath(*ps)
        warm = getattr(self, "warm", None)
        if warm is not None:
            # a path object that has already been used when its modifiers are derived: deriving must not depend on history
            try:
                p.get_data(warm[0]) if not self.has_src else p.get_data()
            except Exception:
                pass
        if getattr(self, "warm_spec", False) and self.mods:
            # ... or already been serialised: what a derived path is written as must not depend on that either
            for f in ("to_spec", "to_part_specs", "simplify"):
                try:
                    getattr(p, f)()
                except Exception:
                    pass
        for m in self.mods:
            p = getattr(p, m)()
        return p

    build_path = build

    def coq(self):
        parts = "[" + "; ".join(p.coq() for p in self.parts) + "]"
        mods = "[" + "; ".join(E.enc_str(m) for m in self.mods) + "]"
        src = f"(Some {E.enc_val(self.src)})" if self.has_src else "None"
        return f"(Build_pathterm {parts} {mods} {src})"

    def descr(self):
        s = "DataPath(" + ", ".join(p.descr() for p in self.parts) + (", source_data=…" if self.has_src else "") + ")"
        return s + "".join(f".{m}()" for m in self.mods)
