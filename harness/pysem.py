"""pysem: Layer P (the model of CPython's operators) against CPython itself."""
import itertools
import operator

from . import coqenc as E
from . import coqrun
from .valgen import Gen, INTS, FLOATS, STRS, TYPES

IMPORTS = "Py Check PyOps"


def _neg_zero_free(v):
    """Arithmetic results: the sign of a zero result is not modelled (unobservable via valida)."""
    if isinstance(v, float) and v == 0.0:
        return 0.0
    return v


BIN = {
    "op_eq": operator.eq, "op_ne": operator.ne,
    "op_ord OLt": operator.lt, "op_ord OLe": operator.le, "op_ord OGt": operator.gt, "op_ord OGe": operator.ge,
    "op_in": lambda a, b: a in b,
    "op_in_keys": lambda a, b: a in b.keys(),
    "op_mod": lambda a, b: _neg_zero_free(a % b),
    "op_sub": lambda a, b: _neg_zero_free(a - b),
    "op_isinstance": isinstance,
    "op_getitem": lambda a, b: a[b],
}
UN = {
    "op_abs": abs, "op_len": len, "op_type": type, "op_truthy": lambda a: not not a,
    "op_iter": lambda a: list(a) if not isinstance(a, (int, float, bool, type(None), type)) else iter(a),
    "op_setlen": lambda a: len(set(a)),
}


def build_cases(seed, n):
    g = Gen(seed)
    cases = []
    descr = []
    scal = INTS + FLOATS + STRS + [True, False, None]

    def add(opname, fn, args):
        out = E.run_outcome(lambda: fn(*args))
        if opname == "op_mod" and isinstance(args[0], str):
            pass  # model answers StrFormat; res_match accepts the CPython outcome classes
        try:
            model = f"({opname} " + " ".join(E.enc_val(a) for a in args) + ")"
            impl = E.enc_res(out)
        except E.Unencodable:
            return
        cases.append(f"({model}, {impl})")
        descr.append((opname, args, out))

    # exhaustive scalar x scalar for the binary operators on the pools
    for opname in ("op_eq", "op_ord OLt", "op_ord OLe", "op_mod", "op_sub"):
        for a, b in itertools.product(scal, scal):
            add(opname, BIN[opname], (a, b))
    for a in scal:
        for opname, fn in UN.items():
            add(opname, fn, (a,))
    # random structured
    ops = list(BIN.items())
    for _ in range(n):
        opname, fn = g.r.choice(ops)
        a = g.value(3, 3)
        if opname == "op_isinstance":
            k = g.r.random()
            if k < 0.7:
                b = tuple(g.r.choice(TYPES + [type(None)]) for _ in range(g.r.randint(0, 3)))
            elif k < 0.85:
                b = g.r.choice(TYPES)
            else:
                b = tuple(g.r.choice(TYPES + [1, "a", (int, str)]) for _ in range(g.r.randint(1, 3)))
        elif opname in ("op_in", "op_getitem", "op_in_keys") and g.r.random() < 0.7:
            b = g.container(3, 4) if g.r.random() < 0.7 else g.r.choice(STRS)
            if opname == "op_in_keys" and not isinstance(b, dict):
                b = g.container(2, 4, "dict")
            if g.r.random() < 0.6:
                hv = g.harvest(b)
                a = g.r.choice(hv)
                if opname == "op_getitem" and isinstance(b, (list, str)) and g.r.random() < 0.7:
                    a = g.r.choice([0, 1, -1, 2, 5, -9, True])
            if opname == "op_getitem":
                a, b = b, a
        elif g.r.random() < 0.5:
            b = g.value(3, 3)
            if g.r.random() < 0.3:
                b = a if not isinstance(a, (list, dict)) else __import__("copy").deepcopy(a)
        else:
            b = g.scalar()
        add(opname, fn, (a, b))
        if g.r.random() < 0.3:
            un, ufn = g.r.choice(list(UN.items()))
            add(un, ufn, (a,))
    # x in range(lo, hi)
    for _ in range(max(50, n // 10)):
        x = g.r.choice(scal + [[1], 2 ** 70])
        lo = g.r.choice([0, 1, -3, True, 2.0, None, "a", 5])
        hi = g.r.choice([3, 10, 0, False, 7.5, 2 ** 40]) if type(x) is int else g.r.choice([3, 10, 0, False, 7.5])
        add("op_in_range", lambda x, lo, hi: x in range(lo, hi), (x, lo, hi))
    return cases, descr


def run(seed=0, n=3000, jobs=16):
    cases, descr = build_cases(seed, n)
    bad = coqrun.eval_cases("pysem", IMPORTS, cases, jobs=jobs)
    return cases, descr, bad


if __name__ == "__main__":
    import sys
    seed = int(sys.argv[1]) if len(sys.argv) > 1 else 0
    n = int(sys.argv[2]) if len(sys.argv) > 2 else 3000
    cases, descr, bad = run(seed, n)
    print(f"pysem: {len(cases)} cases, {len(bad)} mismatches")
    for i in bad[:25]:
        print(i, descr[i])
        print("   pair:", coqrun.eval_terms("pysem", IMPORTS, [cases[i]]).strip()[:400])
