"""Identity-aware structural snapshots of valida object graphs and documents (C08 / C18)."""
import types


def snap(o, seen=None, depth=0):
    """A comparable description of everything reachable from o: values type-exactly, containers and
    valida objects with their id(), attributes through __dict__."""
    if seen is None:
        seen = {}
    if o is None or isinstance(o, (bool, int, str, bytes)):
        return (type(o).__name__, o)
    if isinstance(o, float):
        return ("float", o.hex())
    if isinstance(o, type):
        return ("type", o.__module__ + "." + o.__qualname__)
    if isinstance(o, (types.FunctionType, types.BuiltinFunctionType, types.MethodType)):
        return ("func", getattr(o, "__qualname__", repr(o)))
    if id(o) in seen:
        return ("ref", id(o))
    seen[id(o)] = True
    if depth > 60:
        return ("deep", id(o))
    if isinstance(o, dict):
        return ("dict", id(o), [(snap(k, seen, depth + 1), snap(v, seen, depth + 1)) for k, v in o.items()])
    if isinstance(o, (list, tuple)):
        return (type(o).__name__, id(o) if isinstance(o, list) else 0, [snap(v, seen, depth + 1) for v in o])
    if isinstance(o, (set, frozenset)):
        return ("set", sorted(repr(x) for x in o))
    if isinstance(o, range):
        return ("range", o.start, o.stop, o.step)
    mod = type(o).__module__ or ""
    if mod.startswith("valida") or hasattr(o, "__dict__"):
        d = getattr(o, "__dict__", {})
        return ("obj", type(o).__qualname__, id(o), [(k, snap(v, seen, depth + 1)) for k, v in sorted(d.items())])
    return ("other", type(o).__qualname__, repr(o)[:80])
