"""Common driver of the per-property checks: translate, build the Coq development, check
assumptions, run the correspondence (K) and oracle (O) passes, decide, write evidence."""
import fcntl
import hashlib
import importlib
import json
import os
import re
import subprocess
import sys
import time

VERIF = os.path.dirname(os.path.dirname(os.path.abspath(__file__)))
COQ_DIR = os.path.join(VERIF, "coq")
BUILD = os.path.join(VERIF, "_build")
REPO = os.environ.get("VALIDA_REPO", "/repo")

FORBIDDEN = re.compile(r"\b(Admitted|admit|Axiom|Parameter|Conjecture|Unset Guard|bypass_check|type-in-type|Admit Obligations)\b")
ALLOWED_AXIOMS = ()  # target: every property theorem closed under the global context

TRUSTED_BASE = [
    "Coq 8.16.1 kernel (coqc); vm_compute used in *Facts / Tie lemmas and in the in-Coq evaluation of cases; native_compute not used",
    "axioms: none (every property theorem prints 'Closed under the global context')",
    "translator harness/translate.py (fail-closed Python-ast -> Gallina text for callables.py bodies, DSL constructor/class tables, except tuples, lookup tables)",
    "no extraction: the model is evaluated inside Coq by vm_compute on generated case files",
    "correspondence harness (Python): generators, type-exact encoder harness/coqenc.py, implementation runner",
    "modelled rather than verified: Layer P (CPython operators on JSON-like values, validated by pysem), copy.deepcopy/copy.copy, sorted, zip, inspect.signature, Python object protocol",
    "outside the model: ruamel.yaml and json text, repr()/str() text (inputs of the report model Report.v, taken from the implementation per case), "
    "real thread schedules, float(str) parsing, non-ASCII digits / case mapping",
]


def log(*a):
    print(*a, flush=True)


class Lock:
    def __enter__(self):
        os.makedirs(BUILD, exist_ok=True)
        self.fh = open(os.path.join(BUILD, ".lock"), "w")
        fcntl.flock(self.fh, fcntl.LOCK_EX)
        return self

    def __exit__(self, *a):
        fcntl.flock(self.fh, fcntl.LOCK_UN)
        self.fh.close()


def sh(cmd, timeout, cwd=None):
    p = subprocess.run(["timeout", str(timeout)] + cmd, capture_output=True, text=True, cwd=cwd)
    return p.returncode, p.stdout + p.stderr


def scan_forbidden():
    bad = []
    for root, _, files in os.walk(os.path.join(COQ_DIR, "theories")):
        for f in files:
            if f.endswith(".v"):
                p = os.path.join(root, f)
                for i, line in enumerate(open(p), 1):
                    code = re.sub(r"\(\*.*?\*\)", "", line)
                    if FORBIDDEN.search(code):
                        bad.append(f"{os.path.relpath(p, COQ_DIR)}:{i}: {line.strip()[:100]}")
    return bad


def translate():
    """Regenerate Gen/*.v from /repo. Returns (ok, message)."""
    rc, out = sh([sys.executable, "-m", "harness.translate"], 120, cwd=VERIF)
    out = "\n".join(l for l in out.splitlines() if "conda" not in l)
    return rc == 0, out.strip()


def coq_project():
    files = []
    for root, _, fs in os.walk(os.path.join(COQ_DIR, "theories")):
        for f in fs:
            if f.endswith(".v"):
                files.append(os.path.relpath(os.path.join(root, f), COQ_DIR))
    files.sort()
    text = "-Q theories Valida\n-arg -w -arg -notation-overridden\n" + "\n".join(files) + "\n"
    p = os.path.join(COQ_DIR, "_CoqProject")
    old = open(p).read() if os.path.exists(p) else None
    if old != text or not os.path.exists(os.path.join(COQ_DIR, "Makefile")):
        with open(p, "w") as fh:
            fh.write(text)
        sh(["coq_makefile", "-f", "_CoqProject", "-o", "Makefile"], 60, cwd=COQ_DIR)


def make(targets=None, timeout=1500):
    """Full .vo build (never -vos). -k so that everything not depending on a broken file is still built."""
    coq_project()
    cmd = ["make", "-k", "-j16"] + (targets or [])
    rc, out = sh(cmd, timeout, cwd=COQ_DIR)
    failed = re.findall(r'File "\./(theories/[^"]+)", line (\d+)', out)
    errs = []
    for m in re.finditer(r'File "\./(theories/[^"]+)", line (\d+)[^\n]*\n(Error:.*?)(?=\nmake|\nFile|\Z)', out, re.S):
        errs.append((m.group(1), int(m.group(2)), m.group(3).strip()[:600]))
    return rc == 0, failed, errs, out


def vo_exists(rel):
    return os.path.exists(os.path.join(COQ_DIR, "theories", rel))


def vo_fresh(rel):
    """The .vo exists and is newer than its source and every Gen file."""
    vo = os.path.join(COQ_DIR, "theories", rel)
    src = vo[:-1]
    if not os.path.exists(vo):
        return False
    t = os.path.getmtime(vo)
    if os.path.getmtime(src) > t:
        return False
    gen = os.path.join(COQ_DIR, "theories", "Gen")
    for f in os.listdir(gen):
        if f.endswith("Gen.v") and os.path.getmtime(os.path.join(gen, f)) > t and "Gen" in open(src).read():
            pass
    return True


def print_assumptions(pid, theorems):
    """Returns {theorem: 'closed' | [axioms...] | None(missing)}."""
    d = os.path.join(BUILD, "assump")
    os.makedirs(d, exist_ok=True)
    path = os.path.join(d, f"A_{pid}.v")
    res = {}
    with open(path, "w") as fh:
        fh.write(f"From Valida.Properties Require Import {pid}.\n")
        for t in theorems:
            fh.write(f'Goal True. idtac "@@{t}". exact I. Qed.\nPrint Assumptions {t}.\n')
    rc, out = sh(["coqc", "-Q", os.path.join(COQ_DIR, "theories"), "Valida", "-w", "none", path], 300, cwd=d)
    if rc != 0:
        return {t: None for t in theorems}, out[-1500:]
    chunks = out.split("@@")[1:]
    for ch in chunks:
        name, _, rest = ch.partition("\n")
        name = name.strip()
        if "Closed under the global context" in rest:
            res[name] = "closed"
        else:
            res[name] = [l.strip() for l in rest.splitlines() if l.strip() and not l.startswith("Axioms:")]
    for t in theorems:
        res.setdefault(t, None)
    return res, ""


# ----------------------------------------------------------------------------------------
# JSON encoding of cases for replays (type-exact)

def jval(v):
    if v is None or isinstance(v, (bool, str)):
        return v
    if type(v) is int:
        return {"int": str(v)}
    if type(v) is float:
        return {"float": v.hex()}
    if type(v) is list:
        return {"list": [jval(i) for i in v]}
    if type(v) is tuple:
        return {"tuple": [jval(i) for i in v]}
    if type(v) is dict:
        return {"dict": [[jval(k), jval(x)] for k, x in v.items()]}
    if isinstance(v, type):
        return {"type": v.__name__}
    if hasattr(v, "to_json"):
        return v.to_json()
    return {"repr": repr(v)}


def unjval(j):
    import pathlib
    if j is None or isinstance(j, (bool, str)):
        return j
    if "int" in j:
        return int(j["int"])
    if "float" in j:
        return float.fromhex(j["float"])
    if "list" in j:
        return [unjval(i) for i in j["list"]]
    if "tuple" in j:
        return tuple(unjval(i) for i in j["tuple"])
    if "dict" in j:
        return {unjval(k): unjval(x) for k, x in j["dict"]}
    if "type" in j:
        return {"int": int, "float": float, "str": str, "list": list, "dict": dict, "bool": bool,
                "NoneType": type(None), "tuple": tuple, "PosixPath": pathlib.Path, "Path": pathlib.Path}[j["type"]]
    raise ValueError(f"cannot decode {j}")


# ----------------------------------------------------------------------------------------

def load_known():
    p = os.path.join(VERIF, "known_findings.json")
    if not os.path.exists(p):
        return []
    return json.load(open(p)).get("findings", [])


def write_evidence(pid, ev):
    os.makedirs(os.path.join(VERIF, "evidence"), exist_ok=True)
    with open(os.path.join(VERIF, "evidence", f"{pid}.json"), "w") as fh:
        json.dump(ev, fh, indent=1, default=str)


def write_replay(pid, payload):
    os.makedirs(os.path.join(VERIF, "replays"), exist_ok=True)
    h = hashlib.sha1(json.dumps(payload, sort_keys=True, default=str).encode()).hexdigest()[:12]
    path = os.path.join(VERIF, "replays", f"{pid}-{h}.json")
    with open(path, "w") as fh:
        json.dump(payload, fh, indent=1, default=str)
    return os.path.relpath(path, VERIF)


def setup():
    with Lock():
        ok, msg = translate()
        log("translate:", msg)
        if not ok:
            return 1
        bad = scan_forbidden()
        if bad:
            log("forbidden constructs:", bad)
            return 1
        ok, failed, errs, out = make()
        if not ok:
            log(out[-3000:])
            return 1
        log("setup: Coq development built")
    return 0


def run_check(pid, tier, seed, replay=None):
    t0 = time.time()
    mod = importlib.import_module(f"harness.props.{pid.lower()}")
    from . import coqrun
    ev_cov = {}
    broken = []       # obligations / ties that no longer check
    with Lock():
        ok_t, tmsg = translate()
        if not ok_t:
            broken.append({"kind": "translator", "detail": tmsg[-800:]})
        for line in tmsg.splitlines():
            m = re.match(r"TRANSLATOR-REFUSED\[(Gen/\w+\.v)\]: (.*)", line)
            if m:       # an abstraction generator refused: concerns the properties that depend on that file
                broken.append({"kind": "translator", "file": m.group(1), "detail": m.group(2)[:800]})
        forb = scan_forbidden()
        if forb:
            broken.append({"kind": "forbidden-construct", "detail": forb[:5]})
        ok_m, failed, errs, out = make()
        if not ok_m:
            for f, line, msg in errs[:6]:
                broken.append({"kind": "proof-obligation", "file": f, "line": line, "detail": msg})
            if not errs:
                broken.append({"kind": "build", "detail": out[-800:]})
        # which obligations does this property depend on?
        needed = getattr(mod, "REQUIRED_VO", [f"Properties/{pid}.vo"])
        missing = [v for v in needed if not vo_exists(v) or any(f.startswith("theories/" + v[:-1]) for f, _ in failed)]
        relevant_broken = []
        dep_files = set(getattr(mod, "DEPENDS", []))
        for b in broken:
            if "file" not in b or not dep_files or b["file"].replace("theories/", "") in dep_files:
                relevant_broken.append(b)
        if missing and not relevant_broken:
            relevant_broken = broken or [{"kind": "missing-artefact", "detail": missing}]
        theorems = getattr(mod, "THEOREMS", [])
        assump, amsg = ({}, "")
        if not missing:
            assump, amsg = print_assumptions(pid, theorems)
            for t, a in assump.items():
                if a is None:
                    relevant_broken.append({"kind": "missing-theorem", "theorem": t, "detail": amsg[-400:]})
                elif a != "closed":
                    extra = [x for x in a if not any(x.startswith(al) for al in ALLOWED_AXIOMS)]
                    if extra:
                        relevant_broken.append({"kind": "axioms", "theorem": t, "detail": extra})
        model_ok = vo_exists("Inst.vo") and not any(f == "theories/Inst.v" or "/Gen/" in f for f, _ in failed) and ok_t
        spec_ok = all(vo_exists(v) for v in getattr(mod, "SPEC_VO", ["DocSem.vo"]))
        try:
            import resource
            # an implementation that loops while allocating must fail with MemoryError inside the check, not get the check killed
            lim = 24 << 30
            soft, hard = resource.getrlimit(resource.RLIMIT_AS)
            if hard == resource.RLIM_INFINITY or hard > lim:
                resource.setrlimit(resource.RLIMIT_AS, (lim, hard))
        except Exception:
            pass
        try:
            result = mod.run(tier=tier, seed=seed, model_ok=model_ok, spec_ok=spec_ok, replay=replay)
        except Exception:
            import traceback
            tb = traceback.format_exc()
            log(tb[-3000:])
            rp = write_replay(pid, {"property": pid, "kind": "check-crashed", "traceback": tb[-6000:],
                                    "note": "the check's own machinery raised while exercising the implementation: the property is "
                                            "not shown to hold; the traceback names the call that raised"})
            log(f"VIOLATION property={pid} replay={rp} no-failing-input-found")
            return 1
    # result: dict(evaluations, nontrivial, samples, k_mismatch: [case json], o_violations: [case json], rule, extra)
    known = [k for k in load_known() if k.get("property") == pid and k.get("status") == "known"]
    violations, known_hits = [], []
    for v in result.get("o_violations", []):
        hit = None
        for k in known:
            if mod.matches_known(k, v):
                hit = k
                break
        if hit:
            known_hits.append((hit, v))
        else:
            violations.append(v)
    for k in {json.dumps(h, sort_keys=True) for h, _ in known_hits}:
        kk = json.loads(k)
        log(f"KNOWN-FINDING: property={pid} {kk.get('what')}")
    k_mis = result.get("k_mismatch", [])
    if (relevant_broken or k_mis) and not violations and not replay and tier == "quick" and os.environ.get("VALIDA_NO_SEARCH") != "1":
        # a proof obligation, the translator or the correspondence broke and the quick sample shows no failing
        # input: search deeper (the thorough generator, another seed) before reporting no-failing-input-found
        log(f"{pid}: tie or proof broken, no failing input in the quick sample: searching with the thorough generator")
        try:
            deep = mod.run(tier="thorough", seed=seed + 7919, model_ok=model_ok, spec_ok=spec_ok, replay=None)
        except Exception as ex:   # the search is best effort
            log(f"{pid}: search failed: {ex!r}")
            deep = {}
        for v in deep.get("o_violations", []):
            if not any(mod.matches_known(k, v) for k in known):
                violations.append(v)
        if not k_mis:
            k_mis = deep.get("k_mismatch", [])
        result["evaluations"] = result.get("evaluations", 0) + deep.get("evaluations", 0)
        result["o_cases"] = result.get("o_cases", 0) + deep.get("o_cases", 0)
        result["k_cases"] = result.get("k_cases", 0) + deep.get("k_cases", 0)
    if k_mis:
        relevant_broken.append({"kind": "correspondence", "detail": f"{len(k_mis)} case(s) where model and implementation differ",
                                "first": k_mis[0]})
    n_obl = len(theorems) + len(getattr(mod, "FACT_LEMMAS", []))
    discharged = sum(1 for t in theorems if assump.get(t) == "closed") + (len(getattr(mod, "FACT_LEMMAS", [])) if not missing else 0)
    wall = time.time() - t0
    rc = 0
    lines = []
    if violations:
        rp = write_replay(pid, {"property": pid, "kind": "concrete-violation", "case": violations[0],
                                "others": violations[1:10], "broken": relevant_broken})
        lines.append(f"VIOLATION property={pid} replay={rp}")
        rc = 1
    elif relevant_broken:
        rp = write_replay(pid, {"property": pid, "kind": "tie-or-proof-broken", "broken": relevant_broken,
                                "note": "no concrete failing input was found by the oracle search"})
        lines.append(f"VIOLATION property={pid} replay={rp} no-failing-input-found")
        rc = 1
    ev = {
        "property_id": pid, "tier": tier, "seed": seed, "level": "proof",
        "coverage": {
            "obligations": max(n_obl, 1), "discharged": discharged,
            "checker_cmd": "make -C coq (coqc 8.16.1, full .vo build) + Print Assumptions on every theorem of Properties/%s.v" % pid,
            "trusted_base": TRUSTED_BASE + getattr(mod, "EXTRA_TRUST", []),
            "theorems": {t: assump.get(t) for t in theorems},
            "evaluations": result.get("evaluations", 0),
            "distinct_nontrivial": result.get("nontrivial", 0),
            "rule": result.get("rule", ""),
            "samples": result.get("samples", [])[:5],
            "traces_validated_against_impl": result.get("k_cases", 0),
            "oracle_cases": result.get("o_cases", 0),
            "correspondence_mismatches": len(k_mis),
            "known_findings_seen": [h.get("id") for h, _ in known_hits][:20],
            "broken_obligations": relevant_broken,
            "distribution": result.get("distribution", {}),
        },
        "assumptions": getattr(mod, "ASSUMPTIONS", []),
        "wall_s": round(wall, 2),
        "violations": len(violations) + (1 if (relevant_broken and not violations) else 0),
    }
    if discharged == 0:
        # nothing was proved in this run (broken build / obligations): do not present it as proof-level evidence
        ev["level"] = "other"
        ev["coverage"]["explanation"] = ("no proof obligation of this property could be discharged in this run "
                                         "(see broken_obligations); the figures below are the correspondence / oracle runs only")
    write_evidence(pid, ev)
    for l in lines:
        log(l)
    log(f"{pid}: tier={tier} seed={seed} obligations={n_obl} discharged={discharged} K={result.get('k_cases', 0)} "
        f"O={result.get('o_cases', 0)} k_mismatch={len(k_mis)} violations={len(violations)} known={len(known_hits)} wall={wall:.1f}s")
    return rc
