"""C02: and/or/xor combinations are pointwise Boolean algebra with null as identity; operands never altered."""
import copy
from collections import Counter

from .. import coqenc as E
from ..passes import Case, run_passes
from ..runner import jval, unjval
from ..valgen import Gen, copy_value
from ..condgen import CondGen
from ..terms import Leaf, Null, Bin, valida
from ..specgen import SpecGen, normalise_cond, d12_flag
from ..rulegen import RuleGen
from ..pathterms import PathT

PROP = "C02"
IMPORTS = "Py Lang Defs Cond Dsl Check DocSem Inst"
THEOREMS = ["C02_pointwise", "C02_null_identity_right", "C02_null_identity_left", "C02_operands_preserved",
            "C02_construct_frame", "C02_construct_refines", "C02_unguarded_refuted", "C02_pointwise_any_resolver", "C02_errors_any_resolver"]
FACT_LEMMAS = ["Tie.tie_build", "Tie.tie_call", "C02Proof.eval_item_null", "C02.source_proto_good"]
DEPENDS = ["Proofs/Tie.v", "Proofs/PyFacts.v", "Proofs/C01Proof.v", "Proofs/C02Proof.v", "Properties/C02.v", "Inst.v",
           "Cond.v", "Dsl.v", "DocSem.v", "Lang.v", "Py.v", "Defs.v", "Gen/TablesGen.v", "Gen/CallablesGen.v", "Check.v",
           "CondHeap.v", "Proofs/CondHeapProof.v", "Gen/ProtoGen.v"]
ASSUMPTIONS = [
    "Layer P models CPython's operators (pysem)",
    "object identity and mutation of condition objects are modelled by a small object heap (CondHeap.v) whose "
    "__new__/__init__ protocol is hand-written; the guard at the top of ConditionBinaryOp.__init__ is read from the source",
]


def term_json(t):
    if isinstance(t, Leaf):
        return {"leaf": {"cls": t.cls, "method": t.method, "args": [jval(a) for a in t.args],
                         "kwargs": {k: jval(a) for k, a in t.kwargs.items()}}}
    if isinstance(t, Null):
        return {"null": True}
    return {"bin": t.op, "a": term_json(t.a), "b": term_json(t.b)}


def term_from_json(j):
    if "leaf" in j:
        l = j["leaf"]
        return Leaf(l["cls"], l["method"], [unjval(a) for a in l["args"]], {k: unjval(a) for k, a in l["kwargs"].items()})
    if "null" in j:
        return Null()
    return Bin(j["bin"], term_from_json(j["a"]), term_from_json(j["b"]))


def obs(fd):
    return (list(fd.result), list(fd.data), list(fd.keys), list(fd.failure_indices))


def impl_filter(t, doc):
    return obs(t.build().filter(doc))


def snapshot(o, depth=0):
    """Structural, identity-aware snapshot of a condition object graph."""
    v = valida()
    if isinstance(o, v.conditions.ConditionBinaryOp):
        return ("bin", type(o).__name__, id(o), tuple(snapshot(c, depth + 1) for c in getattr(o, "children", ())) if depth < 50 else ())
    if isinstance(o, v.conditions.Condition):
        return ("leaf", type(o).__name__, id(o), o.callable.name, repr(o.callable.args), repr(o.callable.kwargs))
    return ("other", repr(o))


def history_case(g, cg, doc, n_ops):
    """Build a pool of live objects by successive constructions sharing operands; after every
    construction every older object must still filter as a freshly built copy does and be structurally
    untouched (model-free oracle).  Returns (violation description or None, number of steps)."""
    pool = []  # (term, obj)
    for _ in range(3):
        t = cg.tree(doc, depth=1, null_p=0.3)
        try:
            pool.append((t, t.build()))
        except Exception:
            pass
    steps = 0
    for _ in range(n_ops):
        if len(pool) < 2:
            break
        (ta, a), (tb, b) = g.r.choice(pool), g.r.choice(pool)
        op = g.r.choice(["and", "or", "xor"])
        before = [(snapshot(o), E.run_outcome(lambda o=o: obs(o.filter(copy_value(doc))))) for _, o in pool]
        try:
            r = {"and": lambda: a & b, "or": lambda: a | b, "xor": lambda: a ^ b}[op]()
        except TypeError:
            r = None
        except RecursionError:
            return {"kind": "history", "what": "RecursionError while combining", "op": op,
                    "a": term_json(ta), "b": term_json(tb), "doc": jval(doc)}, steps
        steps += 1
        # whether two operands can be combined (key-kind with index-kind is refused) depends on the operands, not on what they were used in before
        try:
            fa, fb = ta.build(), tb.build()
            {"and": lambda: fa & fb, "or": lambda: fa | fb, "xor": lambda: fa ^ fb}[op]()
            fresh_ok = True
        except TypeError:
            fresh_ok = False
        except Exception:
            fresh_ok = r is not None
        if fresh_ok != (r is not None):
            return {"kind": "history", "what": "operands that have been used in earlier combinations are " +
                    ("refused" if r is None else "accepted") + " although freshly built copies of them are " + ("accepted" if fresh_ok else "refused"),
                    "op": op, "a": term_json(ta), "b": term_json(tb), "doc": jval(doc)}, steps
        for (t, o), (snap, out) in zip(pool, before):
            after_snap = snapshot(o)
            after_out = E.run_outcome(lambda o=o: obs(o.filter(copy_value(doc))))
            fresh_out = E.run_outcome(lambda t=t: impl_filter(t, copy_value(doc)))
            if after_snap != snap or after_out != out or after_out != fresh_out:
                return {"kind": "history", "what": "an operand was altered by a later combination", "op": op,
                        "a": term_json(ta), "b": term_json(tb), "victim": term_json(t), "doc": jval(doc),
                        "before": repr(out)[:200], "after": repr(after_out)[:200]}, steps
        if r is not None:
            tr = Bin(op, ta, tb)
            # identity of the returned object
            v = valida()
            a_null, b_null = isinstance(a, v.conditions.NullCondition), isinstance(b, v.conditions.NullCondition)
            if b_null and r is not a or (a_null and not b_null and r is not b):
                return {"kind": "history", "what": "null operand did not return the other operand itself", "op": op,
                        "a": term_json(ta), "b": term_json(tb), "doc": jval(doc)}, steps
            pool.append((tr, r))
    return None, steps


def make_case(t, doc):
    outcome = E.run_outcome(lambda: impl_filter(t, copy_value(doc)))
    try:
        docc, tc, impl = E.enc_val(doc), t.coq(), E.enc_res(outcome)
    except E.Unencodable:
        return None
    model = f"(run_filter {tc} {docc})"
    oracle = f"(spec_filter_term {tc} {docc})"
    nontrivial = outcome[0] == "ok" and len(set(outcome[1][0])) > 1 and t.size() > 1
    descr = {"term": term_json(t), "doc": jval(doc), "descr": t.descr()[:300],
             "impl": outcome[0] + ":" + repr(outcome[1])[:300]}
    return Case(descr, model, oracle, impl, outcome, nontrivial, key=t.descr())


def corpus():
    a, b, c = Leaf("Value", "equal_to", [1]), Leaf("Value", "less_than", [3]), Leaf("ValueLength", "equal_to", [2])
    k, i = Leaf("Key", "equal_to", ["a"]), Leaf("Index", "equal_to", [0])
    docs = [[1, 2, "ab", [1, 2], None], {"a": 1, "b": 5, "c": "xy"}]
    out = []
    for doc in docs:
        for t in (Bin("and", Null(), Bin("and", a, b)), Bin("and", Bin("and", a, b), Null()),
                  Bin("or", Null(), Bin("or", a, b)), Bin("xor", Bin("xor", a, b), Null()),
                  Bin("and", Null(), Null()), Bin("or", a, Null()), Bin("or", Null(), a),
                  Bin("and", k, b), Bin("or", i, b), Bin("and", k, i), Bin("xor", Bin("and", k, a), i),
                  Bin("and", Bin("or", a, b), Bin("xor", c, a)), Bin("and", Null(), k), Bin("and", Null(), i)):
            out.append((t, doc))
    return out


def spec_corpus():
    """and / or / xor lists whose operands are == to each other without behaving alike (range bounds 0 / 0.0: known finding of C14),
    or are the same operand twice: every listed operand counts."""
    docs = [[0, 1, 2, 7, "a"], {"a": 1, "b": 7}]
    out = []
    for m in ("in_range", "not_in_range"):
        for lo, lo2 in ((0, 0.0), (0.0, 0), (1, True), (1, 1)):
            for op in ("and", "or", "xor"):
                for extra in ([], [Leaf("Value", "less_than", [5])]):
                    ops = [Leaf("Value", m, [lo, 5]), Leaf("Value", m, [lo2, 5])] + extra
                    t = Bin(op, ops[0], ops[1])
                    for e in ops[2:]:
                        t = Bin(op, t, e)
                    out += [(t, d) for d in docs]
    return out


def spec_route(sg, t, doc, spec_viol, counts):
    """The spec-list route: {"and": [a, b, ...]} (same-operator spines flattened) gives what the operators give."""
    tn = copy.deepcopy(t)
    normalise_cond(tn)
    sp = sg.cond_spec(tn) if tn.size() > 1 and not d12_flag(tn.leaves()) else None
    try:
        parsed = valida().conditions.ConditionLike.from_spec(copy.deepcopy(sp)) if sp is not None else None
    except Exception:
        parsed = None         # whether a spelling is accepted is C09's business
    if parsed is None:
        return
    counts["spec"] += 1
    want = E.run_outcome(lambda: impl_filter(tn, copy_value(doc)))
    got = E.run_outcome(lambda: obs(parsed.filter(copy_value(doc))))
    if got != want:
        spec_viol.append({"kind": "spec-list", "what": "a combination written as a spec list filters differently from the "
                          "same combination built with operators", "descr": tn.descr()[:300], "spec": repr(sp)[:400],
                          "doc": jval(doc), "operators": repr(want)[:200], "spec_list": repr(got)[:200]})


def source_route(g, rg, cg, doc, viol, counts):
    """With source data: a combination whose operands hold data-path arguments gives, item by item, the Boolean combination of what
    each operand gives WITH THE SAME SOURCE DATA (every operand sees the source document, wherever it sits in the tree)."""
    d2 = copy_value(doc)
    t = cg.tree(d2, depth=g.r.choice([1, 2, 2, 3]), classes=["Value", "Value", "ValueLength", "ValueDataType"], null_p=0.1)
    for _ in range(g.r.randint(1, 2)):
        t = rg.with_path_arg(t, d2)

    def has_path(x):
        return isinstance(x, PathT) or (isinstance(x, (list, tuple)) and any(isinstance(i, PathT) for i in x)) or \
            (isinstance(x, dict) and any(isinstance(i, PathT) for i in x.values()))
    if not any(has_path(a) for l in t.leaves() for a in list(l.args) + list(l.kwargs.values())):
        return

    def pointwise(term):
        if isinstance(term, Null):
            return None
        if isinstance(term, Leaf):
            return list(term.build().filter(copy_value(d2), source_data=d2).result)
        a, b = pointwise(term.a), pointwise(term.b)
        if a is None:
            return b
        if b is None:
            return a
        f = {"and": lambda x, y: x and y, "or": lambda x, y: x or y, "xor": lambda x, y: x != y}[term.op]
        return [f(x, y) for x, y in zip(a, b)]
    want = E.run_outcome(lambda: pointwise(t))
    got = E.run_outcome(lambda: list(t.build().filter(copy_value(d2), source_data=d2).result))
    if want[0] != "ok" or want[1] is None:
        return
    counts["source"] += 1
    if got != want:
        viol.append({"kind": "source-data", "what": "with source data, a combination does not give the Boolean combination of what its "
                     "operands give with the same source data", "descr": t.descr()[:300], "doc": jval(d2),
                     "combination": repr(got)[:200], "operands_combined": repr(want)[:200]})


def twin_case(g, cg):
    """A tree in which two leaves are == for the library's __eq__ but do NOT behave alike on the document (in_range with an int and
    with an equal float bound: `range(1.0, 3)` raises, so the second is false everywhere), each in every operand position, next to
    ordinary operands: a combination is pointwise in what ITS operands give, whatever equal-looking conditions were evaluated on
    the same data before."""
    r = g.r
    d = r.choice([0, 1, 2, 5, -3])
    items = [d, g.scalar(), d + 1, g.value(2, 3)]
    r.shuffle(items)
    doc = items if r.random() < 0.6 else {k: x for k, x in zip(["a", "b", 1, None], items)}
    m = r.choice(["in_range", "in_range", "not_in_range"])
    lo, hi = d - 1, d + 2
    a = Leaf("Value", m, [lo, hi], {})
    b = Leaf("Value", m, r.choice([[float(lo), hi], [lo, float(hi)], [float(lo), float(hi)]]), {})
    if r.random() < 0.5:
        a, b = b, a
    t = Bin(r.choice(["and", "or", "xor"]), a, b)
    for _ in range(r.choice([0, 1, 2])):
        o = cg.tree(doc, depth=1, classes=["Value", "ValueLength", "ValueDataType"], null_p=0.2)
        t = Bin(r.choice(["and", "or", "xor"]), t, o) if r.random() < 0.5 else Bin(r.choice(["and", "or", "xor"]), o, t)
    return t, doc


def run(tier, seed, model_ok, spec_ok, replay=None):
    g = Gen(seed)
    cg = CondGen(g)
    hist_viol, hist_steps, hist_n = [], 0, 0
    sg = SpecGen(g)
    rg = RuleGen(cg)
    spec_viol, counts = [], Counter()
    if replay and replay["case"].get("kind") != "history":
        j = replay["case"]
        cases = [make_case(term_from_json(j["term"]), unjval(j["doc"]))]
    else:
        n = 500 if tier == "quick" else 12000
        cases = [make_case(t, d) for t, d in corpus()]
        todo = [(t, d) for t, d in spec_corpus()] + [None] * n
        for item in todo:
            if item is not None:
                spec_route(sg, item[0], item[1], spec_viol, counts)
                continue
            doc = g.document(3, 5)
            k = g.r.random()
            classes = None
            if k < 0.25:
                classes = ["Value", "ValueLength", "ValueDataType", "Key", "KeyLength", "KeyDataType"]
            elif k < 0.45:
                classes = ["Value", "ValueLength", "ValueDataType", "Index"]
            elif k < 0.9:
                classes = ["Value", "ValueLength", "ValueDataType"]
            t = cg.tree(doc, depth=g.r.choice([1, 2, 2, 3, 3, 4] if tier == "quick" else [1, 2, 3, 3, 4, 5, 6]), classes=classes, null_p=0.2)
            cases.append(make_case(t, doc))
            # the spec-list route: {"and": [a, b, ...]} (same-operator spines flattened) gives what the operators give
            spec_route(sg, t, doc, spec_viol, counts)
            if g.r.random() < 0.3:
                source_route(g, rg, cg, doc, spec_viol, counts)
            if g.r.random() < 0.08:
                tt, td = twin_case(g, cg)
                cases.append(make_case(tt, td))
                counts["twins"] += 1
                spec_route(sg, tt, td, spec_viol, counts)
        cases = [c for c in cases if c]
        nh = 150 if tier == "quick" else 4000
        for _ in range(nh):
            doc = g.document(2, 4)
            v, steps = history_case(g, cg, doc, 6 if tier == "quick" else 12)
            hist_steps += steps
            hist_n += 1
            if v:
                hist_viol.append(v)
    k_bad, o_bad, nk, no, err = run_passes("c02", IMPORTS, cases, model_ok, spec_ok)
    dist = Counter()
    for c in cases:
        dist["outcome:" + (c.outcome[1] if c.outcome[0] == "exc" else "ok")] += 1
    distinct = {c.key for c in cases if c.nontrivial}
    res = {
        "evaluations": len(cases) + hist_steps, "k_cases": nk, "o_cases": no + hist_steps + counts["spec"] + counts["source"],
        "nontrivial": len(distinct),
        "rule": "random and/or/xor trees (depth <= 4 quick / 6 thorough, null operands with p=0.2 in every position, "
                "value-kind mixed with key- or index-kind) x documents, plus construction histories over a pool of "
                "shared live objects (every older object re-filtered and structurally snapshotted after each step); "
                "non-trivial = a tree with >= 1 operator whose result vector is not constant, distinct by term",
        "samples": [c.descr for c in cases[-3:]],
        "k_mismatch": [cases[i].descr for i in k_bad],
        "o_violations": [cases[i].descr for i in o_bad] + hist_viol + spec_viol,
        "distribution": dict(dist, histories=hist_n, history_steps=hist_steps, spec_lists=counts["spec"], with_source_data=counts["source"], equal_but_different_twins=counts["twins"]),
    }
    if err:
        res["k_mismatch"] = res["k_mismatch"] or [{"coq-eval-error": err}]
    return res


def matches_known(known, case):
    return False
