"""C10: path, part, rule and YAML specs build the same objects as the Python API."""
import copy
import io
from collections import Counter

from .. import coqenc as E
from ..passes import Case, run_passes
from ..runner import jval
from ..valgen import Gen, copy_value, share_equal
from ..condgen import CondGen
from ..pathgen import PathGen
from ..rulegen import RuleGen
from ..specgen import SpecGen, normalise_cond, normalise_path
from ..describe import describe_part, describe_path, describe_rule, describe_cond, Inert0
from ..pathterms import PathT, Prim
from ..terms import valida
from ..ruleterms import RuleT, Tags
from .c09 import IMPORTS

PROP = "C10"
THEOREMS = ["C10_suffixes_commute", "C10_suffix_alone", "C10_shorthand_is_long_form", "C10_part_long_forms", "C10_part_spec_lists",
            "C10_path_strings", "C10_path_string_tokens", "C10_rule_spec_fields", "C10_rule_spec_builds_api_rule",
            "C10_doc_one_normal_form", "C10_doc_normalisation_idempotent", "C10_cast_block_shapes", "C10_rule_spec_with_nested_path_arguments"]
FACT_LEMMAS = ["C10Proof / C09Proof table facts (closed computations on the generated tables)"]
DEPENDS = ['Py.v', 'Lang.v', 'Defs.v', 'Cond.v', 'Dsl.v', 'Check.v', 'DocSem.v', 'Inst.v', 'Gen/TablesGen.v', 'Gen/CallablesGen.v', 'Gen/SpecGen.v', 'Path.v', 'Cast.v', 'Str.v', 'SpecDefs.v', 'RuleDefs.v', 'Rule.v', 'Spec.v', 'SpecIO.v', 'Eq.v', 'FromStr.v', 'RunSpec.v', 'SpecSpell.v', 'RuleTerms.v', 'Proofs/Tie.v', 'Proofs/PyFacts.v', 'Proofs/C02Proof.v', 'Proofs/RuleProof.v', 'Proofs/C09Proof.v', 'Proofs/C10Proof.v', 'Proofs/C11Proof.v', 'Proofs/C13Proof.v', 'Proofs/C14Proof.v', 'Proofs/C10RuleProof.v', 'NestedArgs.v', 'NestedIO.v', 'NestedRuleIO.v', 'NestedSpell.v', 'RunNestedRule.v', 'Proofs/C11NestedProof.v', 'Proofs/C13NestedProof.v', 'Proofs/C09NestedProof.v', 'Proofs/C10NestedProof.v', 'Properties/C10.v']
ASSUMPTIONS = ["Layer P models CPython's operators (pysem)", "float(str) in DataPath.from_str is an oracle (CPython's own outcome per token)",
               "YAML text -> Python structure is ruamel.yaml's and is outside the model (exercised by correspondence only)"]

TOKENS = ["a", "0", "1", "-1", "2.5", "1e3", "abc", "", "1_0", " 3", "+2", "inf", "nan", "0x1", "é", "1.0", "007", "b c",
          "0.0", "-0.0", "0e0", ".0", "0.", "-0", "00"]       # zero-valued floats (falsy numbers), zeros that are ints


def enc(outcome):
    return E.enc_res(outcome, Inert0())


def limit_parts(pt):
    """== on combinations is commutative only at the top: keep at most two components per part."""
    for part in pt.parts:
        kw = getattr(part, "kw", None)
        if kw and sum(1 for a in kw.values() if a is not None) > 2:
            kw["condition"] = None
            if "list_condition" in kw:
                kw["list_condition"] = kw["map_condition"] = None
    return pt


def types_under_dtype(term):
    """Under a data-type class every argument is read as a type name (known finding D12, exercised by C09): keep C10's terms
    inside what both the API and the spec language can say."""
    from ..specgen import nested_leaves
    for l in nested_leaves(term):
        if "DataType" in l.cls:
            fix = lambda a: a if isinstance(a, (type, PathT)) else ([x if isinstance(x, type) else str for x in a] if isinstance(a, list) else str)
            l.args = [fix(a) for a in l.args]
            l.kwargs = {k: fix(a) for k, a in l.kwargs.items()}
    return term


def float_table(tokens):
    out = []
    for t in tokens:
        try:
            int(t)
            continue
        except ValueError:
            pass
        try:
            f = float(t)
            if f != f or f in (float("inf"), float("-inf")):
                return None
            out.append(f"({E.enc_str(t)}, Some {E.enc_val(f)})")
        except ValueError:
            out.append(f"({E.enc_str(t)}, None)")
    return "[" + "; ".join(out) + "]"


def run(tier, seed, model_ok, spec_ok, replay=None):
    g = Gen(seed)
    cg = CondGen(g)
    pg = PathGen(cg)
    rg = RuleGen(cg)
    sg = SpecGen(g)
    v = valida()
    n = 500 if tier == "quick" else 15000
    cases, direct = [], []
    kinds = Counter()

    def add(kind, model, fn, descr):
        out = E.run_outcome(fn)
        try:
            impl = enc(out)
        except E.Unencodable:
            return None
        kinds[kind] += 1
        d = dict(descr, kind=kind, impl=out[0] + ":" + repr(out[1])[:300], coq=model[:5000])
        cases.append(Case(d, model, None, impl, out, out[0] == "ok", key=(kind, repr(descr)[:200])))
        return out

    for i in range(n):
        doc = g.document(3, 4)
        raw = pg.path(doc, max_len=3, mods_p=0.4)
        three = [copy.deepcopy(p) for p in raw.parts if sum(1 for a in (getattr(p, "kw", None) or {}).values() if a is not None) > 2]
        pt = normalise_path(limit_parts(raw))
        if g.r.random() < 0.12 and any(not isinstance(p, Prim) for p in pt.parts):
            # the same part twice (in a spec: possibly the very same mapping object, as a YAML alias gives)
            pt.parts.append(copy.deepcopy(g.r.choice([p for p in pt.parts if not isinstance(p, Prim)])))
        aliased = g.r.random() < 0.5

        def fresh(x):
            """The spec as the implementation receives it: a private copy, half of the time with equal sub-specs being one object."""
            return share_equal(copy.deepcopy(x)) if aliased else copy.deepcopy(x)
        for part in pt.parts:
            for ca in (getattr(part, "kw", None) or {}).values():
                if ca is not None and not ca.is_lit:
                    types_under_dtype(ca.cond)
        # ---- parts with three or more components (known finding D43: equal behaviour, but == is not associative)
        for part in three[:1]:
            part = normalise_path(PathT([part])).parts[0]
            ps = sg.part_spec(part)
            if ps is None:
                continue
            try:
                api = part.build()
                parsed = v.datapath.ContainerValue.from_spec(copy.deepcopy(ps))
            except Exception:
                continue
            kinds["part3"] += 1
            a = E.run_outcome(lambda: v.DataPath(parsed).get_data(copy_value(doc), return_paths=True))
            b = E.run_outcome(lambda: v.DataPath(api).get_data(copy_value(doc), return_paths=True))
            if a != b:
                direct.append({"kind": "direct", "what": "three-component part: parsed and API-built parts select differently",
                               "spec": jval(ps), "doc": jval(doc)})
            elif not (parsed == api):
                direct.append({"kind": "direct", "what": "part spec does not build an object equal to the API-built part",
                               "spec": jval(ps), "api": part.descr()[:300], "flags": ["three-component-part"]})
        # ---- part specs
        for part in pt.parts:
            if isinstance(part, Prim):
                continue
            ps = sg.part_spec(part)
            if ps is None:
                continue
            out = add("part", f"(run_part_from_spec {E.enc_val(ps)})",
                      lambda ps=ps: describe_part(v.datapath.ContainerValue.from_spec(fresh(ps))), {"spec": jval(ps)})
            if out and out[0] == "ok":
                try:
                    api = part.build()
                    parsed = v.datapath.ContainerValue.from_spec(fresh(ps))
                    if not (parsed == api):
                        direct.append({"kind": "direct", "what": "part spec does not build an object equal to the API-built part",
                                       "spec": jval(ps), "api": part.descr()[:300]})
                except Exception:
                    pass
        # ---- part specs with SEVERAL dotted shorthands of one datum type, keys in any order (and-combined in key order)
        for part in [p_ for p_ in pt.parts if not isinstance(p_, Prim)][:1]:
            base = sg.part_spec(part)
            if not isinstance(base, dict) or g.r.random() > 0.35:
                continue
            kinds_ = {"MapValue": ["value", "key"], "ListValue": ["value", "index"], "MapOrListValue": ["value", "key", "index"]}[part.PY]
            extra = {}
            for _ in range(g.r.randint(2, 3)):
                dk = g.r.choice(kinds_)
                clsn = {"value": ["Value", "ValueLength", "ValueDataType"], "key": ["Key", "KeyLength"], "index": ["Index"]}[dk]
                lf = cg.leaf(doc, cls=g.r.choice(clsn), wrong_arity=0.0)
                normalise_cond(lf)
                types_under_dtype(lf)
                sp_ = sg.leaf_spec(lf)
                if sp_:
                    (kk_, vv_), = sp_.items()
                    head, _, tail = kk_.partition(".")
                    extra[head.lower() + "." + tail] = vv_
            items_ = list(base.items()) + [(k_, v_) for k_, v_ in extra.items() if k_ not in base]
            g.r.shuffle(items_)
            ps2 = dict(items_)
            out2 = add("part", f"(run_part_from_spec {E.enc_val(ps2)})",
                       lambda ps2=ps2: describe_part(v.datapath.ContainerValue.from_spec(fresh(ps2))), {"spec": jval(ps2), "several_shorthands": True})
            # a mapping has no key order that matters for ACCEPTANCE: the same entries grouped by datum type are accepted iff these are
            grouped = dict(sorted(ps2.items(), key=lambda kv: (kv[0].split(".")[0], kv[0])))
            o3 = E.run_outcome(lambda: describe_part(v.datapath.ContainerValue.from_spec(copy.deepcopy(grouped))))
            if out2 is not None and (out2[0] == "ok") != (o3[0] == "ok"):
                direct.append({"kind": "direct", "what": "whether a part spec is accepted depends on the order of its keys", "spec": jval(ps2),
                               "as_given": repr(out2)[:150], "grouped": repr(o3)[:150]})
        # ---- path specs with suffixes
        spec = sg.path_spec(pt)
        if spec is not None:
            out = add("path", f"(run_path_from_spec {E.enc_val(spec)})",
                      lambda spec=spec: ("path", describe_path(v.DataPath.from_spec(fresh(spec)))), {"spec": jval(spec)})
            if out and out[0] == "ok":
                try:
                    api = pt.build()
                    parsed = v.DataPath.from_spec(fresh(spec))
                    if not (parsed == api):
                        direct.append({"kind": "direct", "what": "path spec does not build a path equal to the API-built one",
                                       "spec": jval(spec), "api": pt.descr()[:300]})
                    else:
                        a = E.run_outcome(lambda: parsed.get_data(copy_value(doc), return_paths=True))
                        b = E.run_outcome(lambda: api.get_data(copy_value(doc), return_paths=True))
                        if a != b:
                            direct.append({"kind": "direct", "what": "parsed and API-built paths select differently",
                                           "spec": jval(spec), "doc": jval(doc)})
                except Exception:
                    pass
            if out and out[0] == "exc" and out[1] == "MalformedDataPathSpec":
                try:
                    pt.build()
                    direct.append({"kind": "direct", "what": "an accepted spelling of the spec of an API-buildable path is rejected as malformed",
                                   "spec": jval(spec), "api": pt.descr()[:300]})
                except Exception:
                    pass
            parts = list(spec.values())[0]
            add("part_specs", f"(run_from_part_specs {E.enc_val(parts)[6:-1] if False else '[' + '; '.join(E.enc_val(x) for x in parts) + ']'})",
                lambda parts=parts: describe_path(v.DataPath.from_part_specs(*fresh(parts))), {"spec": jval(parts)})
        # ---- path strings
        if i % 3 == 0:
            toks = [g.r.choice(TOKENS) for _ in range(g.r.randint(0, 3))]
            delim = g.r.choice(["/", "/", ".", "|"])
            s = delim.join(toks)
            ft = float_table(s.split(delim) if s else [])
            if ft is not None and all(delim not in t for t in toks):
                add("from_str", f'(run_from_str {ft} {E.enc_str(s)} "{delim}"%char)',
                    lambda s=s, delim=delim: describe_path(v.DataPath.from_str(s, delimiter=delim)), {"str": s, "delim": delim})
        # ---- rule specs
        if i % 2 == 0:
            rt = rg.rule(doc, cast_p=0.4)
            normalise_path(limit_parts(rt.path))
            normalise_cond(rt.cond)
            types_under_dtype(rt.cond)
            for part in rt.path.parts:
                for ca in (getattr(part, "kw", None) or {}).values():
                    if ca is not None and not ca.is_lit:
                        types_under_dtype(ca.cond)
            cs = sg.cond_spec(rt.cond)
            psx = [sg.part_spec(p) for p in rt.path.parts]
            if cs is not None and all(x is not None or isinstance(p, Prim) for x, p in zip(psx, rt.path.parts)):
                rs = {"path": psx, "condition": cs}
                if rt.cast:
                    rs["cast"] = {"str": rt.cast[0]}
                k = g.r.random()
                if k < 0.2:
                    rs["doc"] = " a paragraph\n"
                elif k < 0.4:
                    rs["doc"] = ["one ", " two"]
                elif k < 0.6:
                    rs["doc"] = {"description": "d `x` ", "examples": [" e1 "]}
                elif k < 0.7:
                    rs["doc"] = {"examples": ["e"]}

                def impl_rule(rs=rs):
                    r = v.Rule.from_spec(fresh(rs))
                    return (describe_rule(r), r.cast is not None, r.doc)
                out = add("rule", f"(run_rule_from_spec {E.enc_val(rs)})", impl_rule, {"spec": jval(rs)})
                if out and out[0] == "ok":
                    try:
                        api = rt.build()
                        parsed = v.Rule.from_spec(fresh(rs))
                        if not (parsed == api):
                            direct.append({"kind": "direct", "what": "rule spec does not build a rule equal to the API-built one",
                                           "spec": jval(rs), "api": rt.descr()[:300]})
                        # YAML route
                        from ruamel.yaml import YAML
                        y = YAML(typ="safe")
                        buf = io.StringIO()
                        try:
                            y.dump(fresh({"rules": [rs]}), buf)
                            dumped = True
                        except Exception:
                            dumped = False
                        if dumped:
                            s1 = v.Schema.from_yaml(buf.getvalue())
                            s2 = v.Schema([parsed])
                            a = E.run_outcome(lambda: (s1.validate(copy_value(doc)).is_valid, s1.validate(copy_value(doc)).num_failures))
                            b = E.run_outcome(lambda: (s2.validate(copy_value(doc)).is_valid, s2.validate(copy_value(doc)).num_failures))
                            if not (s1.rules == s2.rules) or a != b:
                                direct.append({"kind": "direct", "what": "YAML route differs from the structure route", "spec": jval(rs)})
                            kinds["yaml"] += 1
                    except Exception:
                        pass
    k_bad, o_bad, nk, no, err = run_passes("c10", IMPORTS, cases, model_ok, spec_ok)
    # rule specs whose condition has NESTED data-path arguments: Rule.from_spec(spec) == the API-built rule (NestedRuleIO / RunNestedRule)
    from ..nestedgen import nested_tree, NESTED_IMPORTS
    from .c17 import enc_narg
    CASTS_N = {"bool": "(TStr, CastStrBool)", "int": "(TStr, CastStrInt)"}
    ncases = []
    for _ in range(120 if tier == "quick" else 3000):
        doc = g.document(3, 4)
        base = rg.rule(doc, cast_p=0.4)
        normalise_path(limit_parts(base.path))
        for part in base.path.parts:           # as in the main pass: arguments under a data-type class are types (D12 is C09's)
            for ca in (getattr(part, "kw", None) or {}).values():
                if ca is not None and not ca.is_lit:
                    types_under_dtype(ca.cond)
        cond = nested_tree(g, pg, doc, classes=("Value",))
        psx = [sg.part_spec(p) for p in base.path.parts]
        cs = sg.cond_spec(cond)
        if cs is None or any(x is None and hasattr(p, "kw") for x, p in zip(psx, base.path.parts)):
            continue
        rt = RuleT(base.path, cond, base.cast)
        rs = {"path": psx, "condition": cs}
        if rt.cast:
            rs["cast"] = {"str": rt.cast[0]}
        elif g.r.random() < 0.15:
            rs["cast"] = {}
            rt.empty_cast = True
        if g.r.random() < 0.3:
            rs["doc"] = g.r.choice([" text ", {"description": "d", "examples": ["e"]}, ["a", "b"]])
        if g.r.random() < 0.3:
            rs = dict(reversed(list(rs.items())))        # the order of the entries means nothing
        try:
            api = rt.build()
        except Exception:
            continue
        o = E.run_outcome(lambda: bool(v.Rule.from_spec(copy.deepcopy(rs)) == api))
        if o == ("ok", False):
            direct.append({"kind": "direct", "what": "Rule.from_spec(spec) is not equal to the API-built rule (nested path arguments)",
                           "spec": jval(rs), "api": rt.descr()[:300]})
        try:
            casts = "[" + "; ".join(CASTS_N[c] for c in rt.cast[:1]) + "]"
            rc = f"{{| rtn_path := {rt.path.coq()}; rtn_cond := {rt.cond.coq(enc_narg(Tags()))}; rtn_cast := {casts} |}}"
            model = f"(run_rule_n_spec {E.enc_val(rs)} {rc} {E.enc_bool(rt.cast_given())})"
            if len(model) < 9000:
                ncases.append(Case({"kind": "nested-rule-spec", "spec": jval(rs), "api": rt.descr()[:300], "impl": repr(o)[:100], "coq": model[:9000]},
                                   model, None, E.enc_res(o), o, o == ("ok", True), key=("nested-rule-spec", repr(rs)[:300])))
        except (E.Unencodable, Exception):
            pass
    nk_bad, _, nnk, _, nerr = run_passes("c10n", NESTED_IMPORTS, ncases, model_ok, False)
    k_bad = k_bad + [len(cases) + i for i in nk_bad]
    cases = cases + ncases
    nk += nnk
    err = err or nerr
    res = {"evaluations": len(cases) + kinds["yaml"], "k_cases": nk, "o_cases": len(cases) + kinds["yaml"],
           "nontrivial": len({c.key for c in cases if c.nontrivial}),
           "rule": "part specs (long forms, dotted shorthands, labels), path specs with datum / multiplicity suffixes and aliases "
                   "in random case, part-spec lists, delimiter-separated path strings (int / float / plain tokens), rule specs "
                   "(path, condition, cast, four doc shapes); each parsed object described structurally and compared with the "
                   "model's parse, and compared (==, selection / validation) with the API-built object and with the YAML route; "
                   "non-trivial = parsed OK; distinct by (kind, spec)",
           "samples": [{k: v for k, v in c.descr.items() if k != "coq"} for c in cases[:3]],
           "k_mismatch": [cases[i].descr for i in k_bad], "o_violations": direct, "distribution": dict(kinds)}
    if err:
        res["k_mismatch"] = res["k_mismatch"] or [{"coq-eval-error": err}]
    return res


def matches_known(known, case):
    f = known.get("match", {}).get("flag")
    return bool(f) and f in case.get("flags", [])
