"""C05: a rule is valid iff every node its path selects satisfies its condition."""
from collections import Counter

from .. import coqenc as E
from ..passes import Case, run_passes
from ..runner import jval
from ..valgen import Gen, copy_value
from ..condgen import CondGen
from ..rulegen import RuleGen
from ..ruleterms import RuleT, obs_rule_test, Tags
from ..pathterms import PathT, Prim, ListT, MapT, MolT, lit, cnd
from ..terms import Leaf, Bin

PROP = "C05"
IMPORTS = "Py Lang Defs Cond Dsl Check DocSem PathSpec Path Cast RuleDefs RuleSpec Rule Inst Run RunRule"
THEOREMS = ['C05_verdict', 'C05_failures_exact', 'C05_reason', 'C05_paths_true', 'C05_rule_report']
FACT_LEMMAS = ['Tie.tie_build', 'Tie.tie_call', 'C01Proof.caught_call_ok']
DEPENDS = ['Py.v', 'Lang.v', 'Defs.v', 'Cond.v', 'Dsl.v', 'Check.v', 'DocSem.v', 'Inst.v', 'Gen/TablesGen.v', 'Gen/CallablesGen.v', 'Proofs/Tie.v', 'Proofs/PyFacts.v', 'Proofs/C01Proof.v', 'Proofs/C02Proof.v', 'Path.v', 'PathSpec.v', 'Run.v', 'Proofs/C03Proof.v', 'Proofs/C04Proof.v', 'Cast.v', 'RuleDefs.v', 'RuleSpec.v', 'RuleTerms.v', 'Rule.v', 'RunRule.v', 'Proofs/RuleProof.v', 'Proofs/SchemaSpecProof.v', 'Report.v', 'RunReport.v', 'Proofs/ReportProof.v', 'Properties/C05.v']
ASSUMPTIONS = ["Layer P models CPython's operators (pysem)"]


def impl_rule_test(rt, doc):
    t = rt.build().test(doc)
    data = t.data.get_original()
    return (obs_rule_test(t), data)


def default_oracle(rc, docc):
    return f"(spec_rule_term {rc} {docc})"


def make_case(rt, doc, oracle_fn=default_oracle):
    outcome = E.run_outcome(lambda: impl_rule_test(rt, copy_value(doc)))
    tags = E.ObjTags()
    try:
        docc = E.enc_val(doc)
        impl = E.enc_res(outcome, tags)
        rc = rt.coq(Tags())
    except E.Unencodable:
        return None
    model = f"(run_rule_test {rc} {docc})"
    try:
        rt.build()
        buildable = True
    except Exception:
        buildable = False     # not a rule (e.g. wrong number of arguments): the specification speaks of rules only;
                              # the construction error itself is still compared with the model (K)
    oracle = oracle_fn(rc, docc) if oracle_fn and buildable else None
    nontrivial = outcome[0] == "ok" and outcome[1][0][1] and not outcome[1][0][0]
    descr = {"rule": rt.descr()[:500], "doc": jval(doc), "impl": outcome[0] + ":" + repr(outcome[1])[:400], "coq": model[:4000]}
    return Case(descr, model, oracle, impl, outcome, nontrivial, key=(rt.descr(), repr(doc)[:60]))


CORPUS = [
    (RuleT(PathT([Prim("sizes"), ListT()]), Leaf("Value", "has_factor", [-2]), []), {"sizes": [8, "%c", 6]}),     # "%c" % -2: OverflowError
    (RuleT(PathT([Prim("n")]), Leaf("Value", "factor_of", ["%c"]), []), {"n": -7}),
    (RuleT(PathT([Prim("sizes"), ListT()]), Leaf("Value", "has_factor", [0]), []), {"sizes": [8, 0, "%z"]}),
    # several xor operators with every leaf satisfied: the node fails, and the failure still carries a reason
    (RuleT(PathT([Prim("items"), ListT()]),
           Bin("and", Bin("xor", Leaf("Value", "greater_than", [0]), Leaf("Value", "less_than", [100])),
               Bin("xor", Bin("xor", Leaf("Value", "has_factor", [2]), Leaf("Value", "has_factor", [3])), Leaf("Value", "truthy", []))), []),
     {"items": [6, 12, 5]}),
    (RuleT(PathT([Prim("items"), ListT()]),
           Bin("xor", Bin("xor", Bin("xor", Leaf("Value", "truthy", []), Leaf("Value", "greater_than", [0])), Leaf("Value", "less_than", [100])),
               Leaf("Value", "is_instance", [int])), []),
     {"items": [6, 0, "a"]}),
    # ONE map-or-list part with key, index and value conditions meeting a mapping and a list (in both orders)
    (RuleT(PathT([MapT(), MolT(key=lit("a"), index=lit(1), value=cnd(Leaf("Value", "greater_than", [0])))]), Leaf("Value", "less_than", [3]), []),
     {"p": {"a": 1, "b": 5}, "q": [1, 5, 7]}),
    (RuleT(PathT([ListT(), MolT(key=cnd(Leaf("Key", "in_", [["a", "b"]])), index=cnd(Leaf("Index", "less_than", [2])),
                                 value=cnd(Leaf("Value", "truthy", [])))]), Leaf("Value", "equal_to", [5]), []),
     [[0, 5, 5], {"a": 5, "b": 0, "c": 5}, [5]]),
]


def gen(seed, n, cast_p=0.0, path_args_p=0.0, oracle_fn=default_oracle):
    g = Gen(seed)
    rg = RuleGen(CondGen(g))
    cases = []
    if cast_p == 0.0 and path_args_p == 0.0:
        # regression corpus: a node on which the callable raises an error class other than the usual ones is a FAILURE of the rule
        for rt0, doc0 in CORPUS:
            c = make_case(rt0, copy_value(doc0), oracle_fn)
            if c:
                cases.append(c)
    for _ in range(n):
        doc = g.document(4, 4)
        if cast_p == 0.0 and g.r.random() < 0.2:
            doc = g.share(doc)      # the same container object at several positions (no casts: nothing is written)
        rt = rg.rule(doc, cast_p=cast_p, path_args_p=path_args_p)
        c = make_case(rt, doc, oracle_fn)
        if c:
            cases.append(c)
    return cases


def summarise(cases, k_bad, o_bad, nk, no, err, rule):
    dist = Counter()
    for c in cases:
        if c.outcome[0] == "exc":
            dist["outcome:" + c.outcome[1]] += 1
        else:
            v, tested, nf, _ = c.outcome[1][0]
            dist["valid" if v else "invalid"] += 1
            dist["tested" if tested else "untested"] += 1
            dist["failures>1"] += 1 if nf > 1 else 0
    res = {"evaluations": len(cases), "k_cases": nk, "o_cases": no,
           "nontrivial": len({c.key for c in cases if c.nontrivial}), "rule": rule,
           "samples": [{k: v for k, v in c.descr.items() if k != "coq"} for c in cases[:3]],
           "k_mismatch": [cases[i].descr for i in k_bad], "o_violations": [cases[i].descr for i in o_bad],
           "distribution": dict(dist)}
    if err:
        res["k_mismatch"] = res["k_mismatch"] or [{"coq-eval-error": err}]
    return res


def report_cases(seed, n):
    """Correspondence for RuleTest.get_failures_string(): the model (Report.v) assembles it from is_valid / tested and, per
    failure, repr(path), repr(value) and the reason lines the implementation gives."""
    g = Gen(seed + 77)
    rg = RuleGen(CondGen(g))
    out = []
    for _ in range(n):
        doc = g.document(3, 4)
        rt = rg.rule(doc)
        try:
            t = rt.build().test(copy_value(doc))
            rep = t.get_failures_string()
            fs = "[" + "; ".join("(" + E.enc_str(repr(f.path)) + ", " + E.enc_str(repr(f.value)) + ", [" +
                                 "; ".join(E.enc_str(x) for x in f.reasons) + "])" for f in t.failures) + "]"
            model = f"(run_rule_report ({E.enc_bool(bool(t.is_valid))}, {E.enc_bool(bool(t.tested))}, {fs}))"
            if len(model) > 6000:
                continue
            o = ("ok", rep)
            out.append(Case({"kind": "rule-report", "rule": rt.descr()[:300], "doc": jval(doc), "impl": repr(rep)[:300], "coq": model[:6000]},
                            model, None, E.enc_res(o), o, not t.is_valid, key=("rule-report", model[:300])))
        except Exception:
            continue
    return out


def run(tier, seed, model_ok, spec_ok, replay=None):
    cases = gen(seed, 600 if tier == "quick" else 15000)
    k_bad, o_bad, nk, no, err = run_passes("c05", IMPORTS, cases, model_ok, spec_ok)
    res = summarise(cases, k_bad, o_bad, nk, no, err,
                    "rules = (document-guided path of 0-3 parts, value-kind condition tree of depth <= 2 with arguments "
                    "drawn from the selected nodes) x documents; non-trivial = tested and invalid (some selected node fails); plus the "
                    "text of RuleTest.get_failures_string() against the model's assembly (Report.v) on further rules")
    rcases = report_cases(seed, 150 if tier == "quick" else 3000)
    rk_bad, _, rnk, _, rerr = run_passes("c05r", "Py Check Report RunReport", rcases, model_ok, False)
    res["k_cases"] += rnk
    res["evaluations"] += len(rcases)
    res["k_mismatch"] += [rcases[i].descr for i in rk_bad]
    res["distribution"]["rule-reports"] = len(rcases)
    res["distribution"]["rule-reports-with-failures"] = sum(1 for c in rcases if c.nontrivial)
    if rerr and not res["k_mismatch"]:
        res["k_mismatch"] = [{"coq-eval-error": rerr}]
    return res


def matches_known(known, case):
    return False
