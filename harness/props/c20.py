"""C20: documentation tree is structurally faithful; its HTML well-formed and escaped."""
import copy
from collections import Counter
from html.parser import HTMLParser

from .. import coqenc as E
from ..passes import Case, run_passes
from ..runner import jval
from ..valgen import Gen
from ..terms import valida, Leaf, Bin
from ..ruleterms import Tags, enc_arg1

PROP = "C20"
IMPORTS = "Py Lang Defs Cond Dsl Check Path Cast RuleDefs Rule Html RunHtml Tree Inst TreeCond"
THEOREMS = ["C20_html_balanced", "C20_escape_clean", "C20_html_escaped", "C20_code_clean", "C20_tree_each_rule_once", "C20_tree_parents",
            "C20_tree_flat_nested_same_nodes", "C20_tree_required", "C20_tree_total", "C20_tree_subtree",
            "C20_always_applicable_iff_all_and", "C20_key_facts", "C20_key_facts_order_independent", "C20_tree_required_from_conditions"]
FACT_LEMMAS = []
DEPENDS = ["Html.v", "RunHtml.v", "Tree.v", "TreeCond.v", "Proofs/C20Proof.v", "Proofs/TreeProof.v", "Proofs/TreeCondProof.v", "Properties/C20.v", "Py.v", "Check.v",
           "Lang.v", "Defs.v", "Cond.v", "Dsl.v", "Path.v", "Cast.v", "RuleDefs.v", "Rule.v", "Descr.v", "Inst.v", "Gen/TablesGen.v", "Gen/CallablesGen.v"]
ASSUMPTIONS = ["str() / repr() of parts, conditions and types is supplied by the implementation (oracle); the tree assembly "
               "(to_tree) is checked by the model-free oracle only, the HTML writer is modelled and proved",
               "anchor_root is caller-supplied id text inserted as it is; anchors are drawn from [A-Za-z0-9_-]+"]

META = ["<b>bold</b>", "a & b", 'say "hi"', "it's", "`code`", "x `a<b` y", "plain", "tick ` alone", "`a`\n`b`", "<script>alert(1)</script>",
        "a`b`c`d", "``", "é → ü", "1 < 2 > 0", "write &lt;tag&gt; as &amp;lt;tag&amp;gt; &nbsp; &#60; &mdash; R&D; &copy",
        # long texts whose code span straddles any plausible cut-off
        "set it like this: `{'alpha': 1, 'beta': [1, 2, 3], 'gamma': {'x': 'y & z', 'w': '<b>'}, 'delta': None, 'epsilon': 2.5}` and go on",
        "x " * 45 + "`code with blanks in it` " + "y " * 10]
KEYS = ["a", "b", "k<1>", "x&y", 'q"t', "name", 0, 1, "é",
        # long sibling keys that differ only in the middle (any abbreviation of the text of a part would merge them)
        "temperature_at_inlet_of_reactor_kelvin", "temperature_at_outlet_of_reactor_kelvin"]


class Balance(HTMLParser):
    VOID = {"br", "hr", "img", "input", "meta", "link"}

    def __init__(self):
        super().__init__(convert_charrefs=False)
        self.stack, self.ok, self.text = [], True, []

    def handle_starttag(self, tag, attrs):
        if tag not in self.VOID:
            self.stack.append(tag)

    def handle_endtag(self, tag):
        if not self.stack or self.stack.pop() != tag:
            self.ok = False

    def handle_data(self, data):
        self.text.append(data)


def gen_schema(g):
    """A prefix-closed schema: a rule for every node of a random shape tree."""
    v = valida()
    Value = v.Value
    MapValue, ListValue = v.datapath.MapValue, v.datapath.ListValue
    rules, info = [], []
    maxd = g.r.choice([2, 3, 3, 3, 8])

    def doc():
        k = g.r.random()
        if k < 0.35:
            return None
        if k < 0.55:
            return g.r.choice(META)
        if k < 0.75:
            return [g.r.choice(META) for _ in range(g.r.randint(1, 2))]
        return {"description": [g.r.choice(META) for _ in range(g.r.randint(0, 2))], "examples": [g.r.choice(META) for _ in range(g.r.randint(0, 2))]}

    def norm_doc(d):
        if not d:
            return d
        if isinstance(d, str):
            d = [d]
        if isinstance(d, list):
            d = {"description": d, "examples": []}
        d.setdefault("description", [])
        d.setdefault("examples", [])
        return {"description": [x.strip() for x in d["description"]], "examples": [x.strip() for x in d["examples"]]}

    def node(path, depth):
        # one schema in five is a deep, narrow one (heading levels beyond <h6>)
        kind = g.r.choice(["map", "map", "anymap", "list", "leaf", "leaf"] if depth < 3 else ["map", "anymap", "list"]) if depth < maxd else "leaf"
        conds, req, allowed = [], [], []
        keys = []
        if kind == "map":
            keys = g.r.sample(KEYS, g.r.randint(1, 3) if depth < 3 else 1)
            if depth < 3 and g.r.random() < 0.15:
                # an integer key next to the string key of the same digits: two different children of the mapping
                k0 = g.r.choice([0, 1, 12])
                keys += [k for k in (k0, str(k0)) if k not in keys]
            conds.append(Leaf("ValueDataType", "equal_to", [dict]))
            if g.r.random() < 0.7:
                allowed = keys + ([g.r.choice(KEYS)] if g.r.random() < 0.3 else [])
                conds.append(Leaf("Value", "allowed_keys", list(allowed)))
            if g.r.random() < 0.7:
                req = g.r.sample(keys, g.r.randint(1, len(keys)))
                conds.append(Leaf("Value", "required_keys", list(req)))
            if g.r.random() < 0.3:
                conds.append(Leaf("Value", "keys_is_instance", [str]))
        elif kind == "anymap":
            conds.append(Leaf("ValueDataType", "equal_to", [dict]))
        elif kind == "list":
            conds.append(Leaf("ValueDataType", "equal_to", [list]))
            if g.r.random() < 0.5:
                conds.append(Leaf("ValueLength", "equal_to", [g.r.randint(1, 3)]) if g.r.random() < 0.5 else Leaf("ValueLength", "in_", [[1, 2]]))
        else:
            conds.append(g.r.choice([Leaf("ValueDataType", "equal_to", [str]), Leaf("Value", "is_instance", [int, float]),
                                     Leaf("Value", "in_", [["x<y", "a&b", 1]]), Leaf("ValueDataType", "in_", [[int, str]]),
                                     Leaf("ValueDataType", "equal_to", [int])]))
        g.r.shuffle(conds)
        ct = conds[0]
        for x in conds[1:]:
            # and-combinations in either association: (a & b) & c, a & (b & c)
            ct = Bin("and", ct, x) if g.r.random() < 0.7 else Bin("and", x, ct)
        k = g.r.random()
        if k < 0.1 and len(conds) > 1:
            ct = Bin(g.r.choice(["or", "xor"]), conds[0], conds[1])      # not always-applicable: its key conditions must be ignored
            req_eff, allowed_eff = [], []
        elif k < 0.16 and len(conds) > 2:
            # one `or` deep inside an and-tree makes the WHOLE condition not always-applicable
            ct = Bin("and", Bin("or", conds[0], conds[1]), conds[2])
            for x in conds[3:]:
                ct = Bin("and", ct, x)
            req_eff, allowed_eff = [], []
        else:
            req_eff, allowed_eff = req, allowed
        c = ct.build()
        d = doc()
        rules.append((v.Rule(path=list(path), condition=c, doc=norm_doc(d) if d else d), ct))
        info.append((tuple(path), req_eff, allowed_eff))
        if kind == "map":
            for k in keys:
                if g.r.random() < 0.8:
                    node(path + [k], depth + 1)
        elif kind == "anymap":
            node(path + [MapValue()], depth + 1)
        elif kind == "list":
            node(path + [ListValue()], depth + 1)
    node([], 0)
    g.r.shuffle(rules)
    sch = v.Schema([r for r, _ in rules])
    sch.cond_terms = {id(r): t for r, t in rules}     # the term each rule's condition was built from (kept on the harness side)
    return sch, info


# ---- the tree assembly (Tree.v): facts about each rule from the library's own helpers, assembly by the model ----
def rule_facts(rule, n_from, tags):
    v = valida()
    parts = rule.path.parts
    path_str = [str(i) for i in parts]
    simple = list(rule.path.simplify())
    keys = []
    for kc in rule.condition.get_always_applicable_key_conditions():
        for key in kc.callable.args:
            try:
                kstr = "(Some " + E.enc_str(str(v.DataPath(key).parts[0])) + ")"
            except TypeError:
                kstr = "None"
            keys.append(f"({E.enc_val(key, tags)}, {kstr}, {E.enc_bool(kc.callable.name == 'required_keys')})")
    tc = rule.condition.get_always_applicable_type_like_conditions()
    fmt = v.schema.format_map_key_value_data_type_conditions

    def typ(lst):
        if not lst:
            return "None"
        return f"(Some ({E.enc_val(lst, tags)}, {E.enc_val(fmt(lst), tags)}))"
    imp = rule.path.resolve_implicit_types()
    lookup = {v.datapath.Container.MAP: "dict", v.datapath.Container.LIST: "list"}
    if not imp:
        rimp = "None"
    elif imp[-1] in lookup:
        rimp = f"(Some (Some {E.enc_str(lookup[imp[-1]])}))"
    else:
        rimp = "(Some None)"
    last_list = bool(parts) and parts[-1] == v.datapath.ListValue()
    last_map = bool(parts) and parts[-1] == v.datapath.MapValue()
    return ("{| rf_path_str := [" + "; ".join(E.enc_str(x) for x in path_str) + "]; rf_path_simple := ["
            + "; ".join(E.enc_val(x, tags) for x in simple) + f"]; rf_cond := {E.enc_val(rule.condition, tags)}; "
            f"rf_doc := {E.enc_val(rule.doc, tags)}; rf_keys := [" + "; ".join(keys) + f"]; rf_key_type := {typ(tc['key_data_type'])}; "
            f"rf_type := {typ(tc['value_data_type'])}; rf_imp := {rimp}; rf_last_list := {E.enc_bool(last_list)}; "
            f"rf_last_map := {E.enc_bool(last_map)} |}}")


def canon_tree(x):
    """Tree items with their fields in sorted order (dict order carries no meaning here)."""
    if isinstance(x, list):
        return [canon_tree(i) for i in x]
    if isinstance(x, dict) and all(isinstance(k, str) for k in x) and ("path_str" in x or "parent" in x):
        return {k: (canon_tree(x[k]) if k == "children" else x[k]) for k in sorted(x)}
    return x


def tree_case(schema, nested, from_path, descr):
    v = valida()
    tags = E.ObjTags()
    out = E.run_outcome(lambda: canon_tree(schema.to_tree(nested=nested, from_path=from_path)))
    try:
        facts = "[" + "; ".join(rule_facts(r, 0, tags) for r in schema.rules) + "]"
        fp = list(from_path or [])
        from_str = "[" + "; ".join(E.enc_str(str(i)) for i in fp) + "]"
        from_simple = "[" + "; ".join(E.enc_val(i, tags) for i in (v.DataPath(*fp).simplify() if fp else ())) + "]"
        impl = E.enc_res(out, tags)
    except (E.Unencodable, Exception):
        return None
    model = f"(run_tree {from_str} {from_simple} {E.enc_bool(nested)} {facts})"
    d = dict(descr, kind="tree", nested=nested, from_path=repr(from_path)[:100], impl=out[0] + ":" + repr(out[1])[:200], coq=model[:20000])
    return Case(d, model, None, impl, out, out[0] == "ok" and len(out[1]) > 1, key=("tree", model[:500], nested))


def enc_node(n):
    v = valida()
    MapValue, ListValue = v.datapath.MapValue, v.datapath.ListValue
    elems = []
    for i in n["path"]:
        if i == MapValue():
            elems.append("PEMap")
        elif i == ListValue():
            elems.append("PEList")
        else:
            elems.append(f"(PEStr {E.enc_str(str(i))})")

    def s(x):
        return E.enc_str(str(x)) if x else '""'
    doc = n.get("doc")
    docc = "None"
    if doc:
        docc = ("(Some ([" + "; ".join(E.enc_str(x) for x in doc["description"]) + "], ["
                + "; ".join(E.enc_str(x) for x in doc["examples"]) + "]))")
    ch = "None"
    if "children" in n:
        ch = "(Some [" + "; ".join(enc_node(c) for c in n["children"]) + "])"
    return (f"(TNode [{'; '.join(elems)}] {E.enc_str(str(n['path']))} {E.enc_bool(bool(n.get('type_info_in_parent')))} "
            f"{s(n.get('type_fmt'))} {s(n.get('key_type_fmt'))} {s(n.get('map_value_type_fmt'))} {s(n.get('list_value_type_fmt'))} "
            f"{E.enc_str(str(n.get('condition')))} {E.enc_bool(bool(n.get('required')))} {docc} {ch})")


def flatten(nested):
    out = []
    for n in nested:
        out.append(n)
        out.extend(flatten(n.get("children", [])))
    return out


def tree_checks(schema, info, flat, nested, viol, d):
    # each rule exactly once, with its condition and doc
    by_str = {}
    for n in flat:
        by_str.setdefault(n["path_str"], []).append(n)
    for r in schema.rules:
        ps = tuple(str(i) for i in r.path.parts)
        hits = [n for n in by_str.get(ps, []) if "condition" in n]
        if len(hits) != 1 or hits[0]["condition"] is not r.condition or hits[0].get("doc") is not r.doc:
            viol.append(dict(d, what=f"rule at {ps} does not appear exactly once with its condition and doc"))
    # parents precede and are the path prefix
    for idx, n in enumerate(flat):
        p = n["parent"]
        if p == -1:
            if len(n["path_str"]) > 1:
                viol.append(dict(d, what=f"node {n['path_str']} has no parent"))
            continue
        if not (0 <= p < idx) or flat[p]["path_str"] != n["path_str"][:-1]:
            viol.append(dict(d, what=f"parent of {n['path_str']} does not precede it / is not its path prefix"))
    # nested and flat forms contain the same nodes
    a = sorted(repr(n["path_str"]) for n in flat)
    b = sorted(repr(n["path_str"]) for n in flatten(nested))
    if a != b:
        viol.append(dict(d, what="flat and nested trees contain different nodes"))
    # required flags
    want = {}

    def tk(x):
        return (type(x).__name__, str(x))      # the key 1 and the key "1" are different children
    for path, req, allowed in info:
        for k in allowed:
            want.setdefault(tuple(tk(x) for x in path) + (tk(k),), False)
        for k in req:
            want[tuple(tk(x) for x in path) + (tk(k),)] = True
    for n in flat:
        key = n["path"]
        strs = tuple(tk(x) for x in key)
        if strs in want and bool(n.get("required")) != want[strs]:
            viol.append(dict(d, what=f"required flag of {strs} is {n.get('required')!r}, expected {want[strs]}"))


def always_case(rule, term, d):
    """TreeCond.v: which key / type conditions of a rule's condition always apply (flatten, get_always_applicable_*), computed by the
    model from the condition TERM and compared with what the library computes on the condition object."""
    def D(c):
        return (type(c).__name__, c.callable.name, list(c.callable.args), [(k, x) for k, x in c.callable.kwargs.items()])

    def impl():
        cnd = rule.condition
        tl = cnd.get_always_applicable_type_like_conditions()
        return ([(key, kc.callable.name == "required_keys") for kc in cnd.get_always_applicable_key_conditions() for key in kc.callable.args],
                [D(i) for i in tl["key_data_type"]], [D(i) for i in tl["value_data_type"]])
    out = E.run_outcome(impl)
    try:
        model = f"(run_always {term.coq(enc_arg1(Tags()))})"
        return Case(dict(d, kind="always-applicable", cond=term.descr()[:300], impl=out[0] + ":" + repr(out[1])[:300], coq=model[:4000]),
                    model, None, E.enc_res(out), out, out[0] == "ok" and bool(out[1][0]), key=("always", term.descr()))
    except E.Unencodable:
        return None


def run(tier, seed, model_ok, spec_ok, replay=None):
    g = Gen(seed)
    v = valida()
    n = 120 if tier == "quick" else 3000
    cases, viol = [], []
    dist = Counter()
    for i in range(n):
        schema, info = gen_schema(g)
        d = {"kind": "direct", "rules": [repr(r)[:160] for r in schema.rules][:8]}
        try:
            flat = schema.to_tree(nested=False)
            nested = schema.to_tree(nested=True)
        except Exception as e:
            viol.append(dict(d, what=f"to_tree raised {type(e).__name__}: {e}"[:300]))
            continue
        dist["trees"] += 1
        for rule in schema.rules:
            term = schema.cond_terms.get(id(rule))
            ac = always_case(rule, term, d) if term is not None else None
            if ac:
                cases.append(ac)
                dist["always-applicable"] += 1
        tree_checks(schema, info, flat, nested, viol, d)
        for nst in (False, True):
            tc = tree_case(schema, nst, None, d)
            if tc:
                cases.append(tc)
                dist["tree-model"] += 1
        docs_before = [copy.deepcopy(r.doc) for r in schema.rules]
        for anchor in (None, g.r.choice(["root", "sec-1", "A_b"])):
            start = g.r.choice([1, 2, 3, 5])
            show = g.r.random() < 0.7
            out = E.run_outcome(lambda: v.schema.write_tree_html(nested, anchor_root=anchor, heading_start_level=start, show_root_heading=show))
            dist["html:" + ("ok" if out[0] == "ok" else out[1])] += 1
            if out[0] != "ok":
                viol.append(dict(d, what=f"write_tree_html raised {out[1]}"))
                continue
            html_s = out[1]
            # rendering reads the tree: the schema's own doc text is what it was, and rendering again gives the same page
            if [r.doc for r in schema.rules] != docs_before:
                viol.append(dict(d, what="write_tree_html changed the doc text held by the schema's rules"))
                break
            again = E.run_outcome(lambda: v.schema.write_tree_html(nested, anchor_root=anchor, heading_start_level=start, show_root_heading=show))
            if again != out:
                viol.append(dict(d, what="rendering the same tree a second time gives a different page", first=html_s[:200], second=repr(again[1])[:200]))
                break
            b = Balance()
            b.feed(html_s)
            if not b.ok or b.stack:
                viol.append(dict(d, what="HTML is not well-formed (tags not closed in order)", html=html_s[:300]))
            for m in META + [str(k) for k in KEYS]:
                if (any(ch in m for ch in "<>\"") or ("&" in m and ";" in m)) and m in html_s:
                    viol.append(dict(d, what=f"schema text {m!r} appears unescaped in the HTML"))
            try:
                anc = "None" if anchor is None else f"(Some {E.enc_str(anchor)})"
                nodes = "[" + "; ".join(enc_node(x) for x in nested) + "]"
                model = f"(run_html {anc} {start}%nat {E.enc_bool(show)} {nodes})"
                cases.append(Case({"rules": d["rules"], "anchor": anchor, "impl": html_s[:200], "impl_full": html_s, "coq": model[:20000]}, model, None,
                                  E.enc_res(out), out, len(html_s) > 200, key=(html_s[:400], anchor)))
            except E.Unencodable:
                pass
        # a sub-tree root
        if schema.rules and g.r.random() < 0.5:
            r = g.r.choice(schema.rules)
            if len(r.path.parts) >= 1:
                tc = tree_case(schema, g.r.random() < 0.5, list(r.path.simplify()), d)
                if tc:
                    cases.append(tc)
                    dist["tree-model-subtree"] += 1
                try:
                    sub = schema.to_tree(nested=True, from_path=list(r.path.simplify()))
                    v.schema.write_tree_html(sub)
                    dist["subtree"] += 1
                except Exception as e:
                    viol.append(dict(d, what=f"to_tree(from_path=...) raised {type(e).__name__}: {e}"[:300], root=repr(r.path)[:200]))
    k_bad, o_bad, nk, no, err = run_passes("c20", IMPORTS, cases, model_ok, spec_ok)
    total = sum(dist.values())
    res = {"evaluations": total, "k_cases": nk, "o_cases": total,
           "nontrivial": len({c.key for c in cases if c.nontrivial}),
           "rule": "prefix-closed schemas generated from random shape trees (string keys incl. HTML metacharacters, integer keys, bare "
                   "map / list parts; type, length, membership, allowed / required-keys conditions and-combined in random order, 10% "
                   "or-combined; doc blocks with metacharacters and back-ticks; rules shuffled); to_tree flat / nested / from a "
                   "sub-tree root checked structurally; write_tree_html with and without anchor compared byte-for-byte with the "
                   "model and scanned by an independent tag-balance parser and a sentinel check; non-trivial = HTML > 200 chars",
           "samples": [{k: v for k, v in c.descr.items() if k not in ("coq", "impl_full")} for c in cases[:2]],
           "k_mismatch": [cases[i].descr for i in k_bad], "o_violations": viol, "distribution": dict(dist)}
    if err:
        res["k_mismatch"] = res["k_mismatch"] or [{"coq-eval-error": err}]
    return res


def matches_known(known, case):
    return False
