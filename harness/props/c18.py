"""C18: add_schema adds re-rooted rules and leaves the added schema intact."""
import copy
from collections import Counter

from .. import coqenc as E
from ..passes import Case, run_passes
from ..runner import jval
from ..valgen import Gen, copy_value
from ..condgen import CondGen
from ..pathgen import PathGen
from ..rulegen import RuleGen
from ..describe import describe_rule, Inert0
from ..ruleterms import RuleT, Tags
from ..pathterms import PathT
from ..terms import valida
from . import schema_common as sc

from .c15 import cast_doc, cross_cast

from ..pathterms import Prim

PROP = "C18"
IMPORTS = sc.IMPORTS
THEOREMS = ["C18_frame", "C18_history", "C18_rules", "C18_concat", "C18_judgement", "C18_rebinding_refuted"]
FACT_LEMMAS = ["C18.source_add_schema_copies"]
DEPENDS = ["SchemaHeap.v", "Gen/ProtoGen.v", "Proofs/C18Proof.v", "Proofs/C04Proof.v", "Properties/C18.v", "PathSpec.v", "RuleSpec.v", "DocSem.v", "Py.v", "Rule.v", "RunRule.v", "Path.v", "Cond.v", "Inst.v", "Gen/TablesGen.v", "Gen/CallablesGen.v", "CondHeap.v"]
ASSUMPTIONS = ["Layer P models CPython's operators (pysem)"]


def snap_schema(s):
    return [(id(r), id(r.path), describe_rule(r)) for r in s.rules]


def run(tier, seed, model_ok, spec_ok, replay=None):
    g = Gen(seed)
    cg = CondGen(g)
    pg = PathGen(cg)
    rg = RuleGen(cg)
    v = valida()
    n = 150 if tier == "quick" else 5000
    cases, viol = [], []
    dist = Counter()
    for i in range(n):
        doc = cast_doc(g, 3) if i % 2 else g.document(4, 4)
        s_terms = rg.schema(doc, g.r.randint(0, 3), cast_p=g.r.choice([0.0, 0.0, 0.3]))
        roots = [pg.path(doc, max_len=2, mods_p=0.0) for _ in range(g.r.choice([1, 1, 2, 3]))]
        # T is written for what lies at the (first) root: its rules select something there, and its casts find strings to cast
        at_root = [x for x in rg.selected(roots[0], doc) if isinstance(x, (list, dict)) and x]
        sub = g.r.choice(at_root) if at_root and g.r.random() < 0.8 else doc
        t_terms = rg.schema(sub, g.r.randint(1, 3), cast_p=0.4)
        if g.r.random() < 0.2:
            t_terms = cross_cast(g, rg, sub) or t_terms       # a later rule of T looks at a node an earlier rule of T casts
        mode = g.r.random()
        try:
            Tm = v.Schema([r.build() for r in t_terms])
            if mode < 0.2:
                # both targets built from ONE list object the caller keeps: a schema owns its list of rules, so an addition to one
                # target is not an addition to the other (nor to the caller's list)
                base = [r.build() for r in s_terms]
                S, S2 = v.Schema(base), v.Schema(base)
                dist["targets built from one list"] += 1
            elif mode < 0.35:
                # the target starts from the rules of T itself (the very list T holds): T still does not grow
                s_terms = list(t_terms)
                S, S2 = v.Schema(Tm.rules), v.Schema(list(Tm.rules))
                dist["target built from T.rules"] += 1
            else:
                S = v.Schema([r.build() for r in s_terms])
                S2 = v.Schema([r.build() for r in s_terms])
            roots_b = [r.build() for r in roots]
            for k_, r_ in enumerate(roots):
                # a root of one string key may also be given as the bare string (it is joined with `/`, never split into characters)
                if len(r_.parts) == 1 and isinstance(r_.parts[0], Prim) and isinstance(r_.parts[0].v, str) and not r_.mods and g.r.random() < 0.4:
                    roots_b[k_] = r_.parts[0].v
        except Exception:
            continue
        t_before = snap_schema(Tm)
        t_val_before = E.run_outcome(lambda: sc.impl_validate_schema(Tm, doc))
        ref_terms = list(s_terms)
        ok = True
        for k, (rt, rb) in enumerate(zip(roots, roots_b)):
            target = S if k % 2 == 0 else S2      # the same T into different schemas, under different roots
            out = E.run_outcome(lambda: target.add_schema(Tm, rb), limit=5.0)
            if out[0] == "exc":
                viol.append({"kind": "direct", "what": f"add_schema raised {out[1]}", "S": [r.descr()[:150] for r in s_terms],
                             "T": [r.descr()[:150] for r in t_terms], "root": rt.descr()[:200], "step": k})
                ok = False
                break
            dist["additions"] += 1
            if snap_schema(Tm) != t_before:
                viol.append({"kind": "direct", "what": "add_schema changed the added schema (rule objects / paths / definitions)",
                             "T": [r.descr()[:200] for r in t_terms], "root": rt.descr()[:200], "step": k})
                ok = False
                break
            if E.run_outcome(lambda: sc.impl_validate_schema(Tm, doc)) != t_val_before:
                viol.append({"kind": "direct", "what": "the added schema validates differently after add_schema",
                             "T": [r.descr()[:200] for r in t_terms], "root": rt.descr()[:200]})
                ok = False
                break
        if not ok:
            continue
        # reference: S0's rules plus each rule of T re-rooted, built independently through the API
        for which, target in ((0, S), (1, S2)):
            my_roots = [rt for k, rt in enumerate(roots) if k % 2 == which]
            ref_terms = list(s_terms) + [RuleT(PathT(list(rt.parts) + list(r.path.parts)), r.cond, r.cast) for rt in my_roots for r in t_terms]
            # the API-built concatenation is concrete when all parts are primitives; the re-rooted path never is.
            # compare verdict-level observables that do not depend on that.
            a = E.run_outcome(lambda: sc.impl_validate_schema(target, doc))
            try:
                ref = v.Schema([r.build() for r in ref_terms])
            except Exception:
                continue
            b = E.run_outcome(lambda: sc.impl_validate_schema(ref, doc))
            dist["compared"] += 1
            if a != b:
                viol.append({"kind": "direct", "what": "S after add_schema does not judge like S0 + re-rooted T",
                             "S": [r.descr()[:150] for r in s_terms], "T": [r.descr()[:150] for r in t_terms],
                             "roots": [r.descr()[:100] for r in my_roots], "doc": jval(doc), "got": repr(a)[:300], "want": repr(b)[:300]})
            # model
            try:
                adds = "[" + "; ".join(f"({sc.schema_coq(t_terms)}, {rt.coq()})" for rt in my_roots) + "]"
                model = f"(run_add_validate {sc.schema_coq(s_terms)} {adds} {E.enc_val(doc)})"
                cases.append(Case({"S": [r.descr()[:150] for r in s_terms], "T": [r.descr()[:150] for r in t_terms],
                                   "roots": [r.descr()[:100] for r in my_roots], "doc": jval(doc), "impl": repr(a)[:300], "coq": model[:8000]},
                                  model, None, E.enc_res(a, E.ObjTags()), a, a[0] == "ok" and a[1][1] > 0, key=(model[:300],)))
            except E.Unencodable:
                pass
    k_bad, o_bad, nk, no, err = run_passes("c18", IMPORTS, cases, model_ok, spec_ok)
    total = dist["additions"] + dist["compared"]
    res = {"evaluations": total + len(cases), "k_cases": nk, "o_cases": total,
           "nontrivial": len({c.key for c in cases if c.nontrivial}),
           "rule": "schemas S (0-3 rules) and T (1-3 rules, 20% with casts), 1-3 document-guided root paths; T added alternately "
                   "into two copies of S under the different roots; after every addition T's rule objects, paths and verdicts must "
                   "be unchanged; each resulting S is compared with an independently built S0 + re-rooted T and with the model; "
                   "non-trivial = the combined schema reports failures",
           "samples": [{k: v for k, v in c.descr.items() if k != "coq"} for c in cases[:2]],
           "k_mismatch": [cases[i].descr for i in k_bad], "o_violations": viol, "distribution": dict(dist)}
    if err:
        res["k_mismatch"] = res["k_mismatch"] or [{"coq-eval-error": err}]
    return res


def matches_known(known, case):
    return False
