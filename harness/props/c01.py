"""C01: a single leaf condition filters every item to its documented meaning, never aborting."""
from collections import Counter

from .. import coqenc as E
from ..passes import Case, run_passes
from ..runner import jval, unjval
from ..valgen import Gen, copy_value
from ..condgen import CondGen
from ..terms import COND_CLASSES, Leaf

PROP = "C01"
IMPORTS = "Py Lang Defs Cond Dsl Check DocSem Inst"
THEOREMS = ["C01_result", "C01_keyword_call", "C01_never_aborts", "C01_callable_meaning"]
FACT_LEMMAS = ["Tie.tie_build", "Tie.tie_build_kw", "Tie.tie_call", "C01Proof.caught_pre_ok", "C01Proof.caught_call_ok",
               "PyFacts.q_sem_err"]
DEPENDS = ["Proofs/Tie.v", "Proofs/PyFacts.v", "Proofs/C01Proof.v", "Properties/C01.v", "Inst.v", "Cond.v", "Dsl.v",
           "DocSem.v", "Lang.v", "Py.v", "Defs.v", "Gen/TablesGen.v", "Gen/CallablesGen.v", "Check.v"]
ASSUMPTIONS = [
    "Layer P models CPython's operators on JSON-like values (validated by pysem on every thorough run)",
    "`str % value` is modelled by its outcome class only (StrFormat): a str or TypeError/ValueError/OverflowError/KeyError",
    "documents: finite floats only, no NaN; strings are UTF-8, lower()/strip() exact for ASCII",
]


def impl_filter(term, doc):
    c = term.build()
    fd = c.filter(doc)
    return (list(fd.result), list(fd.data), list(fd.keys), list(fd.failure_indices))


def impl_data_filter(term, doc):
    from ..terms import valida
    c = term.build()
    fd = valida().Data(doc).filter(c)
    return (list(fd.result), list(fd.data), list(fd.keys), list(fd.failure_indices))


def impl_test(term, datum):
    return term.build().test(datum)


def impl_test_all(term, doc):
    return term.build().test_all(doc)


def doc_for(g, cls):
    if cls.startswith("Key"):
        kind = "dict" if g.r.random() < 0.93 else "list"
    elif cls == "Index":
        kind = "list" if g.r.random() < 0.93 else "dict"
    else:
        kind = g.r.choice(["list", "dict"])
    return g.container(3, 5, kind)


def leaf_json(t):
    return {"cls": t.cls, "method": t.method, "args": [jval(a) for a in t.args],
            "kwargs": {k: jval(a) for k, a in t.kwargs.items()}}


def leaf_from_json(j):
    return Leaf(j["cls"], j["method"], [unjval(a) for a in j["args"]], {k: unjval(a) for k, a in j["kwargs"].items()})


def make_case(t, doc, entry="filter"):
    fn = {"filter": impl_filter, "data_filter": impl_data_filter, "test": impl_test, "test_all": impl_test_all}[entry]
    outcome = E.run_outcome(lambda: fn(t, copy_value(doc)))
    try:
        docc = E.enc_val(doc)
        tc = t.coq()
        impl = E.enc_res(outcome)
    except E.Unencodable:
        return None
    kws = "[" + "; ".join(f"({E.enc_str(k)}, {E.enc_val(a)})" for k, a in t.kwargs.items()) + "]"
    args = "[" + "; ".join(E.enc_val(a) for a in t.args) + "]"
    if entry in ("filter", "data_filter"):
        model = f"(run_filter {tc} {docc})"
        oracle = f"(spec_filter_call {E.enc_str(t.cls)} {E.enc_str(t.method)} {args} {kws} {docc})"
    elif entry == "test":
        model = f"(run_test {tc} {docc})"
        oracle = None
    else:
        model = f"(run_test_all {tc} {docc})"
        oracle = None
    nontrivial = outcome[0] == "ok" and entry in ("filter", "data_filter") and len(set(outcome[1][0])) > 1
    descr = {"entry": entry, "leaf": leaf_json(t), "doc": jval(doc), "descr": t.descr(),
             "impl": outcome[0] + ":" + (repr(outcome[1])[:300])}
    return Case(descr, model, oracle, impl, outcome, nontrivial, key=(t.cls, t.method))


def gen_cases(seed, n_per_method):
    g = Gen(seed)
    cg = CondGen(g)
    out = []
    for cls in COND_CLASSES:
        for (m, pk, va, kw) in cg.methods[cls]:
            for i in range(n_per_method):
                doc = doc_for(g, cls)
                t = cg.leaf(doc, cls=cls, method=m)
                entry = "filter"
                k = g.r.random()
                if k < 0.06:
                    entry = "data_filter"
                elif k < 0.12:
                    entry = "test_all"
                elif k < 0.18:
                    entry = "test"
                    if cls.startswith("Key"):
                        doc = {g.key(): g.value(2, 3)} if g.r.random() < 0.8 else g.container(2, 3)
                    else:
                        doc = g.value(2, 4)
                c = make_case(t, doc, entry)
                if c:
                    out.append(c)
    return out


CORPUS = [
    # minimised past failures / fixed defects (replayed first on every run)
    (Leaf("Value", "factor_of", [4]), [0, 2]),
    (Leaf("Value", "has_factor", [2]), ["%z"]),
    (Leaf("Value", "has_factor", [2]), ["100%"]),
    (Leaf("Value", "has_factor", [-3]), [9, "%c"]),            # "%c" % -3: OverflowError (an ArithmeticError that is not a ZeroDivisionError)
    (Leaf("Value", "factor_of", ["%c"]), [-1, 65, 1114112]),
    (Leaf("Key", "has_factor", [-5]), {"%c": 1, "a": 2}),
    (Leaf("Value", "has_factor", [0]), [3]),
    (Leaf("Value", "has_factor", [{}]), ["%(k)s"]),
    (Leaf("Value", "has_factor", [0.0]), [1.5, 2]),
    (Leaf("Value", "not_in_range", [1, 3]), [0, 1, 2, 3, 2.0, True, "a"]),
    (Leaf("Value", "not_in_range", [], {"lower": 1, "upper": 3}), [5]),
    (Leaf("Value", "in_range", [1, 3]), [0, 1, 2, 3, 2.0, True, "a", 2 ** 70]),
    (Leaf("Value", "equal_to", [1]), [1, 1.0, True, "1"]),
    (Leaf("ValueLength", "less_than", [2]), ["a", 3, [1, 2]]),
    (Leaf("Key", "equal_to", [1]), {1: "a", "1": "b"}),
    (Leaf("Key", "equal_to", [1]), [1, 2]),
    (Leaf("Index", "equal_to", [1]), {1: "a"}),
    (Leaf("Value", "items_contain", [], {"a": 1}), [{"a": 1}, {"a": 2}, {}, [1], "a", None]),
    (Leaf("Value", "keys_contain_any_of", []), [1, {}]),
    (Leaf("Value", "required_keys", ["a", [1]]), [{"a": 1}]),
    (Leaf("Value", "equal_to_approx", [1.0]), [1.0, 1.00000001, 1.000000001, 1, True, "a"]),
    (Leaf("Value", "less_than", [[1, "a"]]), [[2, 3], [1, 3], [1, "a"], [1]]),
]


def run(tier, seed, model_ok, spec_ok, replay=None):
    if replay:
        j = replay["case"]
        cases = [make_case(leaf_from_json(j["leaf"]), unjval(j["doc"]), j.get("entry", "filter"))]
    else:
        n = 6 if tier == "quick" else 120
        cases = [make_case(t, d) for t, d in CORPUS]
        cases = [c for c in cases if c] + gen_cases(seed, n)
    k_bad, o_bad, nk, no, err = run_passes("c01", IMPORTS, cases, model_ok, spec_ok)
    dist = Counter()
    for c in cases:
        dist["outcome:" + (c.outcome[1] if c.outcome[0] == "exc" else "ok")] += 1
        dist["entry:" + c.descr["entry"]] += 1
    distinct = {(c.key, c.descr["impl"]) for c in cases if c.nontrivial}
    res = {
        "evaluations": len(cases), "k_cases": nk, "o_cases": no,
        "nontrivial": len(distinct),
        "rule": "every condition class x every DSL constructor it exposes x n documents (arguments 60% drawn from the "
                "document); non-trivial = the filter returned a result vector that is not constant; distinct by "
                "(class, constructor, implementation outcome)",
        "samples": [c.descr for c in cases[len(CORPUS):len(CORPUS) + 3]] + [c.descr for c in cases[:2]],
        "k_mismatch": [cases[i].descr for i in k_bad],
        "o_violations": [cases[i].descr for i in o_bad],
        "distribution": dict(dist),
    }
    if err:
        res["k_mismatch"] = res["k_mismatch"] or [{"coq-eval-error": err}]
    return res


def matches_known(known, case):
    m = known.get("match", {})
    leaf = case.get("leaf", {})
    return all(leaf.get(k) == v for k, v in m.items())
