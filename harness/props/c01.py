"""C01: a single leaf condition filters every item to its documented meaning."""
from .. import coqenc as E
from ..valgen import Gen, copy_value
from ..condgen import CondGen
from ..terms import COND_CLASSES, Leaf

IMPORTS = "Py Lang Defs Cond Dsl Check Inst"


def impl_filter(term, doc):
    c = term.build()
    fd = c.filter(doc)
    return (list(fd.result), list(fd.data), list(fd.keys), list(fd.failure_indices))


def doc_for(g, cls):
    """A document whose items are adversarial to the class (every callable meets every item type)."""
    if cls.startswith("Key"):
        kind = "dict" if g.r.random() < 0.92 else "list"
    elif cls == "Index":
        kind = "list" if g.r.random() < 0.92 else "dict"
    else:
        kind = g.r.choice(["list", "dict"])
    return g.container(3, 5, kind)


def gen_cases(seed, n_per_method):
    g = Gen(seed)
    cg = CondGen(g)
    out = []
    for cls in COND_CLASSES:
        for (m, pk, va, kw) in cg.methods[cls]:
            for _ in range(n_per_method):
                doc = doc_for(g, cls)
                t = cg.leaf(doc, cls=cls, method=m)
                out.append((t, doc))
    return out


def to_case(t, doc):
    outcome = E.run_outcome(lambda: impl_filter(t, copy_value(doc)))
    model = f"(run_filter {t.coq()} {E.enc_val(doc)})"
    return model, E.enc_res(outcome), outcome
