"""C16: parsing a spec does not change the spec; re-parsing gives the same object."""
import copy
from collections import Counter

from .. import coqenc as E
from ..runner import jval
from ..passes import Case, run_passes
from ..valgen import Gen, type_exact_eq, share_equal
from ..condgen import CondGen
from ..pathgen import PathGen
from ..rulegen import RuleGen
from ..specgen import SpecGen, normalise_cond, normalise_path, path_leaves
from .c11 import pathy
from ..terms import valida
from .c10 import limit_parts

PROP = "C16"
THEOREMS = ["C16_reparse_condition", "C16_reparse_part_spec", "C16_reparse_path_spec", "C16_reparse_part_spec_list", "C16_reparse_rule_spec",
            "C16_reparse_schema_spec_list", "C16_schema_rules_order", "C16_schema_sort_idempotent", "C16_reparse_condition_nested",
            "C16_parsed_condition_well_formed", "C16_parser_inventory", "C16_parsers_accepted", "C16_analysis_sound", "C16_parsers_leave_the_spec_alone",
            "C16_rejects_in_place_parser"]
FACT_LEMMAS = ["C16_parsers_accepted is a closed computation on Gen/ParsersGen.v (abstraction of the ten parser bodies, regenerated from source)"]
DEPENDS = ["Taint.v", "Gen/ParsersGen.v", "Proofs/TaintProof.v", "Properties/C16.v", "Proofs/C16ReparseProof.v", "Proofs/C16SchemaProof.v", "SchemaSpec.v", "NestedArgs.v", "NestedIO.v", "RunNestedEq.v", "Proofs/C14NestedProof.v", "Proofs/C11NestedFullProof.v", "RunReparse.v",
           "Eq.v", "Proofs/C14Proof.v", "Proofs/C19Proof.v", "Proofs/PyFacts.v", "Proofs/C04Proof.v", "Py.v", "Lang.v", "Defs.v", "Rule.v", "RuleDefs.v", "Path.v", "Cast.v", "Str.v",
           "Cond.v", "Dsl.v", "Inst.v", "RunSpec.v", "SpecDefs.v", "Gen/TablesGen.v", "Gen/CallablesGen.v", "Gen/SpecGen.v", "Spec.v", "SpecIO.v"]
SPEC_VO = ["Taint.vo"]
ASSUMPTIONS = ["spec structures are trees (no container shared between two places of one spec)"]


def snapshot(x, ids):
    """Type-exact deep snapshot that also records the identity of every container."""
    if isinstance(x, dict):
        ids.append(id(x))
        return ("dict", [(snapshot(k, ids), snapshot(v, ids)) for k, v in x.items()])
    if isinstance(x, list):
        ids.append(id(x))
        return ("list", [snapshot(v, ids) for v in x])
    if isinstance(x, tuple):
        return ("tuple", [snapshot(v, ids) for v in x])
    if isinstance(x, float):
        return ("float", x.hex())
    if x is None or isinstance(x, (bool, int, str, type)):
        return (type(x).__name__, x)
    return ("object", id(x))


IMPORTS = "Py Lang Defs Cond Dsl Check Path Cast Str SpecDefs RuleDefs Rule Spec SpecIO Eq Inst RunSpec SchemaSpec RunReparse"
RUN = {"condition": "run_reparse_cond", "condition(json)": "run_reparse_cond", "part": "run_reparse_part", "path": "run_reparse_path",
       "part-specs": "run_reparse_part_specs", "rule": "run_reparse_rule", "schema": "run_reparse_schema"}


def kcase(kind, parse, spec, cases):
    """Correspondence for the re-parse theorems: the model parses the spec twice and compares the objects with its __eq__;
    the implementation does the same (on private copies)."""
    if cases is None or kind not in RUN or len(repr(spec)) > 3000:
        return
    if kind == "schema":
        # the == verdict of two parses, and the path lengths of the rules in the order the schema holds them
        def twice():
            a, b = parse(json_copy(spec)), parse(json_copy(spec))
            return (bool(a == b), [len(r.path) for r in a.rules])
        out = E.run_outcome(twice)
    else:
        out = E.run_outcome(lambda: bool(parse(json_copy(spec)) == parse(json_copy(spec))))
    try:
        arg = "[" + "; ".join(E.enc_val(x) for x in spec) + "]" if kind in ("part-specs", "schema") else E.enc_val(spec)
        model = f"({RUN[kind]} {arg})"
        cases.append(Case({"kind": kind, "spec": repr(spec)[:300], "impl": out[0] + ":" + repr(out[1])[:100], "coq": model[:4000]},
                          model, None, E.enc_res(out), out, out[0] == "ok", key=(kind, repr(spec)[:300])))
    except E.Unencodable:
        pass


def json_copy(x):
    """A copy sharing no container with anything (copy.deepcopy keeps aliases)."""
    if isinstance(x, list):
        return [json_copy(i) for i in x]
    if isinstance(x, tuple):
        return tuple(json_copy(i) for i in x)
    if isinstance(x, dict):
        return {k: json_copy(i) for k, i in x.items()}
    return x


def check(kind, parse, spec, violations, dist, cases=None):
    kcase(kind, parse, spec, cases)
    if sum(dist.values()) % 2:
        # every other spec has its equal sub-specs as ONE object (YAML aliases; a caller reusing a sub-spec)
        spec = share_equal(spec)
        dist["aliased"] += 0
    ids0 = []
    before = snapshot(spec, ids0)
    pristine = copy.deepcopy(spec)
    r1 = E.run_outcome(lambda: parse(spec))
    ids1 = []
    after = snapshot(spec, ids1)
    dist[kind + (":ok" if r1[0] == "ok" else ":rejected")] += 1
    if after != before or ids0 != ids1:
        violations.append({"kind": "direct", "what": f"{kind}: the caller's spec structure was changed by parsing",
                           "spec": jval(pristine) if E_ok(pristine) else repr(pristine)[:300], "after": repr(spec)[:300]})
        return
    r2 = E.run_outcome(lambda: parse(spec))
    if r1[0] != r2[0] or (r1[0] == "exc" and r1[1] != r2[1]):
        violations.append({"kind": "direct", "what": f"{kind}: second parse outcome differs ({r1[0]}:{r1[1] if r1[0]=='exc' else ''} vs "
                           f"{r2[0]}:{r2[1] if r2[0]=='exc' else ''})", "spec": repr(pristine)[:300]})
        return
    if r1[0] == "ok":
        try:
            same = r1[1] == r2[1]
        except Exception:
            same = False
        if not same:
            violations.append({"kind": "direct", "what": f"{kind}: second parse is not equal to the first", "spec": repr(pristine)[:300]})
    # ... and it is what a structurally equal spec without any shared sub-object parses to
    r0 = E.run_outcome(lambda: parse(copy.deepcopy(json_copy(pristine))))
    try:
        same0 = r0[0] == r1[0] and (r0[1] == r1[1])
    except Exception:
        same0 = False
    if not same0:
        violations.append({"kind": "direct", "what": f"{kind}: the parse depends on which sub-specs are one object", "spec": repr(pristine)[:300]})
    r3 = E.run_outcome(lambda: parse(spec))   # a third time, for good measure
    if r3[0] != r1[0]:
        violations.append({"kind": "direct", "what": f"{kind}: third parse outcome differs", "spec": repr(pristine)[:300]})


def E_ok(x):
    try:
        jval(x)
        return True
    except Exception:
        return False


def run(tier, seed, model_ok, spec_ok, replay=None):
    g = Gen(seed)
    cg = CondGen(g)
    pg = PathGen(cg)
    rg = RuleGen(cg)
    sg = SpecGen(g)
    v = valida()
    n = 400 if tier == "quick" else 12000
    viol, cases = [], []
    recent = []
    dist = Counter()
    # large specs (more distinct plain keys than a default-sized cache holds) with equal keys of different types far apart
    many = [f"k{j}" for j in range(140)]
    for a, b in ((1.0, True), (True, 1.0), (0, False), (1, 1.0)):
        check("path", v.DataPath.from_spec, {"path": [a] + many + [b]}, viol, dist, cases)
        check("part-specs", lambda sp: v.DataPath.from_part_specs(*sp), [a] + many + [b], viol, dist, cases)
    check("schema", lambda sp: v.Schema([v.Rule.from_spec(r) for r in sp["rules"]]),
          {"rules": [{"path": [k], "condition": {"value.equal_to": 1}} for k in [1.0] + many + [True]]}, viol, dist)
    for i in range(n):
        doc = g.document(3, 4)
        t = normalise_cond(cg.tree(doc, depth=g.r.choice([0, 1, 2]), null_p=0.1))
        for l in t.leaves():
            k = g.r.random()
            if l.args and k < 0.25 and "DataType" not in l.cls and "is_instance" not in l.method:
                l.args[g.r.randrange(len(l.args))] = normalise_path(limit_parts(pg.path(doc, max_len=2, mods_p=0.4)))
            elif l.args and k < 0.45 and l.method in ("equal_to", "in_", "not_in", "eq"):
                l.args[0] = copy.deepcopy(g.r.choice([{"path": 1}, {"a": {"path": [1]}}, [{"path": ["a"]}, 2], {"xpath": True},
                                                      {"path": ["a"], "b": 1}]))
        cs = sg.cond_spec(t)
        if cs is not None:
            cs2 = copy.deepcopy(cs)      # taken BEFORE the first parse: a parser that writes into its input must not spoil the next case
            check("condition", v.conditions.ConditionLike.from_spec, cs, viol, dist, cases)
            check("condition(json)", v.conditions.ConditionLike.from_json_like, cs2, viol, dist, cases)
        pt = normalise_path(limit_parts(pg.path(doc, max_len=3, mods_p=0.4)))
        for l in path_leaves(pt):
            # arguments of the conditions INSIDE parts that the parser rewrites when it reads them: escaped literal mappings, path specs
            # as items of a list argument
            if l.args and l.method in ("equal_to", "not_equal_to", "in_", "not_in", "eq") and "DataType" not in l.cls \
                    and "Length" not in l.cls and g.r.random() < 0.2:
                k = g.r.random()
                if k < 0.5:
                    lit = pathy(g, 2)
                    l.args[0] = [lit, 1] if l.method in ("in_", "not_in") else lit
                else:
                    l.args[0] = [normalise_path(limit_parts(pg.path(doc, max_len=2, mods_p=0.3))), g.scalar()]
        for part in pt.parts:
            ps = sg.part_spec(part)
            if isinstance(ps, dict):
                check("part", v.datapath.ContainerValue.from_spec, ps, viol, dist, cases)
        spec = sg.path_spec(pt)
        if spec is not None:
            parts = copy.deepcopy(list(spec.values())[0])
            check("path", v.DataPath.from_spec, spec, viol, dist, cases)
            check("part-specs", lambda s: v.DataPath.from_part_specs(*s), parts, viol, dist, cases)
        rt = rg.rule(doc, cast_p=0.5)
        normalise_cond(rt.cond)
        normalise_path(limit_parts(rt.path))
        rcs = sg.cond_spec(rt.cond)
        psx = [sg.part_spec(p) for p in rt.path.parts]
        if rcs is not None and not any(x is None and hasattr(p, "kw") for x, p in zip(psx, rt.path.parts)):
            rs = {"path": psx, "condition": rcs}
            if rt.cast:
                rs["cast"] = {"str": rt.cast[0]}
            k = g.r.random()
            if k < 0.25:
                rs["doc"] = " text\n"
            elif k < 0.5:
                rs["doc"] = {"description": " d ", "examples": [" e "]}
            elif k < 0.65:
                rs["doc"] = {"examples": ["e"]}
            elif k < 0.8:
                rs["doc"] = ["a ", " b"]
            rs2 = [copy.deepcopy(rs), copy.deepcopy(rs)]
            # a schema list of this rule, earlier rules of the run (paths of other lengths, so that the sort moves them) and a copy
            rs3 = [copy.deepcopy(x) for x in g.r.sample(recent, min(len(recent), g.r.choice([0, 1, 2, 3])))] + rs2[:g.r.choice([1, 2])]
            g.r.shuffle(rs3)
            recent.append(copy.deepcopy(rs))
            del recent[:-8]
            check("rule", v.Rule.from_spec, rs, viol, dist, cases)
            check("schema", v.Schema.from_json_like, rs2, viol, dist, cases)
            check("schema", lambda sp: v.Schema(v.Schema.init_rules(sp)), rs3, viol, dist, cases)
    k_bad, o_bad, nk, no, err = run_passes("c16", IMPORTS, cases, model_ok, spec_ok)
    # condition specs with NESTED path specs, parsed twice by the parser instance that keeps them (NestedIO.condn_from_spec)
    from ..nestedgen import nested_tree, NESTED_IMPORTS
    ncases = []
    for _ in range(150 if tier == "quick" else 4000):
        doc = g.document(3, 4)
        t = nested_tree(g, pg, doc)
        spec = sg.cond_spec(t)
        if spec is None or len(repr(spec)) > 3000:
            continue
        check("condition(nested)", v.conditions.ConditionLike.from_spec, copy.deepcopy(spec), viol, dist)
        o = E.run_outcome(lambda: bool(v.conditions.ConditionLike.from_spec(json_copy(spec)) == v.conditions.ConditionLike.from_spec(json_copy(spec))))
        try:
            model = f"(run_reparse_condn {E.enc_val(spec)})"
            ncases.append(Case({"kind": "condition(nested)", "spec": repr(spec)[:300], "impl": o[0] + ":" + repr(o[1])[:100], "coq": model[:4000]},
                               model, None, E.enc_res(o), o, o[0] == "ok", key=("nested", repr(spec)[:300])))
        except E.Unencodable:
            pass
    nk_bad, _, nnk, _, nerr = run_passes("c16n", NESTED_IMPORTS, ncases, model_ok, False)
    k_bad = k_bad + [len(cases) + i for i in nk_bad]
    cases = cases + ncases
    nk += nnk
    err = err or nerr
    total = sum(dist.values())
    res = {"evaluations": total + len(cases), "k_cases": nk, "o_cases": total, "nontrivial": sum(c for k, c in dist.items() if k.endswith(":ok")),
           "rule": "well-formed condition specs (25% with data-path arguments, 20% with literal / escaped 'path' mappings), part "
                   "specs with shorthand forms, path specs with suffixes, part-spec lists, rule specs with cast and doc blocks, "
                   "schema lists; each parsed three times with a type-exact, identity-aware snapshot of the spec before and "
                   "after (half of them with equal sub-specs made one object), compared with the parse of an alias-free copy; the "
                   "model parses each spec twice and compares the objects with its __eq__ (K); non-trivial = accepted specs",
           "samples": [{k: v for k, v in c.descr.items() if k != "coq"} for c in cases[:3]],
           "k_mismatch": [cases[i].descr for i in k_bad], "o_violations": viol, "distribution": dict(dist)}
    if err:
        res["k_mismatch"] = res["k_mismatch"] or [{"coq-eval-error": err}]
    return res


def matches_known(known, case):
    return False
