"""C15: casts replace exactly the castable selected nodes in a private copy."""
from ..passes import run_passes
from ..runner import jval
from ..valgen import Gen, copy_value, type_exact_eq
from ..condgen import CondGen
from ..rulegen import RuleGen
from . import schema_common as sc
from ..pathterms import PathT, Prim, ListT, MapT, cnd
from ..ruleterms import RuleT
from ..terms import Leaf, Null, Bin
from .c05 import make_case as rule_case

PROP = "C15"
IMPORTS = sc.IMPORTS
THEOREMS = ['C15_rule_model_is_spec', 'C15_schema_model_is_spec', 'C15_cast_applied', 'C15_uncastable_left', 'C15_everywhere_else', 'C15_schema_cast_data']
FACT_LEMMAS = ['Tie.tie_build', 'Tie.tie_call', 'C01Proof.caught_call_ok']
DEPENDS = ['Py.v', 'Lang.v', 'Defs.v', 'Cond.v', 'Dsl.v', 'Check.v', 'DocSem.v', 'Inst.v', 'Gen/TablesGen.v', 'Gen/CallablesGen.v', 'Proofs/Tie.v', 'Proofs/PyFacts.v', 'Proofs/C01Proof.v', 'Proofs/C02Proof.v', 'Path.v', 'PathSpec.v', 'Run.v', 'Proofs/C03Proof.v', 'Proofs/C04Proof.v', 'Cast.v', 'RuleDefs.v', 'RuleSpec.v', 'RuleTerms.v', 'Rule.v', 'RunRule.v', 'Proofs/RuleProof.v', 'Proofs/SchemaSpecProof.v', 'Properties/C15.v']
ASSUMPTIONS = ["Layer P models CPython's operators (pysem)", "int(str) is modelled for ASCII digits / whitespace / sign / underscores"]

CASTABLE = ["true", "FALSE", "True", "3", " 3 ", "1_0", "-7", "+2", "007"]
UNCASTABLE = ["abc", "", "2.5", "1__0", "_1", "- 3", "0x10", "tru", "1e3"]


def cast_doc(g, depth=3):
    def val(d):
        k = g.r.random()
        if d <= 0 or k < 0.45:
            kk = g.r.random()
            if kk < 0.45:
                return g.r.choice(CASTABLE)
            if kk < 0.7:
                return g.r.choice(UNCASTABLE)
            return g.scalar()
        if k < 0.72:
            return [val(d - 1) for _ in range(g.r.randint(1, 4))]
        return {g.key(): val(d - 1) for _ in range(g.r.randint(1, 4))}
    while True:
        doc = val(depth)
        if isinstance(doc, (list, dict)) and doc:
            return doc


def cross_cast(g, rg, doc):
    """A schema in which a later rule looks, through a data-path argument, at a node that an earlier rule casts: every rule of a
    schema is judged on the ONE copy that holds all casts made so far."""
    strs = []

    def walk(v, path):
        if isinstance(v, str):
            strs.append(path)
        elif isinstance(v, (list, dict)) and len(path) < 4:
            for k, x in (enumerate(v) if isinstance(v, list) else v.items()):
                if isinstance(k, (str, int, float)) and not isinstance(k, bool):
                    walk(x, path + (k,))
    walk(doc, ())
    if not strs:
        return None
    x = g.r.choice(strs)
    xp = PathT([Prim(k) for k in x])
    r1 = rg.rule(doc, cast_p=0.0)
    r1 = RuleT(PathT([Prim(k) for k in x]), r1.cond if g.r.random() < 0.5 else Null(), [g.r.choice(["int", "bool", "int"])])
    r2 = rg.rule(doc, cast_p=0.0)
    m = g.r.choice(["equal_to", "not_equal_to", "less_than", "greater_than_or_equal_to", "in_", "is_instance"])
    cls = "Value"
    if m == "in_":
        arg = [xp, g.scalar()]
    elif m == "is_instance":
        cls, m, arg = "ValueDataType", "equal_to", PathT([Prim(k) for k in x], ["dtype"])
    else:
        arg = xp
    lf = Leaf(cls, m, [arg])
    cond = lf if g.r.random() < 0.6 else Bin(g.r.choice(["and", "or"]), lf, r2.cond)
    r2 = RuleT(r2.path, cond, [g.r.choice(["int", "bool"])] if g.r.random() < 0.8 else [])
    rts = [r1, r2]
    if g.r.random() < 0.3:
        rts.insert(g.r.randint(0, 2), rg.rule(doc, cast_p=0.5))
    return rts


def cast_select(g, rg, doc):
    """A schema in which a later casting rule SELECTS through a value condition on a record that an earlier rule casts inside: what a
    rule's path selects is decided on the document as given, not on the copy that holds earlier casts."""
    if not isinstance(doc, dict):
        return None
    pairs = [("true", True, "bool"), ("false", False, "bool"), ("3", 3, "int"), ("0", 0, "int"), ("-7", -7, "int")]
    recs = []
    for _ in range(g.r.randint(2, 3)):
        s1, v1, c1 = g.r.choice(pairs)
        recs.append({"flag": s1, "n": g.r.choice(["3", "5", "x", "true"]), "other": g.scalar()})
    doc["_recs"] = recs if g.r.random() < 0.6 else {f"r{i}": r for i, r in enumerate(recs)}
    wild = ListT() if isinstance(doc["_recs"], list) else MapT()
    s1, v1, c1 = g.r.choice([p for p in pairs if any(r["flag"] == p[0] for r in recs)])
    r1 = RuleT(PathT([Prim("_recs"), wild, Prim("flag")]), Null() if g.r.random() < 0.5 else Leaf("ValueDataType", "equal_to", [type(v1)]), [c1])
    want = v1 if g.r.random() < 0.6 else s1          # the cast value (never there in the document as given) or the string (there)
    sel_cond = Leaf("Value", "items_contain", [], {"flag": want}) if g.r.random() < 0.7 else Leaf("Value", "keys_contain", ["flag"])
    part = (ListT if isinstance(doc["_recs"], list) else MapT)(value=cnd(sel_cond))
    r2 = RuleT(PathT([Prim("_recs"), part, Prim("n")]), Leaf("ValueDataType", "equal_to", [int]) if g.r.random() < 0.5 else Null(),
               [g.r.choice(["int", "bool"])])
    rts = [r1, r2]
    if g.r.random() < 0.3:
        rts.append(rg.rule(doc, cast_p=0.5))
    return rts


def run(tier, seed, model_ok, spec_ok, replay=None):
    g = Gen(seed)
    rg = RuleGen(CondGen(g))
    n = 350 if tier == "quick" else 10000
    cases, direct = [], []
    for i in range(n):
        doc = cast_doc(g, g.r.choice([2, 3, 3, 4]))
        if i % 12 == 5:
            # castable strings under keys that cannot be written as a concrete path part but are reached by fan-out (None), and under
            # bool / float keys next to their int twins: the cast is written back under exactly that key
            odd = g.r.choice([None, None, True, 2.5, 0, ""])
            inner = {odd: g.r.choice(CASTABLE), "x": g.r.choice(CASTABLE + UNCASTABLE), 1: g.r.choice(CASTABLE)}
            doc = {odd: g.r.choice(CASTABLE), "rec": inner, "lst": [dict(inner), g.r.choice(CASTABLE)]} if g.r.random() < 0.6 else [inner, {odd: "7"}]
            pth = g.r.choice([[MapT()], [Prim("rec"), MapT()], [Prim("lst"), ListT(), MapT()], [MapT(), MapT()]]) if isinstance(doc, dict) \
                else g.r.choice([[ListT(), MapT()], [Prim(0), MapT()]])
            rts = [RuleT(PathT(pth), g.r.choice([Leaf("Value", "truthy", []), Leaf("ValueDataType", "in_", [[int, bool, str]]), Null()]),
                         [g.r.choice(["int", "bool"])])]
            if g.r.random() < 0.4:
                rts.append(RuleT(PathT(pth), Leaf("Value", "is_instance", [str]), [g.r.choice(["int", "bool"])]))
            c = sc.make_case(rts, doc)
            if c:
                cases.append(c)
            continue
        if i % 3 == 0:
            rt = rg.rule(doc, cast_p=1.0)
            c = rule_case(rt, doc)
        else:
            rts = [rg.rule(doc, cast_p=0.8, path_args_p=0.15) for _ in range(g.r.choice([1, 2, 3]))]
            if g.r.random() < 0.25:
                rts = cross_cast(g, rg, doc) or rts
            elif g.r.random() < 0.15:
                rts = cast_select(g, rg, doc) or rts
            c = sc.make_case(rts, doc)
            if c and c.outcome[0] == "ok":
                before = copy_value(doc)
                # the caller's document is untouched (the copy is private)
                try:
                    sc.build_schema(rts).validate(doc)
                except Exception:
                    pass
                if not type_exact_eq(before, doc):
                    direct.append({"kind": "direct", "what": "validate with casts changed the caller's document",
                                   "schema": [r.descr()[:200] for r in rts], "doc": jval(before)})
        if c:
            cases.append(c)
    k_bad, o_bad, nk, no, err = run_passes("c15", IMPORTS, cases, model_ok, spec_ok)
    res = sc.summarise([c for c in cases], k_bad, o_bad, nk, no, err,
                       "rules / schemas of 1-3 rules declaring str->int or str->bool casts (p=0.8) over document-guided paths "
                       "(mapping keys of any type, list indices, fan-out parts, the empty path) x documents dense in castable "
                       "and uncastable strings; compared: verdicts and cast_data / Rule.test(...).data type-exactly; "
                       "non-trivial = at least one failure reported", direct, 0) if False else None
    return summarise_mixed(cases, k_bad, o_bad, nk, no, err, direct)


def summarise_mixed(cases, k_bad, o_bad, nk, no, err, direct):
    nontrivial = set()
    casted = 0
    for c in cases:
        if c.outcome[0] == "ok":
            data = c.outcome[1][-1]
            casted += 1
        if c.nontrivial:
            nontrivial.add(c.key)
    res = {"evaluations": len(cases), "k_cases": nk, "o_cases": no, "nontrivial": len(nontrivial),
           "rule": "rules / schemas of 1-3 rules declaring str->int or str->bool casts (p=0.8) over document-guided paths "
                   "(mapping keys of any type, list indices, fan-out parts, the empty path) x documents dense in castable and "
                   "uncastable strings; compared type-exactly: verdicts, cast_data and Rule.test(...).data; non-trivial = some failure",
           "samples": [{k: v for k, v in c.descr.items() if k != "coq"} for c in cases[:2]],
           "k_mismatch": [cases[i].descr for i in k_bad],
           "o_violations": [cases[i].descr for i in o_bad] + direct,
           "distribution": {"ok": casted, "exc": len(cases) - casted}}
    if err:
        res["k_mismatch"] = res["k_mismatch"] or [{"coq-eval-error": err}]
    return res


def matches_known(known, case):
    return False
