"""C13: rules and schemas survive the JSON round trip, casts included."""
import copy
import json
from collections import Counter

from .. import coqenc as E
from ..passes import Case, run_passes
from ..runner import jval
from ..valgen import Gen, copy_value, spoil
from ..condgen import CondGen
from ..rulegen import RuleGen
from ..specgen import normalise_cond, normalise_path, nested_leaves, path_leaves
from ..describe import Inert0
from ..ruleterms import Tags, obs_rule_test, RuleT
from ..terms import valida, Bin, Leaf
from ..pathterms import PathT
from .c09 import IMPORTS
from .c10 import limit_parts
from .c11 import fix_leaf, meaningful, jsonable
from .c15 import cast_doc

PROP = "C13"
THEOREMS = ["C13_rule_with_path_arguments", "C13_schema_with_path_arguments", "C13_rule", "C13_rule_behaviour", "C13_paths_of_c12_roundtrip", "C13_cast_blocks", "C13_cast_names_back", "C13_schema",
            "C13_modified_path_is_refused", "C13_rule_with_nested_path_arguments", "C13_schema_with_nested_path_arguments"]
DEPENDS = ['Py.v', 'Lang.v', 'Defs.v', 'Cond.v', 'Dsl.v', 'Check.v', 'DocSem.v', 'Inst.v', 'Gen/TablesGen.v', 'Gen/CallablesGen.v', 'Gen/SpecGen.v', 'Path.v', 'PathSpec.v', 'Cast.v', 'Str.v', 'SpecDefs.v', 'RuleDefs.v', 'Rule.v', 'Spec.v', 'SpecIO.v', 'Eq.v', 'FromStr.v', 'RunSpec.v', 'SpecSpell.v', 'RuleTerms.v', 'Proofs/Tie.v', 'Proofs/PyFacts.v', 'Proofs/C01Proof.v', 'Proofs/C02Proof.v', 'Proofs/C03Proof.v', 'Proofs/C04Proof.v', 'Proofs/RuleProof.v', 'Proofs/C09Proof.v', 'Proofs/C10Proof.v', 'Proofs/C11Proof.v', 'Proofs/C14Proof.v', 'Proofs/C12Proof.v', 'Proofs/C13Proof.v', 'Proofs/C13Glue.v', 'Proofs/SchemaSpecProof.v', 'Proofs/C11EscProof.v', 'Proofs/C11PathProof.v', 'Proofs/C13PathProof.v', 'NestedArgs.v', 'NestedIO.v', 'NestedRuleIO.v', 'Proofs/C11NestedProof.v', 'Proofs/C13NestedProof.v', 'Properties/C13.v']
FACT_LEMMAS = ["C13Proof cast-table facts (closed computations on the generated tables)"]
ASSUMPTIONS = ["Layer P models CPython's operators (pysem)", "json text is produced and parsed by the real json module"]


def in_fragment(g, rt):
    normalise_cond(rt.cond)
    normalise_path(limit_parts(rt.path))
    for l in nested_leaves(rt.cond) + path_leaves(rt.path):
        fix_leaf(g, l)
        if not meaningful(l) or not all(jsonable(a) for a in list(l.args) + list(l.kwargs.values())):
            return False
    for p in rt.path.parts:   # labels and literal keys must be JSON values
        for ca in getattr(p, "kw", {}).values():
            if ca is not None and ca.is_lit and not jsonable(ca.lit):
                return False
    try:
        rt.build()
    except Exception:
        return False
    return True


def obs_validate(s, doc):
    vd = s.validate(copy_value(doc))
    return (vd.is_valid, vd.num_failures, [obs_rule_test(t) for t in vd.rule_tests], vd.cast_data)


def corpus_schemas():
    """Regression corpus: rule paths with parts whose key / index conditions LOOK like a plain key (so that the path could be
    abbreviated to a bare primitive) but are on the key's length or type."""
    from ..pathterms import Prim, MapT, MolT, lit, cnd
    from ..terms import Leaf
    out = []
    doc = {"rec": {"a": "3", "bb": "x", "c": 1}, "lst": {"k": ["5", "6"]}}
    for part in (MolT(index=lit(1), key=cnd(Leaf("KeyLength", "equal_to", [1]))), MapT(key=cnd(Leaf("KeyLength", "equal_to", [2.0]))),
                 MapT(key=cnd(Leaf("KeyLength", "equal_to", [1]))), MapT(key=cnd(Leaf("KeyDataType", "equal_to", [str]))),
                 MolT(index=lit(0), key=cnd(Leaf("KeyLength", "equal_to", [0])))):
        for cast in ([], ["int"]):
            out.append((doc, [RuleT(PathT([Prim("rec"), part]), Leaf("ValueDataType", "equal_to", [int]), cast),
                              RuleT(PathT([Prim("lst"), Prim("k"), part]), Leaf("Value", "truthy", []), cast)]))
    return out


NESTED_IMPORTS = ("Py Lang Defs Cond Dsl Check DocSem PathSpec Path Cast RuleDefs RuleSpec Rule Inst Run RunRule RuleTerms NestedArgs "
                  "SpecDefs Spec SpecIO Eq NestedIO NestedRuleIO")
CASTS_N = {"bool": "(TStr, CastStrBool)", "int": "(TStr, CastStrInt)"}


def nested_rule_cases(g, rg, n, direct):
    """Correspondence for rules whose condition has data paths nested in a list / mapping argument (NestedRuleIO.v):
    Rule.to_json_like, purity of the JSON, Rule.from_json_like(json) == original; and, on the implementation, the same verdict."""
    from .c17 import enc_narg
    from ..pathgen import PathGen
    from ..specgen import normalise_path
    from .c10 import limit_parts
    v = valida()
    pg = rg.pg if hasattr(rg, "pg") else PathGen(rg.cg)
    out = []
    lits = [1, "s", None, 2.5, True, {"path": 1}, {"a": [1]}, [1, "x"], {"\\path": 3}, []]
    for _ in range(n):
        doc = cast_doc(g, 3) if g.r.random() < 0.5 else g.document(3, 4)

        def item():
            if g.r.random() < 0.5:
                return normalise_path(limit_parts(pg.path(doc, max_len=2, mods_p=0.4)))
            return copy.deepcopy(g.r.choice(lits))
        if g.r.random() < 0.65:
            arg = [item() for _ in range(g.r.randint(1, 3))]
        else:
            arg = {kk: item() for kk in g.r.sample(["k", "j", "a", "mypath"], g.r.randint(1, 2))}
        cond = Leaf("Value", g.r.choice(["in_", "not_in", "equal_to", "not_equal_to"]) if isinstance(arg, list) else g.r.choice(["equal_to", "not_equal_to"]), [arg])
        base = rg.rule(doc, cast_p=0.5)
        if not in_fragment(g, RuleT(base.path, Leaf("Value", "truthy", []), base.cast)):
            continue
        rt = RuleT(base.path, cond, base.cast)
        if not rt.cast and g.r.random() < 0.15:
            rt.empty_cast = True

        def impl():
            r = rt.build()
            j = r.to_json_like()
            pure = json.loads(json.dumps(j)) == j
            r2 = v.Rule.from_json_like(copy.deepcopy(j))
            return (copy.deepcopy(j), pure, bool(r2 == r)), r, r2
        o = E.run_outcome(impl)
        obs = (o[0], o[1][0]) if o[0] == "ok" else o
        try:
            tags = Tags()
            casts = "[" + "; ".join(CASTS_N[c] for c in rt.cast[:1]) + "]"
            rc = f"{{| rtn_path := {rt.path.coq()}; rtn_cond := {rt.cond.coq(enc_narg(tags))}; rtn_cast := {casts} |}}"
            model = f"(run_rule_n_roundtrip_g {rc} {E.enc_bool(rt.cast_given())})"
            if len(model) > 8000:
                continue
            out.append(Case({"kind": "nested-rule", "rule": rt.descr()[:400], "impl": obs[0] + ":" + repr(obs[1])[:300], "coq": model[:8000]},
                            model, None, E.enc_res(obs), obs, obs[0] == "ok" and obs[1][2], key=("nested-rule", rt.descr()[:300])))
        except (E.Unencodable, Exception):
            continue
        if o[0] == "ok" and o[1][0][2]:
            _, r, r2 = o[1]
            for d in (doc, cast_doc(g, 2)):
                a = E.run_outcome(lambda: (obs_rule_test(t_ := r.test(copy_value(d))), t_.data.get_original()))
                b = E.run_outcome(lambda: (obs_rule_test(t_ := r2.test(copy_value(d))), t_.data.get_original()))
                if a != b:
                    direct.append({"kind": "direct", "what": "rebuilt rule (nested path arguments) judges differently", "rule": rt.descr()[:300],
                                   "doc": jval(d), "orig": repr(a)[:200], "rebuilt": repr(b)[:200]})
                    break
    return out


def run(tier, seed, model_ok, spec_ok, replay=None):
    g = Gen(seed)
    rg = RuleGen(CondGen(g))
    v = valida()
    n = 400 if tier == "quick" else 12000
    cases, direct = [], []
    dist = Counter()
    corpus = corpus_schemas()
    for i in range(-len(corpus), n):
        doc = cast_doc(g, 3) if i % 2 else g.document(4, 4)
        rts = [rt for rt in (rg.rule(doc, cast_p=0.5, path_args_p=0.2) for _ in range(g.r.choice([1, 1, 2, 3]))) if in_fragment(g, rt)]
        if i < 0:
            doc, rts = corpus[i]
        if not rts:
            continue
        for rt in rts:
            if not rt.cast and g.r.random() < 0.15:
                rt.empty_cast = True     # cast={}: comes back as {} (not None), so the rebuilt rule is == to this one
        if g.r.random() < 0.15:
            # a schema may hold the same rule twice (or twice up to the order of the operands of its condition)
            dup = copy.deepcopy(g.r.choice(rts))
            if isinstance(dup.cond, Bin) and g.r.random() < 0.5:
                dup.cond.a, dup.cond.b = dup.cond.b, dup.cond.a
            rts.insert(g.r.randint(0, len(rts)), dup)
        if g.r.random() < 0.12:
            # a rule path with a datum / multiplicity modifier or source data cannot be written as part specs: refusal expected
            pth = rts[0].path
            k = g.r.random()
            if k < 0.5:
                pth.mods = [g.r.choice(["length", "dtype", "map_keys", "map_values"])]
            elif k < 0.85 and any(p.explicit for p in pth.parts):
                pth.mods = [g.r.choice(["first", "last", "all"])]
            else:
                pth.has_src, pth.src = True, {"a": 1}
            try:
                rts[0].build()
            except Exception:
                pth.mods, pth.has_src, pth.src = [], False, None
        modded = any(rt.path.mods or rt.path.has_src for rt in rts)
        for rt in rts[:1]:
            out = E.run_outcome(lambda: rt.build().to_json_like())
            try:
                model = f"(run_rule_to_json {rt.coq(Tags())} {E.enc_bool(rt.cast_given())})"
                cases.append(Case({"rule": rt.descr()[:400], "impl": out[0] + ":" + repr(out[1])[:300], "coq": model[:5000]},
                                  model, None, E.enc_res(out, Inert0()), out, out[0] == "ok", key=rt.descr()))
            except E.Unencodable:
                pass
        s = v.Schema([rt.build() for rt in rts])

        used = g.r.random() < 0.5
        if used:
            # a schema that has already judged documents serialises and compares as a new one does
            for d in (doc, cast_doc(g, 2)):
                E.run_outcome(lambda: s.validate(copy_value(d)).is_valid)
            dist["used-before"] += 1

        def roundtrip():
            js = s.to_json_like()
            keep = copy.deepcopy(js)
            txt = json.dumps(js)
            spoil(js)                      # whatever the caller does with the result ...
            if repr(s.to_json_like()) != repr(keep):      # ... the next serialisation is the same
                raise AssertionError("second serialisation differs after the caller edited the first result")
            s2 = v.Schema.from_json_like(json.loads(txt))
            return keep, s2
        out = E.run_outcome(roundtrip)
        dist["ok" if out[0] == "ok" else "exc:" + out[1]] += 1
        if out[0] == "exc":
            if modded and out[1] == "ValueError":
                dist["refused-modified-path"] += 1
                continue
            if out[1] == "TypeError" and deep_path_flags(rg.cg, rts):
                # outside the property's quantifier (arguments are JSON values, types or data paths; here a path sits INSIDE a container
                # argument of a several-parameter callable, which the spec language cannot express): refusal is the right outcome
                dist["refused-path-inside-container-argument"] += 1
                continue
            direct.append({"kind": "direct", "what": f"schema JSON round trip raised {out[1]}", "schema": [r.descr()[:200] for r in rts],
                           "flags": d50_flags(rts)})
            continue
        js, s2 = out[1]
        if modded:
            direct.append({"kind": "direct", "what": "a rule whose path has a modifier / source data was serialised (part specs cannot "
                           "represent it)", "schema": [r.descr()[:200] for r in rts], "json": repr(js)[:300]})
            continue
        if not (s2 == s):
            direct.append({"kind": "direct", "what": "rebuilt schema is not equal to the original", "schema": [r.descr()[:200] for r in rts],
                           "json": repr(js)[:300]})
            continue
        for d in (doc, cast_doc(g, 3)):
            a, b = E.run_outcome(lambda: obs_validate(s, d)), E.run_outcome(lambda: obs_validate(s2, d))
            if a != b:
                direct.append({"kind": "direct", "what": "rebuilt schema validates differently", "schema": [r.descr()[:200] for r in rts],
                               "doc": jval(d), "orig": repr(a)[:200], "rebuilt": repr(b)[:200]})
                break
    k_bad, o_bad, nk, no, err = run_passes("c13", IMPORTS, cases, model_ok, spec_ok)
    ncases = nested_rule_cases(g, rg, 120 if tier == "quick" else 3000, direct)
    nk_bad, _, nnk, _, nerr = run_passes("c13n", NESTED_IMPORTS, ncases, model_ok, False)
    for c in ncases:
        pass
    nested_dist = Counter("nested-rule:" + (("equal" if c.outcome[1][2] else "not-equal") if c.outcome[0] == "ok" else c.outcome[1]) for c in ncases)
    k_bad = k_bad + [len(cases) + i for i in nk_bad]
    cases = cases + ncases
    nk += nnk
    err = err or nerr
    res = {"evaluations": len(cases) + sum(dist.values()), "k_cases": nk, "o_cases": sum(dist.values()),
           "nontrivial": len({c.key for c in cases if c.nontrivial}),
           "rule": "schemas of 1-3 rules in the C11 / C12 fragments, 50% with str->int / str->bool casts; to_json_like -> "
                   "json.dumps -> json.loads -> from_json_like; rebuilt == original; validity, failures and cast_data equal on a "
                   "plain and a cast-dense document; Rule.to_json_like also compared with the model; non-trivial = serialised OK",
           "samples": [{k: v for k, v in c.descr.items() if k != "coq"} for c in cases[:3]],
           "k_mismatch": [cases[i].descr for i in k_bad], "o_violations": direct, "distribution": dict(list(dist.items()) + list(nested_dist.items()))}
    if err:
        res["k_mismatch"] = res["k_mismatch"] or [{"coq-eval-error": err}]
    return res


def deep_path_flags(cg, rts):
    """A data path INSIDE a list / mapping argument of a callable that takes several parameters or *args / **kwargs: the spec of such
    a callable is the list / mapping of its arguments, and from_spec looks for path specs in its items only, not inside them
    (no spec form: to_json_like refuses with TypeError)."""
    for rt in rts:
        for l in nested_leaves(rt.cond):
            sig = [(pk, va, kw) for (m, pk, va, kw) in cg.methods.get(l.cls, []) if m == l.method]
            several = any(len(pk) > 1 or va or kw for pk, va, kw in sig)
            for a in list(l.args) + list(l.kwargs.values()):
                inside = (isinstance(a, (list, tuple)) and any(isinstance(x, PathT) for x in a)) or \
                         (isinstance(a, dict) and any(isinstance(x, PathT) for x in a.values()))
                if inside and several:
                    return ["path-inside-container-argument-of-multi-parameter-callable"]
                # ... or inside a MAPPING argument one of whose keys contains "path": the mapping has to be written escaped, and an
                # escaped mapping is a literal (its values are not looked at)
                if isinstance(a, dict) and any(isinstance(k, str) and "path" in k for k in a) and any(isinstance(x, PathT) for x in a.values()):
                    return ["path-inside-mapping-argument-with-path-like-key"]
    return []


def d50_flags(rts):
    """Known finding D50 (see C11): a data path as the value of an items_contain item, in a keyword mapping one of whose NAMES contains
    "path": the mapping is written escaped and cannot hold a path spec."""
    for rt in rts:
        for l in nested_leaves(rt.cond):
            if l.method == "items_contain" and any(isinstance(k, str) and "path" in k for k in l.kwargs) \
                    and any(isinstance(x, PathT) for x in l.kwargs.values()):
                return ["path-value-in-mapping-with-path-like-key"]
    return []


def matches_known(known, case):
    m = known.get("match", {})
    if "flag" not in m or m["flag"] not in case.get("flags", []):
        return False
    return "what" not in m or case.get("what") == m["what"]
