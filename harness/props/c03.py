"""C03: path resolution selects exactly the nodes a part-by-part walk reaches (all entry points agree)."""
from collections import Counter

from .. import coqenc as E
from ..passes import Case, run_passes
from ..runner import jval
from ..valgen import Gen, copy_value
from ..condgen import CondGen
from ..pathgen import PathGen
from ..pathterms import PathT
from ..terms import valida

PROP = "C03"
IMPORTS = "Py Lang Defs Cond Dsl Check DocSem PathSpec Path Inst Run"
THEOREMS = ["C03_walk", "C03_frontier_is_walk", "C03_each_once"]
FACT_LEMMAS = ["Tie.tie_build", "Tie.tie_call"]
DEPENDS = ["Proofs/Tie.v", "Proofs/PyFacts.v", "Proofs/C01Proof.v", "Proofs/C02Proof.v", "Proofs/C03Proof.v", "Proofs/C04Proof.v",
           "Properties/C03.v", "Inst.v", "Run.v", "Path.v", "PathSpec.v", "Cond.v", "Dsl.v", "DocSem.v", "Lang.v", "Py.v", "Defs.v",
           "Gen/TablesGen.v", "Gen/CallablesGen.v", "Check.v"]
ASSUMPTIONS = ["Layer P models CPython's operators (pysem)",
               "a Data wrapper is modelled by the container it wraps (the entry points through Data are compared by correspondence)"]

ENTRIES = ["path_raw", "path_data", "data_get_path", "data_get_parts", "bound_source"]


def impl_get(pt, doc, entry, rp):
    v = valida()
    if entry == "path_raw":
        return pt.build().get_data(doc, return_paths=rp)
    if entry == "path_data":
        return pt.build().get_data(v.Data(doc), return_paths=rp)
    if entry == "data_get_path":
        return v.Data(doc).get(pt.build(), return_paths=rp)
    if entry == "data_get_parts":
        return v.Data(doc).get(*pt.build(parts_only=True), return_paths=rp)
    if entry == "bound_source":
        p2 = PathT(pt.parts, pt.mods, src=doc, has_src=True)
        return p2.build().get_data(return_paths=rp)
    raise ValueError(entry)


def make_case(pt, doc, entry, rp):
    outcome = E.run_outcome(lambda: impl_get(pt, copy_value(doc), entry, rp))
    tags = E.ObjTags()
    try:
        docc = E.enc_val(doc)
        impl = E.enc_res(outcome, tags)
        if entry == "bound_source":
            ptc = PathT(pt.parts, pt.mods, src=doc, has_src=True).coq()
            data = "None"
        elif entry == "data_get_parts":
            ptc = PathT(pt.parts, []).coq()
            data = f"(Some {docc})"
        else:
            ptc = pt.coq()
            data = f"(Some {docc})"
    except E.Unencodable:
        return None
    rpc = E.enc_bool(rp)
    model = f"(run_get {ptc} {data} {rpc})"
    oracle = f"(spec_get_term {ptc} {data} {rpc})"
    nontrivial = outcome[0] == "ok" and outcome[1] not in (None, []) and len(pt.parts) > 0
    descr = {"entry": entry, "return_paths": rp, "path": pt.descr()[:400], "doc": jval(doc),
             "impl": outcome[0] + ":" + repr(outcome[1])[:300], "coq": model[:3000]}
    return Case(descr, model, oracle, impl, outcome, nontrivial, key=(pt.descr(), repr(doc)[:80]))


# boundary inputs on which subscripting and equality matching disagree (every entry point, with and without paths)
CORPUS = [
    ([10, 20, 30], (-1,)), ([10, 20, 30], (3,)), ({"a": "xyz"}, ("a", 0)), ({"a": "xyz"}, ("a", -1)), ([10, 20], (1.0,)),
    ([10, 20], (True,)), ({"a": [1]}, ("a", -1)), ({1: "x"}, (1.0,)), ({"1": "x"}, (1,)), ({1: "x", True: "y"}, (True,)),
    ([[]], (0, 0)), ({"a": {}}, ("a", "b")), ({"a": None}, ("a", "b")), ({"a": 5}, ("a", 0)), ([{"k": [1, 2]}], (0, "k", 1)),
    ({"": {"": 1}}, ("", "")), ({None: 1, "a": 2}, ("a",)), ([1, 2], ("0",)), ({"a": [10, 20]}, ("a", 1.5)),
]


def bound_history(g, pt, doc):
    """A path bound to a document keeps following THAT document: after the caller edits it (a top-level entry replaced / added, an item
    appended), a second resolution of the same path object gives what a fresh path bound to the same document gives."""
    v = valida()
    d = copy_value(doc)
    try:
        p = PathT(pt.parts, pt.mods, src=d, has_src=True).build()
    except Exception:
        return []
    E.run_outcome(lambda: p.get_data(return_paths=True))
    if isinstance(d, dict):
        ks = list(d)
        if ks:
            d[g.r.choice(ks)] = g.value(2, 3)
        d["_new"] = g.value(1, 2)
    else:
        d.append(g.value(2, 3))
        if d:
            d[0] = g.value(2, 3)
    a = E.run_outcome(lambda: p.get_data(return_paths=True))
    b = E.run_outcome(lambda: PathT(pt.parts, pt.mods, src=d, has_src=True).build().get_data(return_paths=True))
    if a != b:
        return [{"kind": "direct", "what": "a path bound to a document does not follow the document after the caller edited it",
                 "path": pt.descr()[:300], "doc": jval(d), "reused": repr(a)[:200], "fresh": repr(b)[:200]}]
    return []


def gen(seed, n, mods_p=0.0):
    from ..pathterms import Prim
    g = Gen(seed)
    cg = CondGen(g)
    pg = PathGen(cg)
    cases = []
    for doc, parts in CORPUS:
        pt = PathT([Prim(x) for x in parts], [])
        for e in ENTRIES:
            for rp in (False, True):
                c = make_case(pt, copy_value(doc), e, rp)
                if c:
                    cases.append(c)
    for _ in range(n):
        doc = g.document(4, 4)
        if g.r.random() < 0.25:
            doc = g.share(doc)      # the same container object at several positions
        pt = pg.path(doc, mods_p=mods_p)
        if g.r.random() < 0.08:
            doc, pt = pg.shared_doc_and_path(mods_p=mods_p)
        elif g.r.random() < 0.06:
            doc, pt = pg.mixed_doc_and_path()
        elif g.r.random() < 0.06:
            doc, pt = pg.wide_doc_and_path()
        elif g.r.random() < 0.06:
            # one part object at several positions, over a homogeneous nest of mappings / lists with dead ends
            kind = g.r.choice(["dict", "list"])
            doc = g.container(4, 3, kind)
            doc, pt = pg.repeated_part_path(doc, mods_p=0.0)
        entry = g.r.choice(ENTRIES)
        if entry == "data_get_parts" and pt.mods:
            entry = "path_raw"
        rp = g.r.random() < 0.5
        c = make_case(pt, doc, entry, rp)
        if c:
            cases.append(c)
        if g.r.random() < (0.6 if all(not p.explicit for p in pt.parts) else 0.2):  # the other entry points on the same (path, doc)
            for e2 in ENTRIES:
                if e2 != entry and not (e2 == "data_get_parts" and pt.mods):
                    c2 = make_case(pt, doc, e2, rp)
                    if c2:
                        cases.append(c2)
    return cases


def summarise(cases, k_bad, o_bad, nk, no, err, rule):
    dist = Counter()
    for c in cases:
        dist["outcome:" + (c.outcome[1] if c.outcome[0] == "exc" else ("none" if c.outcome[1] is None else "empty" if c.outcome[1] == [] else "ok"))] += 1
        dist["entry:" + c.descr["entry"]] += 1
    res = {"evaluations": len(cases), "k_cases": nk, "o_cases": no,
           "nontrivial": len({c.key for c in cases if c.nontrivial}),
           "rule": rule, "samples": [{k: v for k, v in c.descr.items() if k != "coq"} for c in cases[:3]],
           "k_mismatch": [cases[i].descr for i in k_bad], "o_violations": [cases[i].descr for i in o_bad],
           "distribution": dict(dist)}
    if err:
        res["k_mismatch"] = res["k_mismatch"] or [{"coq-eval-error": err}]
    return res


def run(tier, seed, model_ok, spec_ok, replay=None):
    cases = gen(seed, 700 if tier == "quick" else 20000)
    k_bad, o_bad, nk, no, err = run_passes("c03", IMPORTS, cases, model_ok, spec_ok)
    g2 = Gen(seed + 77)
    pg2 = PathGen(CondGen(g2))
    hist = []
    for _ in range(150 if tier == "quick" else 3000):
        d0 = g2.document(3, 4)
        hist += bound_history(g2, pg2.path(d0, max_len=3, mods_p=0.0), d0)
    res = summarise(cases, k_bad, o_bad, nk, no, err,
                     "paths of 0-4 parts mixing primitive / map / list / map-or-list parts with key, index and value "
                     "condition trees, generated by walking the document so that most select something (5% aimed at "
                     "scalars / empty containers), over the five entry points with and without return_paths; "
                     "non-trivial = a non-empty path selecting at least one node; distinct by (path, document); plus bound paths "
                     "resolved, the bound document edited at the top level, resolved again and compared with a fresh bound path")
    res["o_violations"] += hist
    res["o_cases"] += 150 if tier == "quick" else 3000
    return res


def matches_known(known, case):
    return False
