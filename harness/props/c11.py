"""C11: conditions survive the JSON-like round trip."""
import copy
import json
from collections import Counter

from .. import coqenc as E
from ..passes import Case, run_passes
from ..runner import jval
from ..valgen import Gen, copy_value, TYPES, spoil
from ..condgen import CondGen
from ..pathgen import PathGen
from ..specgen import normalise_cond, normalise_path, nested_leaves
from ..describe import Inert0
from ..ruleterms import enc_arg1, Tags
from ..terms import Leaf, Bin, valida
from ..pathterms import PathT, MapT, MolT, cnd, lit
from .c09 import IMPORTS
from .c10 import limit_parts

PROP = "C11"
THEOREMS = ["C11_tree", "C11_again", "C11_single_leaf", "C11_fragment_inhabited", "C11_tree_with_escaped_mappings", "C11_fragment_included",
            "C11_roundtrip_with_paths", "C11_with_paths_is_what_the_api_builds", "C11_with_paths_includes_literals",
            "C11_nested_leaf_roundtrip", "C11_nested_list_roundtrip", "C11_nested_mapping_roundtrip", "C11_nested_path_key_refused",
            "C11_nested_tree_roundtrip_partial", "C11_nested_tree_roundtrip", "C11_nested_fragment_includes_the_others"]
FACT_LEMMAS = ["C11Proof / C09Proof table facts (closed computations on the generated tables)", "Tie.tie_build"]
DEPENDS = ['Py.v', 'Lang.v', 'Defs.v', 'Cond.v', 'Dsl.v', 'Check.v', 'DocSem.v', 'Inst.v', 'Gen/TablesGen.v', 'Gen/CallablesGen.v', 'Gen/SpecGen.v', 'Path.v', 'Cast.v', 'Str.v', 'SpecDefs.v', 'RuleDefs.v', 'Rule.v', 'Spec.v', 'SpecIO.v', 'Eq.v', 'RunSpec.v', 'SpecSpell.v', 'RuleTerms.v', 'Proofs/Tie.v', 'Proofs/PyFacts.v', 'Proofs/C01Proof.v', 'Proofs/C02Proof.v', 'Proofs/RuleProof.v', 'Proofs/C09Proof.v', 'Proofs/C11Proof.v', 'Proofs/C11EscProof.v', 'PathSpec.v', 'Proofs/C03Proof.v', 'Proofs/C04Proof.v', 'Proofs/C10Proof.v', 'Proofs/C14Proof.v', 'Proofs/C12Proof.v', 'Proofs/C11PathProof.v', 'NestedArgs.v', 'NestedIO.v', 'Proofs/C11NestedProof.v', 'Proofs/C11NestedFullProof.v', 'Properties/C11.v']
ASSUMPTIONS = ["Layer P models CPython's operators (pysem)", "json.dumps / json.loads text is outside the model (real JSON text is used by the harness)"]

PATHY = [{"path": 1}, {"path": ["a"]}, {"path.first": ["a", 0]}, {"xpath": True}, {"a": {"path": [1]}}, [{"path": ["a"]}, 2],
         {"path": ["a"], "b": 1}, [[{"path": 1}]], {"a": [{"path": 1}]}, {"\\path": 1}, {"PATH": []}, {"Path.len": ["a"]}, [{"PATH": [1]}]]


def pathy(g, depth=2):
    """Literal mappings / lists whose keys look like path specs, nested in one another."""
    k = g.r.random()
    if depth <= 0 or k < 0.25:
        return g.r.choice([1, "a", ["a"], ["a", 0], [1], True, None, [], {}])
    if k < 0.4:
        return [pathy(g, depth - 1) for _ in range(g.r.randint(1, 2))]
    d = {}
    for _ in range(g.r.randint(1, 2)):
        d[g.r.choice(["path", "path", "path.first", "path.len", "xpath", "my_path", "\\path", "C:\\path", "x\\path.len", "C:\\Path", "\\PATH\\bin", "path.", "a", "b"])] = pathy(g, depth - 1)
    return d


def jsonable(a):
    if isinstance(a, PathT):
        # the literals inside a data-path argument (keys, values, labels, arguments of its conditions) must be JSON data too
        for part in a.parts:
            if not hasattr(part, "kw"):
                if not (isinstance(part.v, (str, bool, int)) or (isinstance(part.v, float) and part.v == part.v and abs(part.v) != float("inf"))):
                    return False
                continue
            if part.label is not None and not jsonable(part.label):
                return False
            for ca in part.kw.values():
                if ca is None:
                    continue
                if ca.is_lit:
                    if not jsonable(ca.lit):
                        return False
                else:
                    for l in nested_leaves(ca.cond):
                        if not all(jsonable(x) for x in list(l.args) + list(l.kwargs.values())):
                            return False
        return a.src is None or jsonable(a.src)
    if isinstance(a, type):
        return True
    if isinstance(a, (list,)):
        return all(jsonable(x) for x in a)
    if isinstance(a, dict):
        return all(isinstance(k, str) and jsonable(x) for k, x in a.items())
    if isinstance(a, tuple):
        return False
    if isinstance(a, float):
        return a == a and a not in (float("inf"), float("-inf"))
    return a is None or isinstance(a, (bool, int, str))


def meaningful(l):
    if l.cls in ("ValueLength", "KeyLength"):
        return l.method in ("equal_to", "not_equal_to", "less_than", "greater_than", "less_than_or_equal_to",
                            "greater_than_or_equal_to", "in_", "not_in", "in_range", "not_in_range", "eq", "lt", "gt", "lte", "gte")
    if l.cls in ("ValueDataType", "KeyDataType"):
        return l.method in ("equal_to", "not_equal_to", "in_", "not_in", "eq")
    return True


def fix_leaf(g, l):
    """Bring a generated leaf into the C11 fragment (JSON-like / type / data-path arguments)."""
    if l.cls in ("ValueDataType", "KeyDataType"):
        if l.method in ("in_", "not_in"):
            l.args, l.kwargs = [[g.r.choice(TYPES) for _ in range(g.r.randint(1, 3))]], {}
        else:
            l.args, l.kwargs = [g.r.choice(TYPES)], {}
    if l.method in ("is_instance", "keys_is_instance"):
        l.args = [g.r.choice(TYPES) for _ in range(g.r.randint(1, 3))]


def _corpus11():
    """Literal mappings whose keys look like path-spec keys, hold the escape code, or hold it next to 'path' in another letter case, in the
    positions from_spec looks at (the argument, an item of a list argument, a value of a mapping argument, items_contain names)."""
    out = []
    for key in ("path", "xpath", "path.", "path.len", "\\path", "C:\\path", "C:\\Path", "\\PATH\\bin", "my\\Path.first"):
        m = {key: 1, "n": [2]}
        out.append(Leaf("Value", "equal_to", [copy.deepcopy(m)]))
        out.append(Leaf("Value", "in_", [[copy.deepcopy(m), 1]]))
        out.append(Leaf("Value", "not_equal_to", [{"k": copy.deepcopy(m), "j": 1}]))
        out.append(Leaf("Value", "items_contain", [], {key: 1, "n": 2}))
        out.append(Bin("or", Leaf("Value", "equal_to", [{key: ["a"]}]), Leaf("Value", "truthy", [])))
    return out


CORPUS11 = _corpus11()


def impl_roundtrip(t, probes, used=False):
    v = valida()
    c = t.build()
    if used:
        # a condition that has already filtered data serialises and compares as a new one does
        for d in probes:
            E.run_outcome(lambda d=d: c.filter(copy_value(d)))
    js = c.to_json_like()
    txt = json.dumps(js)
    js2 = json.loads(txt)
    edited = copy.deepcopy(js)
    spoil(js)                       # whatever the caller does with the result, the next serialisation is the same
    js = c.to_json_like() if used else edited
    if repr(js) != repr(edited):
        raise AssertionError("second serialisation differs after the caller edited the first result")
    c2 = v.conditions.ConditionLike.from_json_like(js2)
    js3 = c2.to_json_like()
    same_behaviour = all(E.run_outcome(lambda d=d: list(c.filter(copy_value(d)).result)) ==
                         E.run_outcome(lambda d=d: list(c2.filter(copy_value(d)).result)) for d in probes)
    return js, (js2 == js and json.dumps(js2) == txt, bool(c2 == c), js3 == js, same_behaviour)


NESTED_IMPORTS = "Py Lang Defs Cond Dsl Check DocSem PathSpec Path Cast RuleDefs RuleSpec Rule Inst Run RunRule RuleTerms NestedArgs SpecDefs Spec SpecIO Eq NestedIO"


def nested_cases(g, pg, n):
    """Correspondence for the nested fragment (NestedIO.v): a ONE-parameter callable whose argument is a list / tuple with data paths
    among its items, or a mapping with data paths among its values; to_json_like, purity of the JSON, from_spec(json) == original."""
    from .c17 import enc_narg
    v = valida()
    out = []
    lits = [1, "s", None, 2.5, True, {"path": 1}, {"a": [1]}, [1, "x"], {"path": ["a"], "b": 2}, {"\\path": 3}, [], {}]
    for _ in range(n):
        doc = g.document(3, 4)

        def item():
            if g.r.random() < 0.45:
                return normalise_path(limit_parts(pg.path(doc, max_len=2, mods_p=0.4)))
            return copy.deepcopy(g.r.choice(lits))

        def leaf():
            k = g.r.random()
            if k < 0.6:
                arg = [item() for _ in range(g.r.randint(1, 4))]
                if g.r.random() < 0.12:
                    arg = tuple(arg)            # written as a list: comes back unequal
            else:
                keys = g.r.sample(["k", "j", "a", "n", "mypath", 1], g.r.randint(1, 3))
                arg = {kk: item() for kk in keys}
            m = g.r.choice(["in_", "not_in", "equal_to", "not_equal_to"]) if not isinstance(arg, dict) else g.r.choice(["equal_to", "not_equal_to", "in_"])
            return Leaf(g.r.choice(["Value", "Value", "Key", "Index"]) if m in ("in_", "not_in", "equal_to", "not_equal_to") else "Value", m, [arg])
        def other_leaf():
            # leaves of the other fragments, for mixed trees: a data path as an argument of a several-parameter callable, a plain literal
            k = g.r.random()
            if k < 0.5:
                return Leaf("Value", "in_range", [], {"lower": item() if g.r.random() < 0.6 else 1, "upper": 5})
            if k < 0.8:
                return Leaf("Value", "equal_to", [copy.deepcopy(g.r.choice(lits))])
            return Leaf("Value", "keys_contain_any_of", [g.r.choice(["a", "b", 1]), "k"])
        t = leaf()
        if g.r.random() < 0.4:
            t = Bin(g.r.choice(["and", "or", "xor"]), t, leaf() if g.r.random() < 0.5 else other_leaf())
            if t.a.cls != t.b.cls and {t.a.cls, t.b.cls} == {"Key", "Index"}:
                t.b.cls = t.a.cls
            if g.r.random() < 0.3:
                t = Bin(g.r.choice(["and", "or"]), other_leaf(), t)
                if {l.cls for l in t.leaves()} >= {"Key", "Index"}:
                    for l in t.leaves():
                        l.cls = "Value"

        def impl():
            c = t.build()
            j = c.to_json_like()
            pure = json.loads(json.dumps(j)) == j and all_str_keys(j)
            c2 = v.conditions.ConditionLike.from_spec(copy.deepcopy(j))
            return (copy.deepcopy(j), pure, bool(c2 == c))
        o = E.run_outcome(impl)
        try:
            model = f"(run_nested_roundtrip {t.coq(enc_narg(Tags()))})"
            if len(model) > 8000:
                continue
            out.append(Case({"kind": "nested", "term": t.descr()[:400], "impl": o[0] + ":" + repr(o[1])[:300], "coq": model[:8000]},
                            model, None, E.enc_res(o), o, o[0] == "ok" and o[1][2], key=("nested", t.descr()[:300])))
        except (E.Unencodable, Exception):
            continue
    return out


def all_str_keys(j):
    if isinstance(j, dict):
        return all(isinstance(k, str) for k in j) and all(all_str_keys(x) for x in j.values())
    if isinstance(j, list):
        return all(all_str_keys(x) for x in j)
    return not isinstance(j, tuple)


def run(tier, seed, model_ok, spec_ok, replay=None):
    g = Gen(seed)
    cg = CondGen(g)
    pg = PathGen(cg)
    n = 600 if tier == "quick" else 20000
    cases, direct = [], []
    dist = Counter()
    for i in range(n):
        doc = g.document(3, 4)
        depth = g.r.choice([0, 0, 0, 1, 2, 3])
        t = cg.tree(doc, depth=depth, null_p=0.1) if depth else cg.leaf(doc, wrong_arity=0.0)
        normalise_cond(t)
        ok = True
        for l in t.leaves():
            fix_leaf(g, l)
            if not meaningful(l):
                ok = False
            k = g.r.random()
            if l.args and k < 0.12 and "DataType" not in l.cls and "is_instance" not in l.method:
                pa = normalise_path(limit_parts(pg.path(doc, max_len=2, mods_p=0.4)))
                if g.r.random() < 0.3:
                    # a part whose key condition LOOKS like plain equality but is on the key's length / type: it has no bare-key spelling
                    kc = Leaf(g.r.choice(["KeyLength", "KeyLength", "KeyDataType"]), "equal_to", [g.r.choice([2.0, 1.0, 3])])
                    if kc.cls == "KeyDataType":
                        kc.args = [g.r.choice([str, int])]
                    pa.parts.append(MapT(key=cnd(kc)) if g.r.random() < 0.6 else MolT(key=cnd(kc), index=lit(int(kc.args[0]))) if kc.cls == "KeyLength" and kc.args[0] == int(kc.args[0]) else MapT(key=cnd(kc)))
                pa.warm_spec = g.r.random() < 0.5       # the base path was serialised before its modifiers were derived from it
                l.args[g.r.randrange(len(l.args))] = pa
            elif l.args and k < 0.22 and l.method in ("equal_to", "not_equal_to", "in_", "not_in", "eq") and "DataType" not in l.cls:
                l.args[0] = copy.deepcopy(g.r.choice(PATHY)) if g.r.random() < 0.5 else pathy(g, 3)
            if l.method == "items_contain" and g.r.random() < 0.3:
                kk = g.r.random()
                l.kwargs[g.r.choice(["path", "xpath", "path.len", "a", "my_path"])] = \
                    g.scalar() if kk < 0.4 else ([1] if kk < 0.55 else (pathy(g, 2) if kk < 0.85 else
                                                                   normalise_path(limit_parts(pg.path(doc, max_len=2, mods_p=0.4)))))
            if not all(jsonable(a) for a in list(l.args) + list(l.kwargs.values())):
                ok = False
        for l in nested_leaves(t):
            if l not in t.leaves():
                fix_leaf(g, l)
                if not meaningful(l) or not all(jsonable(a) for a in list(l.args) + list(l.kwargs.values())):
                    ok = False
        if i < len(CORPUS11):
            t, ok = copy.deepcopy(CORPUS11[i]), True      # regression corpus first
        if not ok:
            continue
        try:
            t.build()
        except Exception:
            continue
        probes = [g.container(2, 4, "list"), g.container(2, 4, "dict")]
        flags = []

        def pathy_upper(v):
            if isinstance(v, dict):
                ks = list(v.keys())
                return len(ks) == 1 and isinstance(ks[0], str) and ks[0].split(".")[0].lower() == "path" and ks[0].split(".")[0] != "path"
            return False
        for l in t.leaves():
            for a in list(l.args) + list(l.kwargs.values()):
                if pathy_upper(a) or (isinstance(a, list) and any(pathy_upper(x) for x in a)) or \
                        (isinstance(a, dict) and any(pathy_upper(x) for x in a.values())):
                    flags.append("mapping-key-path-not-lowercase")
        # a data path as a VALUE of a mapping argument / of items_contain, next to a key that contains "path": the mapping is written
        # escaped (so that it is not read as a path spec) and from_spec does not look inside an un-escaped mapping: known finding D50
        flags2 = []
        for l in t.leaves():
            for a in list(l.args) + ([l.kwargs] if l.method == "items_contain" else []):
                if isinstance(a, dict) and any(isinstance(k, str) and "path" in k for k in a) and any(isinstance(x, PathT) for x in a.values()):
                    flags2.append("path-value-in-mapping-with-path-like-key")
        out_js = E.run_outcome(lambda: t.build().to_json_like())
        out_rt = E.run_outcome(lambda: impl_roundtrip(t, probes)[1][:3])
        try:
            tc = t.coq(enc_arg1(Tags()))
            c1 = Case({"term": t.descr()[:400], "kind": "to_json", "impl": out_js[0] + ":" + repr(out_js[1])[:300],
                       "coq": f"(run_cond_to_json {tc})"[:5000]},
                      f"(run_cond_to_json {tc})", None, E.enc_res(out_js, Inert0()), out_js, out_js[0] == "ok", key=t.descr())
            c2 = Case({"term": t.descr()[:400], "kind": "roundtrip", "impl": out_rt[0] + ":" + repr(out_rt[1])[:300],
                       "coq": f"(run_cond_roundtrip {tc})"[:5000]},
                      f"(run_cond_roundtrip {tc})", None, E.enc_res(out_rt, Inert0()), out_rt, False, key=t.descr() + "#rt")
        except E.Unencodable:
            continue
        # a data path nested inside a list literal (which the known-finding inputs rebuild to) is outside the serialiser model
        cases += [c1] if flags else [c1, c2]
        full = E.run_outcome(lambda: impl_roundtrip(t, probes, used=True))
        dist["ok" if full[0] == "ok" else "exc:" + full[1]] += 1
        if full[0] != "ok":
            direct.append({"kind": "direct", "flags": flags + flags2, "what": f"round trip raised {full[1]}", "term": t.descr()[:400]})
        elif not all(full[1][1]):
            names = ["json-stable", "rebuilt == original", "second serialisation identical", "same behaviour"]
            bad = [nm for nm, okk in zip(names, full[1][1]) if not okk]
            direct.append({"kind": "direct", "flags": flags, "what": "round trip fails: " + ", ".join(bad), "term": t.descr()[:400],
                           "json": repr(full[1][0])[:300]})
    k_bad, o_bad, nk, no, err = run_passes("c11", IMPORTS, cases, model_ok, spec_ok)
    ncases = nested_cases(g, pg, 200 if tier == "quick" else 5000)
    nk_bad, _, nnk, _, nerr = run_passes("c11n", NESTED_IMPORTS, ncases, model_ok, False)
    for c in ncases:
        dist["nested:" + (("equal" if c.outcome[1][2] else "not-equal") if c.outcome[0] == "ok" else c.outcome[1])] += 1
    cases_all = cases
    cases = cases + ncases
    k_bad = k_bad + [len(cases_all) + i for i in nk_bad]
    nk += nnk
    err = err or nerr
    res = {"evaluations": len(cases), "k_cases": nk, "o_cases": len(cases_all) // 2,
           "nontrivial": len({c.key for c in cases if c.nontrivial}),
           "rule": "leaves of the meaningful DSL (all callables on value / key / index; length with numeric comparisons; type with "
                   "equality and membership) with JSON-like, type or data-path arguments (22% literal mappings / lists whose keys "
                   "look like path specs, 12% data paths), nested and/or/xor; to_json_like -> real json.dumps/loads -> "
                   "from_json_like -> ==, second to_json_like, behaviour on probes; non-trivial = serialised OK",
           "samples": [{k: v for k, v in c.descr.items() if k != "coq"} for c in cases[:3]],
           "k_mismatch": [cases[i].descr for i in k_bad], "o_violations": direct, "distribution": dict(dist)}
    if err:
        res["k_mismatch"] = res["k_mismatch"] or [{"coq-eval-error": err}]
    return res


def matches_known(known, case):
    m = known.get("match", {})
    if "flag" not in m or m["flag"] not in case.get("flags", []):
        return False
    return "what" not in m or case.get("what") == m["what"]
