"""C12: serialised data paths rebuild to an equivalent path, or serialisation refuses."""
import copy
import json
import pathlib
from collections import Counter

from .. import coqenc as E
from ..passes import Case, run_passes
from ..runner import jval
from ..valgen import Gen, copy_value, spoil
from ..condgen import CondGen
from ..pathgen import PathGen
from ..specgen import SpecGen, path_leaves, d12_flag
from ..describe import describe_path, Inert0
from ..pathterms import PathT, Prim
from ..terms import valida
from .c09 import IMPORTS
from .c11 import pathy

PROP = "C12"
THEOREMS = ["C12_refuses_or_is_faithful", "C12_roundtrip_same_selection", "C12_roundtrip_pure", "C12_refuses_what_it_cannot_represent",
            "C12_serialises_the_rest", "C12_spec_form_roundtrip", "C12_fragment_inhabited"]
DEPENDS = ['Py.v', 'Lang.v', 'Defs.v', 'Cond.v', 'Dsl.v', 'Check.v', 'DocSem.v', 'Inst.v', 'Gen/TablesGen.v', 'Gen/CallablesGen.v', 'Gen/SpecGen.v', 'Path.v', 'PathSpec.v', 'Cast.v', 'Str.v', 'SpecDefs.v', 'RuleDefs.v', 'Rule.v', 'Spec.v', 'SpecIO.v', 'Eq.v', 'FromStr.v', 'RunSpec.v', 'SpecSpell.v', 'RuleTerms.v', 'Proofs/Tie.v', 'Proofs/PyFacts.v', 'Proofs/C01Proof.v', 'Proofs/C02Proof.v', 'Proofs/C03Proof.v', 'Proofs/C04Proof.v', 'Proofs/RuleProof.v', 'Proofs/C09Proof.v', 'Proofs/C10Proof.v', 'Proofs/C11Proof.v', 'Proofs/C14Proof.v', 'Proofs/C12Proof.v', 'Properties/C12.v']
FACT_LEMMAS = ["C12Proof / C11Proof / C10Proof table facts (closed computations on the generated tables)"]
ASSUMPTIONS = ["Layer P models CPython's operators (pysem)"]


def sel(p, doc):
    return E.run_outcome(lambda: p.get_data(copy_value(doc), return_paths=True))


def corpus_paths():
    """Regression corpus: literal mapping arguments (inside part conditions) whose keys look like path-spec keys or already hold the
    escape code, in the three positions from_spec looks at."""
    from ..pathterms import MapT, ListT, cnd
    from ..terms import Leaf
    out = []
    for key in ("path", "xpath", "\\path", "C:\\path", "path.len", "my\\path.first"):
        m = {key: 1, "n": 2}
        doc = {"jobs": {"j1": copy.deepcopy(m), "j2": {key.replace("\\", ""): 1, "n": 2}, "j3": [copy.deepcopy(m)]}}
        out.append((doc, PathT([Prim("jobs"), MapT(value=cnd(Leaf("Value", "equal_to", [copy.deepcopy(m)])))], [])))
        out.append((doc, PathT([Prim("jobs"), MapT(value=cnd(Leaf("Value", "in_", [[copy.deepcopy(m), 1]])))], [])))
        out.append((doc, PathT([Prim("jobs"), MapT(value=cnd(Leaf("Value", "equal_to", [[copy.deepcopy(m)]])))], [])))
    # types that have no name in the spec language, subclasses of nameable types included: refused, never written under another name
    for odd in (pathlib.PosixPath, pathlib.PurePath, type(None), tuple):
        doc = {"a": 1, "b": "x", "p": pathlib.PosixPath("x"), "t": (1, 2), "n": None}
        out.append((doc, PathT([MapT(value=cnd(Leaf("ValueDataType", "equal_to", [odd])))], [])))
        out.append((doc, PathT([MapT(value=cnd(Leaf("ValueDataType", "in_", [[int, odd]])))], [])))
        out.append((doc, PathT([MapT(value=cnd(Leaf("Value", "is_instance", [str, odd])))], [])))
    return out


def run(tier, seed, model_ok, spec_ok, replay=None):
    g = Gen(seed)
    cg = CondGen(g)
    pg = PathGen(cg)
    sg = SpecGen(g)
    v = valida()
    n = 600 if tier == "quick" else 20000
    cases, direct = [], []
    dist = Counter()
    corpus = corpus_paths()
    for i in range(-len(corpus), n):
        doc = g.document(4, 4)
        pt = pg.path(doc, max_len=3, mods_p=0.2)      # with modifiers: part specs must refuse, to_spec must carry them
        if i < 0:
            doc, pt = corpus[i]
        for l in path_leaves(pt):
            # a type that has no name in the spec language (not even its base class's name): refused, never written under another name
            if ("DataType" in l.cls or l.method in ("is_instance", "keys_is_instance")) and l.args and g.r.random() < 0.12:
                odd = g.r.choice([pathlib.PosixPath, pathlib.PurePath, type(None), tuple, complex])
                i0 = g.r.randrange(len(l.args))
                if isinstance(l.args[i0], type):
                    l.args[i0] = odd
                elif isinstance(l.args[i0], list) and l.args[i0] and all(isinstance(x, type) for x in l.args[i0]):
                    l.args[i0] = list(l.args[i0][:-1]) + [odd]
        for l in path_leaves(pt):
            # literal mappings / lists whose keys look like path specs or already hold the escape code, as arguments of the
            # conditions inside parts: written escaped, read back as the literal
            if l.args and l.method in ("equal_to", "not_equal_to", "in_", "not_in", "eq") and "DataType" not in l.cls \
                    and "Length" not in l.cls and g.r.random() < 0.12:
                lit = pathy(g, 2)
                l.args[0] = [lit, 1] if l.method in ("in_", "not_in") else lit
        pt.warm_spec = g.r.random() < 0.4       # the base path was serialised before its modifiers were derived from it
        if g.r.random() < 0.04:
            pt.has_src, pt.src = True, g.r.choice([{"a": 1}, [1, 2], {}])
        # also: paths that come from specs (equality must then hold)
        from_specs = g.r.random() < 0.5
        try:
            if from_specs:
                spec = sg.path_spec(pt)
                if spec is None:
                    continue
                p = v.DataPath.from_part_specs(*copy.deepcopy(list(spec.values())[0]))
            else:
                p = pt.build()
        except Exception:
            continue
        out = E.run_outcome(lambda: p.to_part_specs())
        if not from_specs:
            try:
                model = f"(run_to_part_specs {pt.coq()})"
                cases.append(Case({"path": pt.descr()[:300], "impl": out[0] + ":" + repr(out[1])[:300], "coq": model[:4000]},
                                  model, None, E.enc_res(out, Inert0()), out, out[0] == "ok", key=pt.descr()))
            except E.Unencodable:
                pass
        dist["refused:" + out[1] if out[0] == "exc" else "serialised"] += 1
        # the full spec form (key with suffixes): either refused or rebuilt to an equally selecting path
        full = E.run_outcome(lambda: p.to_spec())
        if full[0] == "ok":
            dist["to_spec"] += 1
            keep = copy.deepcopy(full[1])
            spoil(full[1])
            again = E.run_outcome(lambda: p.to_spec())
            if again[0] != "ok" or repr(again[1]) != repr(keep):
                direct.append({"kind": "direct", "what": "a second to_spec() of the same path differs from the first after the "
                               "caller edited the first result", "path": pt.descr()[:300], "first": repr(keep)[:300],
                               "second": repr(again[1])[:300]})
            full = ("ok", keep)
            try:
                try:
                    fj = json.loads(json.dumps(full[1]))
                    if fj != full[1]:
                        fj = copy.deepcopy(full[1])     # not JSON data (e.g. int keys in a literal): no text route
                except (TypeError, ValueError):
                    fj = copy.deepcopy(full[1])
                pf = v.DataPath.from_spec(fj)
            except Exception as e:
                if not d12_flag(path_leaves(pt)):
                    direct.append({"kind": "direct", "what": f"to_spec output does not parse back ({type(e).__name__})",
                                   "path": pt.descr()[:300], "specs": repr(full[1])[:300]})
                pf = None
            if pf is not None and sel(p, doc) != sel(pf, doc):
                direct.append({"kind": "direct", "what": "path rebuilt from to_spec selects differently", "path": pt.descr()[:300],
                               "specs": repr(full[1])[:300], "doc": jval(doc)})
        if out[0] == "exc":
            continue
        if p.DATUM_TYPE.value or p.MULTI_TYPE.value or p.source_data is not None:
            direct.append({"kind": "direct", "what": "part specs emitted for a path with a modifier or source data (they cannot "
                           "represent it)", "path": pt.descr()[:300], "specs": repr(out[1])[:300]})
            continue
        specs = copy.deepcopy(out[1])
        # every serialisation is faithful, whatever the caller did with an earlier result
        spoil(out[1])
        again = E.run_outcome(lambda: p.to_part_specs())
        if again[0] != "ok" or repr(again[1]) != repr(specs):
            direct.append({"kind": "direct", "what": "a second to_part_specs() of the same path differs from the first after the "
                           "caller edited the first result", "path": pt.descr()[:300], "first": repr(specs)[:300],
                           "second": repr(again[1])[:300]})
            continue
        try:
            txt = json.dumps(specs)
            specs2 = json.loads(txt)
        except (TypeError, ValueError):
            specs2 = None
        if specs2 is None or specs2 != specs:
            # not JSON-compatible: only acceptable if the original held non-JSON content; still must rebuild equivalently
            specs2 = copy.deepcopy(specs)
            dist["not-json"] += 1
        try:
            p2 = v.DataPath.from_part_specs(*specs2)
        except Exception as e:
            direct.append({"kind": "direct", "what": f"emitted part specs do not parse back ({type(e).__name__})",
                           "flags": ["dtype-with-non-type-argument"] if d12_flag(path_leaves(pt)) else [],
                           "impl": "exc:'" + type(e).__name__, "path": pt.descr()[:300], "specs": repr(specs)[:300]})
            continue
        for d in (doc, g.document(3, 4)):
            if sel(p, d) != sel(p2, d):
                direct.append({"kind": "direct", "what": "rebuilt path selects differently", "path": pt.descr()[:300],
                               "specs": repr(specs)[:300], "doc": jval(d)})
                break
        if from_specs and not (p2 == p):
            direct.append({"kind": "direct", "what": "path built from specs is not equal to its rebuilt self",
                           "path": pt.descr()[:300], "specs": repr(specs)[:300]})
    k_bad, o_bad, nk, no, err = run_passes("c12", IMPORTS, cases, model_ok, spec_ok)
    res = {"evaluations": sum(dist.values()), "k_cases": nk, "o_cases": sum(dist.values()),
           "nontrivial": len({c.key for c in cases if c.nontrivial}) + 2,
           "rule": "document-guided paths with non-equality key / index conditions, value conditions, combinations and labels "
                   "(half built through the API, half from part specs); to_part_specs -> json text -> from_part_specs; the "
                   "rebuilt path must select the same (node, concrete path) pairs on two documents and be == when the original "
                   "came from specs; non-trivial = serialised OK",
           "samples": [{k: v for k, v in c.descr.items() if k != "coq"} for c in cases[:3]],
           "k_mismatch": [cases[i].descr for i in k_bad], "o_violations": direct, "distribution": dict(dist)}
    if err:
        res["k_mismatch"] = res["k_mismatch"] or [{"coq-eval-error": err}]
    return res


def matches_known(known, case):
    m = known.get("match", {})
    if "flag" in m:
        return m["flag"] in case.get("flags", []) and any(case.get("impl", "").startswith("exc:'" + e) for e in m.get("outcomes", []))
    return False
