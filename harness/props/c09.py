"""C09: condition specs mean exactly what the equivalent Python DSL expression means."""
import copy
from collections import Counter

from .. import coqenc as E
from ..passes import Case, run_passes
from ..runner import jval
from ..valgen import Gen, copy_value, share_equal
from ..condgen import CondGen
from ..pathgen import PathGen
from ..specgen import SpecGen, normalise_cond, normalise_path
from ..describe import describe_cond, Inert0
from ..ruleterms import enc_arg1, Tags
from ..terms import valida, Leaf, Bin
from ..pathterms import PathT

PROP = "C09"
IMPORTS = ("Py Lang Defs Cond Dsl Check DocSem PathSpec Path Cast Str SpecDefs RuleDefs RuleSpec Rule Spec SpecIO Descr "
           "Inst Run RunRule RunSpec")
THEOREMS = ['C09_leaf', 'C09_tree', 'C09_any_case', 'C09_alias_dtype', 'C09_alias_length', 'C09_alias_in_', 'C09_type_name', 'C09_positional_or_keyword',
            'C09_nested_leaf', 'C09_nested_tree', 'C09_nested_mixed_tree']
FACT_LEMMAS = ['C09Proof table facts (about 150 closed computations on the generated tables)', 'Tie.tie_build']
DEPENDS = ['Py.v', 'Lang.v', 'Defs.v', 'Cond.v', 'Dsl.v', 'Check.v', 'DocSem.v', 'Inst.v', 'Gen/TablesGen.v', 'Gen/CallablesGen.v', 'Gen/SpecGen.v', 'Path.v', 'Cast.v', 'Str.v', 'SpecDefs.v', 'RuleDefs.v', 'Rule.v', 'Spec.v', 'SpecIO.v', 'Descr.v', 'Eq.v', 'RunSpec.v', 'SpecSpell.v', 'Proofs/Tie.v', 'Proofs/PyFacts.v', 'Proofs/C01Proof.v', 'Proofs/C02Proof.v', 'Proofs/RuleProof.v', 'Proofs/C03Proof.v', 'Proofs/C04Proof.v', 'RuleSpec.v', 'RuleTerms.v', 'PathSpec.v', 'RunRule.v', 'Run.v', 'Proofs/C09Proof.v', 'Properties/C09.v', 'NestedArgs.v', 'NestedIO.v', 'NestedSpell.v', 'Proofs/C11NestedProof.v', 'Proofs/C11NestedFullProof.v', 'Proofs/C13NestedProof.v', 'Proofs/C09NestedProof.v']
ASSUMPTIONS = ["Layer P models CPython's operators (pysem)", "str.lower() / split are modelled for ASCII"]


def impl_from_spec(spec):
    v = valida()
    return describe_cond(v.conditions.ConditionLike.from_spec(spec))


def probes(g, t):
    return [g.container(2, 4, "list"), g.container(2, 4, "dict")]


def make_case(g, t, spec):
    aliased = g.r.random() < 0.5     # equal sub-specs as ONE object (YAML aliases, a caller reusing a sub-spec)
    given = (lambda: share_equal(copy.deepcopy(spec))) if aliased else (lambda: copy.deepcopy(spec))
    outcome = E.run_outcome(lambda: impl_from_spec(given()))
    try:
        sc = E.enc_val(spec)
        impl = E.enc_res(outcome, Inert0())
        tc = t.coq(enc_arg1(Tags()))
    except E.Unencodable:
        return None, None
    model = f"(run_cond_from_spec {sc})"
    oracle = None   # equality of conditions is order-insensitive on keyword arguments: judged by == on the implementation
    flags = []

    def all_leaves(term):
        out = []
        for l in term.leaves():
            out.append(l)
            for a in list(l.args) + list(l.kwargs.values()):
                if isinstance(a, PathT):
                    for part in a.parts:
                        for ca in getattr(part, "kw", {}).values():
                            if ca is not None and not ca.is_lit:
                                out.extend(all_leaves(ca.cond))
        return out
    for l in all_leaves(t):
        if "DataType" in l.cls:
            vals = list(l.args) + list(l.kwargs.values())
            flat = []
            for a in vals:
                flat.extend(a if isinstance(a, (list, tuple)) else [a])
            if not flat or any(not isinstance(a, type) for a in flat):
                flags.append("dtype-with-non-type-argument")
        if l.method in ("is_instance", "keys_is_instance") and any(not isinstance(a, type) for a in l.args):
            flags.append("dtype-with-non-type-argument")
    descr = {"flags": sorted(set(flags)), "term": t.descr()[:400], "spec": jval(spec), "impl": outcome[0] + ":" + repr(outcome[1])[:400], "coq": model[:4000]}
    direct = None
    if outcome[0] == "ok":
        v = valida()
        try:
            dsl = t.build()
            parsed = v.conditions.ConditionLike.from_spec(given())
            if not (parsed == dsl):
                direct = dict(descr, kind="direct", what="from_spec(spec) is not equal to the DSL-built condition")
            else:
                for doc in probes(g, t):
                    a = E.run_outcome(lambda: list(parsed.filter(copy_value(doc)).result))
                    b = E.run_outcome(lambda: list(dsl.filter(copy_value(doc)).result))
                    if a != b:
                        direct = dict(descr, kind="direct", what="parsed and DSL-built conditions filter differently", doc=jval(doc))
        except Exception as e:  # DSL term itself not buildable: nothing to compare
            direct = None
    else:
        # the spec of a buildable DSL term must parse
        try:
            t.build()
            direct = dict(descr, kind="direct", what=f"spec of a DSL-buildable condition is rejected with {outcome[1]}")
        except Exception:
            direct = None
    nontrivial = outcome[0] == "ok" and t.size() >= 1
    return Case(descr, model, oracle, impl, outcome, nontrivial, key=repr(spec)[:200]), direct


NESTED_IMPORTS = ("Py Lang Defs Cond Dsl Check DocSem PathSpec Path Cast RuleDefs RuleSpec Rule Inst Run RunRule RuleTerms NestedArgs "
                  "SpecDefs Spec SpecIO Eq NestedIO NestedSpell")


def nested_cases(g, pg, sg, n):
    """Correspondence for nested arguments (NestedSpell.v / NestedIO.v): a one-parameter callable whose argument is a list with
    data paths among its items or a mapping with data paths among its values; the spec (random spelling) parses to a condition that
    is == to the DSL-built one, in the model and in the code."""
    from .c17 import enc_narg
    from .c10 import limit_parts
    v = valida()
    out = []
    lits = [1, "s", None, 2.5, True, {"path": 1}, {"a": [1]}, [1, "x"], {"path": ["a"], "b": 2}, []]
    for _ in range(n):
        doc = g.document(3, 4)

        def item():
            from ..nestedgen import nested_item
            return nested_item(g, pg, doc)

        def leaf():
            if g.r.random() < 0.65:
                arg = [item() for _ in range(g.r.randint(1, 4))]
            else:
                arg = {kk: item() for kk in g.r.sample(["k", "j", "a", "n"], g.r.randint(1, 3))}
            m = g.r.choice(["in_", "not_in", "equal_to", "not_equal_to"]) if isinstance(arg, list) else g.r.choice(["equal_to", "not_equal_to"])
            return Leaf(g.r.choice(["Value", "Value", "Key", "Index"]), m, [arg])
        t = leaf()
        if g.r.random() < 0.35:
            b = leaf() if g.r.random() < 0.6 else Leaf("Value", "in_range", [], {"lower": item() if g.r.random() < 0.5 else 1, "upper": 5})
            t = Bin(g.r.choice(["and", "or", "xor"]), t, b)
            if {l.cls for l in t.leaves()} >= {"Key", "Index"}:
                for l in t.leaves():
                    l.cls = "Value"
        spec = sg.cond_spec(t)
        if spec is None:
            continue
        try:
            dsl = t.build()
        except Exception:
            continue
        o = E.run_outcome(lambda: bool(v.conditions.ConditionLike.from_spec(copy.deepcopy(spec)) == dsl))
        try:
            model = f"(run_c09n {E.enc_val(spec)} {t.coq(enc_narg(Tags()))})"
            if len(model) > 8000:
                continue
            out.append(Case({"kind": "nested", "term": t.descr()[:400], "spec": jval(spec), "impl": o[0] + ":" + repr(o[1])[:100], "coq": model[:8000], "flags": []},
                            model, None, E.enc_res(o), o, o == ("ok", True), key=("nested", repr(spec)[:300])))
        except (E.Unencodable, Exception):
            continue
    return out


def run(tier, seed, model_ok, spec_ok, replay=None):
    g = Gen(seed)
    cg = CondGen(g)
    pg = PathGen(cg)
    sg = SpecGen(g)
    sg.keep_tuples = True
    n = 700 if tier == "quick" else 20000
    cases, direct = [], []
    skipped = 0
    tupled = 0
    for i in range(n):
        doc = g.document(3, 4)
        depth = g.r.choice([0, 0, 0, 1, 1, 2, 3])
        t = cg.tree(doc, depth=depth, null_p=0.1) if depth else cg.leaf(doc, wrong_arity=0.0)
        if g.r.random() < 0.12:   # a data-path argument
            leaves = [l for l in t.leaves() if l.args]
            leaves = [l for l in leaves if "DataType" not in l.cls and "is_instance" not in l.method]
            if leaves:
                l = g.r.choice(leaves)
                pa = pg.path(doc, max_len=2, mods_p=0.4)
                for part in pa.parts:   # == is commutative only at the top of a combination: keep at most two components
                    kw = getattr(part, "kw", None)
                    if kw and sum(1 for a in kw.values() if a is not None) > 2:
                        kw["condition"] = None
                        if "list_condition" in kw:
                            kw["list_condition"] = kw["map_condition"] = None
                l.args[g.r.randrange(len(l.args))] = pa
        elif g.r.random() < 0.08:
            # a literal mapping argument keyed like the callable's own parameters ({"value": 3}, {"lower": 1, "upper": 2}):
            # it is an argument VALUE for a one-argument callable, never a keyword mapping
            leaves = [l for l in t.leaves() if len(l.args) == 1 and not l.kwargs and "DataType" not in l.cls
                      and l.method in ("equal_to", "not_equal_to", "in_", "not_in", "eq", "keys_contain", "less_than", "gt")]
            if leaves:
                l = g.r.choice(leaves)
                names = [nm for (m, pk, va, kw) in cg.methods[l.cls] if m == l.method for (nm, _d) in pk] or ["value"]
                l.args[0] = {names[0]: g.scalar()} if g.r.random() < 0.7 else {"lower": 1, "upper": g.small_int()}
        elif g.r.random() < 0.10:
            # literal mappings of several keys, one of which looks like a path-spec key (in any position), as the argument, as an
            # item of a list argument or as a value of a mapping argument: written escaped, read back as the literal
            leaves = [l for l in t.leaves() if len(l.args) == 1 and not l.kwargs and "DataType" not in l.cls and "Length" not in l.cls
                      and l.method in ("equal_to", "not_equal_to", "in_", "not_in", "eq")]
            if leaves:
                l = g.r.choice(leaves)
                keys = g.r.sample(["name", "a", "b", "x"], g.r.randint(1, 2)) + [g.r.choice(["path", "my_path", "path.len", "xpath", "path.first", "path.", "C:\\Path", "\\path"])]
                g.r.shuffle(keys)
                m = {k: g.r.choice([1, "x", "/tmp", ["a"], None, True]) for k in keys}
                kk = g.r.random()
                l.args[0] = [m, g.scalar()] if l.method in ("in_", "not_in") or kk < 0.4 else ({"k": m, "j": 1} if kk < 0.7 else m)
        if g.r.random() < 0.05:
            # an operand listed twice (in a spec: possibly the very same object, as a YAML alias gives) whose list / mapping argument
            # holds a literal mapping that has to be written escaped
            m = {g.r.choice(["path", "my_path", "path.len", "\\path"]): g.r.choice([["a"], 1, "x"]), "n": 1}
            lf = Leaf("Value", g.r.choice(["in_", "not_in", "equal_to"]), [[m, g.scalar()] if g.r.random() < 0.6 else {"k": m, "j": 2}])
            t = Bin(g.r.choice(["and", "or", "xor"]), lf, copy.deepcopy(lf))
            if g.r.random() < 0.4:
                t = Bin(g.r.choice(["and", "or"]), t, cg.leaf(doc, wrong_arity=0.0))
        long_list = None
        if g.r.random() < 0.07:
            # a LONG and / or / xor list (4-7 operands): the list means the left-to-right chain  c1 op c2 op ... op cn
            op = g.r.choice(["and", "or", "xor"])
            kids = [cg.tree(doc, depth=g.r.choice([0, 0, 1]), null_p=0.0) for _ in range(g.r.randint(4, 7))]
            t = kids[0]
            for kx in kids[1:]:
                t = Bin(op, t, kx)
            long_list = (op, kids)
        normalise_cond(t)   # specs are JSON/YAML-like: no tuples, named types only (also inside data-path arguments)
        # ... except that a spec written as a Python structure may give a TUPLE where a list can go: as the whole argument of a
        # one-parameter callable it stays a tuple (Value.equal_to((1, 2)) is not Value.equal_to([1, 2])); for callables that unpack
        # their arguments (several parameters, *args) a tuple of arguments means what the list means
        for l in t.leaves():
            if l.kwargs or g.r.random() > 0.15 or "DataType" in l.cls or l.method in ("is_instance", "keys_is_instance"):
                continue
            sigs = [(pk, va, kw) for (m, pk, va, kw) in cg.methods[l.cls] if m == l.method]
            if not sigs:
                continue
            pk, va, kw = sigs[0]
            plain = lambda x: not isinstance(x, (dict, PathT))
            if len(pk) == 1 and va is None and kw is None and len(l.args) == 1 and isinstance(l.args[0], list) and all(plain(x) for x in l.args[0]):
                l.args[0] = tuple(l.args[0])
                tupled += 1
        spec = sg.cond_spec(t)
        if long_list is not None and spec is not None:
            parts_ = [sg.cond_spec(kx) for kx in long_list[1]]
            spec = {long_list[0]: parts_} if all(x is not None for x in parts_) else None
        if spec is None:
            skipped += 1
            continue
        c, d = make_case(g, t, spec)
        if c:
            cases.append(c)
        if d:
            direct.append(d)
    k_bad, o_bad, nk, no, err = run_passes("c09", IMPORTS, cases, model_ok, spec_ok)
    dist = Counter("outcome:" + (c.outcome[1] if c.outcome[0] == "exc" else "ok") for c in cases)
    sgn = SpecGen(g)          # (lists stay lists here: nested path items inside a tuple are rejected by from_spec)
    ncases = nested_cases(g, pg, sgn, 200 if tier == "quick" else 5000)
    nk_bad, _, nnk, _, nerr = run_passes("c09n", NESTED_IMPORTS, ncases, model_ok, False)
    for c in ncases:
        dist["nested:" + (("equal" if c.outcome[1] else "NOT-equal") if c.outcome[0] == "ok" else c.outcome[1])] += 1
        if c.outcome == ("ok", False):
            direct.append(dict(c.descr, kind="direct", what="from_spec(spec) is not equal to the DSL-built condition (nested path arguments)"))
    k_bad = k_bad + [len(cases) + i for i in nk_bad]
    cases = cases + ncases
    nk += nnk
    err = err or nerr
    res = {"evaluations": len(cases), "k_cases": nk, "o_cases": no + len(cases),
           "nontrivial": len({c.key for c in cases if c.nontrivial}),
           "rule": "DSL terms (all 7 classes x all constructors, nested and/or/xor, 12% with a data-path argument) written as "
                   "specs with random letter case, type/dtype, len/length, in/in_ aliases, type names (incl. 'map'), "
                   "list-vs-mapping argument shapes; the parsed object is described structurally and compared with the model's "
                   "parse and with the DSL-built object (==, structure, behaviour on probe documents); non-trivial = parsed OK",
           "samples": [{k: v for k, v in c.descr.items() if k != "coq"} for c in cases[:3]],
           "k_mismatch": [cases[i].descr for i in k_bad],
           "o_violations": [cases[i].descr for i in o_bad] + direct,
           "distribution": dict(dist, skipped_no_spec_form=skipped, tuple_as_whole_argument=tupled)}
    if err:
        res["k_mismatch"] = res["k_mismatch"] or [{"coq-eval-error": err}]
    return res


def matches_known(known, case):
    m = known.get("match", {})
    if "flag" in m:
        if m["flag"] not in case.get("flags", []):
            return False
        if any(case.get("impl", "").startswith("exc:'" + e) for e in m.get("outcomes", [])):
            return True
        # the same defect when the non-type argument is a string that happens to be a type NAME ('path', 'int'): it is
        # accepted and read as the type, so the parsed condition differs from the DSL-built one
        return bool(m.get("or_read_as_type")) and case.get("impl", "").startswith("ok:") and \
            case.get("what", "").startswith("from_spec(spec) is not equal")
    return False
