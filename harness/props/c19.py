"""C19: malformed specs are rejected with spec errors, never internal ones."""
import copy
from collections import Counter

from .. import coqenc as E
from ..passes import Case, run_passes
from ..runner import jval
from ..valgen import Gen
from ..condgen import CondGen
from ..pathgen import PathGen
from ..rulegen import RuleGen
from ..specgen import SpecGen, normalise_cond, normalise_path
from ..describe import describe_cond, describe_part, describe_path, describe_rule, Inert0
from ..terms import valida
from .c09 import IMPORTS
from .c10 import limit_parts

PROP = "C19"
THEOREMS = ['C19_condition', 'C19_path', 'C19_part', 'C19_part_specs', 'C19_rule', 'C19_rule_keyerror_names_field', 'C19_condition_any_depth']
FACT_LEMMAS = ['C19Proof.T_tables_ok', 'C19Proof.T_key_eq', 'C19Proof.T_index_eq', 'C19Proof.T_value_eq', 'C19Proof.X_suffixes_ok']
DEPENDS = ['Py.v', 'Lang.v', 'Defs.v', 'Cond.v', 'Dsl.v', 'Check.v', 'DocSem.v', 'Inst.v', 'Gen/TablesGen.v', 'Gen/CallablesGen.v', 'Gen/SpecGen.v', 'Path.v', 'Cast.v', 'Str.v', 'SpecDefs.v', 'RuleDefs.v', 'Rule.v', 'Spec.v', 'SpecIO.v', 'Descr.v', 'Eq.v', 'RunSpec.v', 'SpecSpell.v', 'Proofs/Tie.v', 'Proofs/PyFacts.v', 'Proofs/C01Proof.v', 'Proofs/C02Proof.v', 'Proofs/RuleProof.v', 'Proofs/C03Proof.v', 'Proofs/C04Proof.v', 'RuleSpec.v', 'RuleTerms.v', 'PathSpec.v', 'RunRule.v', 'Run.v', 'Proofs/C19Proof.v', 'Properties/C19.v']
ASSUMPTIONS = ["the parser models fail the way the Python operations fail on arbitrary values (validated by correspondence)"]

ALLOWED = {"MalformedConditionLikeSpec", "MalformedDataPathSpec", "MalformedRuleSpec", "MalformedContainerItemSpec",
           "TypeError", "ValueError"}
JUNK = [None, 0, 1, -1, 2.5, "", "a", "value", "path", [], {}, [1], {"a": 1}, True, "and", "value.eq", {1: 2}, [[]], "int", "str"]


def allowed(kind, outcome, spec):
    if outcome[0] == "ok":
        return True
    if outcome[1] in ALLOWED:
        return True
    if outcome[1] == "KeyError" and kind in ("rule", "schema"):
        # a KeyError naming a missing mandatory rule field
        def missing(r):
            return isinstance(r, dict) and ("path" not in r or "condition" not in r)
        if kind == "rule":
            return missing(spec)
        return isinstance(spec, list) and any(missing(r) for r in spec)
    return False


# ---- definite errors ----------------------------------------------------------------------------------

def rename_key(d, old, new):
    return {(new if k == old else k): v for k, v in d.items()}


def inject_cond(g, spec):
    """[(label, bad spec)] for a well-formed single-leaf or binary condition spec."""
    out = []
    if not isinstance(spec, dict) or len(spec) != 1:
        return out
    (k, v), = spec.items()
    toks = k.split(".")
    if toks[0].lower() in ("value", "key", "index"):
        out.append(("unknown datum kind", {".".join(["valu"] + toks[1:]): v}))
        # an operator name where the datum kind goes (with a value of any shape, and with the list of conditions an operator takes)
        opn = g.r.choice(["and", "or", "xor", "AND", "Or"])
        out.append(("operator name as datum kind", {".".join([opn] + toks[1:]): v}))
        out.append(("operator name as datum kind", {".".join([opn] + toks[1:]): g.r.choice([[], [{"value.truthy": None}], [{k: v}, {}]])}))
        out.append(("unknown callable", {".".join(toks[:-1] + ["no_such_callable"]): v}))
        # names that only LOOK like known ones (non-ASCII letters that caseless folding would map onto ASCII): unknown
        look = g.r.choice([("le\u00df_than", "less_than"), ("key\u017f_contain", "keys_contain"), ("\ufb01rst", "first"), ("i\u017f_instance", "is_instance"),
                           ("fal\u017fy", "falsy"), ("in_\u017fet", "in_set")])
        out.append(("look-alike callable", {".".join(toks[:-1] + [look[0]]): v}))
        out.append(("look-alike datum kind", {".".join(["\u017fvalue"[1:] if False else "valu\u00e9"] + toks[1:]): v}))
        if len(toks) == 3 and toks[1].lower() in ("dtype", "type"):
            out.append(("look-alike type name", {k: g.r.choice(["\u017ftr", "li\u017ft", "\ufb02oat", "li\ufb06"])}))
        if toks[-1].lower() in ("is_instance", "keys_is_instance"):
            out.append(("look-alike type name", {k: ["int", g.r.choice(["\u017ftr", "li\u017ft", "\ufb02oat"])]}))
        if len(toks) == 3:
            out.append(("unknown pre-processor", {".".join([toks[0], "size", toks[2]]): v}))
            if toks[1].lower() in ("dtype", "type"):
                out.append(("unknown type name", {k: "integer"}))
        else:
            out.append(("unknown pre-processor", {".".join([toks[0], "size", toks[1]]): v}))
            out.append(("pre-processor without callable", {".".join([toks[0], "length"]): v}))
        out.append(("four tokens", {k + ".x": v}))
        # a malformed data-path spec as an ITEM of a list argument / a VALUE of a mapping argument
        if isinstance(v, list) and toks[-1].lower() not in ("is_instance", "keys_is_instance") and "type" not in [t.lower() for t in toks[1:-1]] \
                and "dtype" not in [t.lower() for t in toks[1:-1]]:
            out.append(("malformed path item", {k: list(v) + [{"path": [{"type": "map_valu"}]}]}))
            out.append(("malformed path item", {k: [{"path": 5}] + list(v)}))
            out.append(("malformed path item", {k: list(v) + [{"path": [None]}]}))
        if isinstance(v, dict) and v and toks[-1].lower() in ("in_range", "not_in_range", "equal_to_approx", "items_contain") \
                and not any(isinstance(x, str) and "\\path" in x for x in v):     # an escaped mapping is a literal: its values are not inspected
            kk = next(iter(v))
            out.append(("malformed path value", {k: dict(v, **{kk: {"path": [{"type": "list_valu"}]}})}))
        # a data-path argument (the argument itself, an item of a list argument, a value of a mapping argument) one of whose parts
        # holds a MALFORMED CONDITION: the path spec is recognised as one, so the error inside it is an error of the whole spec
        typed = toks[-1].lower() in ("is_instance", "keys_is_instance") or any(t.lower() in ("type", "dtype") for t in toks[1:-1])
        bad_part = g.r.choice([{"type": "map_value", "key": {"key.no_such_callable": 1}}, {"type": "list_value", "value": {"valu.equal_to": 1}},
                               {"type": "map_value", "value": {"value.equal_to": 1, "value.truthy": None}},
                               {"type": "map_value", "value": {"value.dtype.equal_to": "integer"}},
                               {"type": "list_value", "index": {"index.size.equal_to": 1}}, {"type": "map_value", "value": {"value.length": 2}}])
        bp = {"path": ["a", bad_part]}
        if not typed:
            if isinstance(v, list):
                out.append(("malformed condition in a path item", {k: list(v) + [copy.deepcopy(bp)]}))
            if isinstance(v, dict) and v and toks[-1].lower() in ("in_range", "not_in_range", "equal_to_approx", "items_contain") \
                    and not any(isinstance(x, str) and "path" in x for x in v):
                out.append(("malformed condition in a path value", {k: dict(v, **{next(iter(v)): copy.deepcopy(bp)})}))
            if toks[-1].lower() in ("equal_to", "not_equal_to", "eq", "less_than", "lt", "greater_than", "gt", "in", "in_", "not_in", "keys_contain"):
                out.append(("malformed condition in a path argument", {k: copy.deepcopy(bp)}))
        out.append(("several keys", dict(spec, **{("value.truthy" if "value.truthy" not in spec else "value.falsy"): None})))
        if toks[-1].lower() in ("is_instance", "keys_is_instance"):
            out.append(("unknown type name", {k: ["int", "integer"]}))
        if toks[-1].lower() in ("in_range", "not_in_range", "keys_contain_n_of"):
            out.append(("wrong argument shape", {k: 5}))
            out.append(("wrong arity", {k: [1]}))
            out.append(("unexpected keyword", {k: {"lower": 1, "upper": 2, "extra": 3}}))
        if toks[-1].lower() in ("is_instance", "keys_contain_any_of", "allowed_keys", "required_keys", "keys_equal_to"):
            out.append(("list required", {k: "a" if "instance" not in toks[-1].lower() else "int"}))
        if toks[-1].lower() == "items_contain":
            out.append(("mapping required", {k: [1, 2]}))
    elif k in ("and", "or", "xor"):
        out.append(("operator needs a list", {k: {"value.truthy": None}}))
        out.append(("several keys", dict(spec, **{"value.truthy": None})))
    return out


def inject_part(g, spec):
    out = []
    if isinstance(spec, dict):
        out.append(("unknown part type", dict(spec, type="set_value")))
        out.append(("unknown part argument", dict(spec, colour="red")))
        out.append(("value must be value-like", dict(spec, value={"key.equal_to": 1})))
        # arguments that a part of this type accepts but does not use are still specs: a malformed one is rejected
        bad = g.r.choice([{"value.nonsense": 1}, {"bogus.equal_to": 1}, {"and": 3}, {"value.equal_to": 1, "value.lt": 2}, {"value.dtype.equal_to": "complex"}, [1]])
        out.append(("malformed list_condition", dict(spec, list_condition=bad)))
        out.append(("malformed map_condition", dict(spec, map_condition=bad)))
        if spec.get("type") == "map_value":
            out.append(("key must be key-like", dict(spec, key={"value.equal_to": 1})))
            # the (well-formed) argument of ANOTHER kind of part: an argument unknown to this part type, in long and in short form
            out.append(("argument of another part type", dict(spec, index={"index.equal_to": 1})))
            out.append(("argument of another part type", dict(spec, **{"index.equal_to": 1})))
            out.append(("argument of another part type", dict(spec, **{g.r.choice(["index.lt", "INDEX.in", "index.gte"]): g.r.choice([1, [0, 1]])})))
        if spec.get("type") == "list_value":
            out.append(("argument of another part type", dict(spec, key={"key.equal_to": "a"})))
            out.append(("argument of another part type", dict(spec, **{"key.equal_to": "a"})))
            out.append(("argument of another part type", dict(spec, **{g.r.choice(["key.in", "KEY.length.lt", "key.dtype.equal_to"]): g.r.choice([["a"], 3, "str"])})))
    return out


def inject_path(g, spec):
    out = []
    if isinstance(spec, dict) and len(spec) == 1:
        (k, v), = spec.items()
        # an unknown suffix: not a method name, and not an internal name either (enum members, attributes, dunder names)
        bad = g.r.choice(["middle", "none", "NONE", "None", "datum", "multi", "value", "simplify", "parts", "get_data", "keys",
                          "__class__", "copy", "is_concrete", "datum_type", "multi_type", "container", "0", "", " first",
                          "\ufb01rst", "la\ufb06", "\u017fingle", "len\u0261th", "FIR\u017fT"])     # caseless look-alikes (casefold would fold them)
        out.append(("unknown suffix", {k + "." + bad: v} if k.count(".") < 2 else {"path." + bad: v}))
        out.append(("unknown suffix", {"path." + bad + ".first": v}))
        out.append(("several keys", dict(spec, other=[1])))
        out.append(("not a path key", {"route": v}))
        out.append(("too many suffixes", {"path.first.length.dtype": v}))
    return out


def inject_rule(g, spec):
    out = []
    if isinstance(spec, dict):
        for f in ("path", "condition"):
            out.append((f"missing {f}", {k: v for k, v in spec.items() if k != f}))
        out.append(("unknown cast type", dict(spec, cast={"str": "complex"})))
        out.append(("unknown cast-from type", dict(spec, cast={"text": "int"})))
        out.append(("unsupported cast", dict(spec, cast={"int": "str"})))
    return out


# ---- arbitrary structural mutation ----------------------------------------------------------------------

def mutate(g, x, depth=0):
    """One random structural mutation somewhere in x."""
    r = g.r
    sites = []

    def walk(node, path):
        sites.append(path)
        if isinstance(node, dict):
            for k in list(node.keys()):
                walk(node[k], path + [("v", k)])
        elif isinstance(node, list):
            for i in range(len(node)):
                walk(node[i], path + [("i", i)])
    walk(x, [])
    path = r.choice(sites)
    x = copy.deepcopy(x)

    def get(node, p):
        for kind, k in p:
            node = node[k]
        return node

    def put(p, val):
        nonlocal x
        if not p:
            x = val
            return
        parent = get(x, p[:-1])
        parent[p[-1][1]] = val
    target = get(x, path)
    k = r.random()
    if k < 0.3:
        put(path, copy.deepcopy(r.choice(JUNK)))                      # retype a node
    elif k < 0.45 and isinstance(target, dict) and target:
        key = r.choice(list(target.keys()))
        del target[key]                                               # drop a key
    elif k < 0.6 and isinstance(target, dict):
        target[r.choice(["x", "type", "value", "key", "path", "label", 1, None, "value.eq", "and"])] = copy.deepcopy(r.choice(JUNK))
    elif k < 0.7 and isinstance(target, dict) and target:
        key = r.choice(list(target.keys()))
        val = target.pop(key)
        nk = key
        if isinstance(key, str):
            nk = r.choice([key.upper(), key + ".x", key.split(".")[0], "." + key, key.replace(".", ".."), key.replace("_", ""), 5])
        target[nk] = val                                              # perturb a (dotted) key
    elif k < 0.8:
        put(path, [copy.deepcopy(target)])                            # wrap in a list
    elif k < 0.9 and isinstance(target, list) and target:
        put(path, copy.deepcopy(target[0]))                           # unwrap
    else:
        put(path, {"a": copy.deepcopy(target)} if r.random() < 0.5 else (copy.deepcopy(target), ))
    return x


def run(tier, seed, model_ok, spec_ok, replay=None):
    g = Gen(seed)
    cg = CondGen(g)
    pg = PathGen(cg)
    rg = RuleGen(cg)
    sg = SpecGen(g)
    v = valida()
    n = 250 if tier == "quick" else 8000
    cases, viol = [], []
    dist = Counter()
    parsers = {
        "condition": (lambda s: describe_cond(v.conditions.ConditionLike.from_spec(s)), "run_cond_from_spec"),
        "part": (lambda s: describe_part(v.datapath.ContainerValue.from_spec(s)), "run_part_from_spec"),
        "path": (lambda s: ("path", describe_path(r)) if not isinstance(r := v.DataPath.from_spec(s), dict) else ("literal", r), "run_path_from_spec"),
        "rule": (lambda s: (describe_rule(r := v.Rule.from_spec(s)), r.cast is not None, r.doc), "run_rule_from_spec"),
    }

    def try_case(kind, spec, label, must_reject):
        fn, runner = parsers[kind]
        out = E.run_outcome(lambda: fn(copy.deepcopy(spec)))
        dist[("inject:" if must_reject else "mutate:") + kind + ":" + (out[1] if out[0] == "exc" else "accepted")] += 1
        descr = {"kind": kind, "label": label, "spec": jval(spec) if okj(spec) else repr(spec)[:300],
                 "impl": out[0] + ":" + (out[1] if out[0] == "exc" else repr(out[1])[:200])}
        if must_reject and out[0] == "ok":
            viol.append(dict(descr, what=f"a spec with a definite error ({label}) was accepted"))
        elif not allowed(kind, out, spec):
            viol.append(dict(descr, what=f"rejected with an internal error class {out[1]}"))
        try:
            sc = E.enc_val(spec)
            impl = E.enc_res(out, Inert0())
        except E.Unencodable:
            return
        model = f"({runner} {sc})"
        descr["coq"] = model[:4000]
        cases.append(Case(descr, model, None, impl, out, out[0] == "exc", key=(kind, repr(spec)[:150])))

    for i in range(n):
        doc = g.document(3, 4)
        t = normalise_cond(cg.tree(doc, depth=g.r.choice([0, 0, 1, 2]), null_p=0.1))
        cs = sg.cond_spec(t)
        pt = normalise_path(limit_parts(pg.path(doc, max_len=3, mods_p=0.4)))
        pspec = sg.path_spec(pt)
        rt = rg.rule(doc, cast_p=0.5)
        normalise_cond(rt.cond)
        normalise_path(limit_parts(rt.path))
        rcs = sg.cond_spec(rt.cond)
        psx = [sg.part_spec(p) for p in rt.path.parts]
        rs = None
        if rcs is not None and not any(x is None and hasattr(p, "kw") for x, p in zip(psx, rt.path.parts)):
            rs = {"path": psx, "condition": rcs}
            if rt.cast:
                rs["cast"] = {"str": rt.cast[0]}
            if g.r.random() < 0.4:
                rs["doc"] = g.r.choice([" text ", {"description": "d", "examples": ["e"]}, ["a", "b"]])
        wf = []
        if cs is not None and cs:
            wf.append(("condition", cs, inject_cond))
        for part in pt.parts:
            ps = sg.part_spec(part)
            if isinstance(ps, dict):
                wf.append(("part", ps, inject_part))
        if pspec is not None:
            wf.append(("path", pspec, inject_path))
        if rs is not None:
            wf.append(("rule", rs, inject_rule))
        for kind, spec, inj in wf:
            # only inject into specs that are accepted as they are
            fn, _ = parsers[kind]
            if E.run_outcome(lambda: fn(copy.deepcopy(spec)))[0] != "ok":
                continue
            injected = inj(g, spec)
            if tier == "quick" and len(injected) > 4:
                injected = g.r.sample(injected, 4)       # every kind of injected error gets its share over the run
            for label, bad in injected[:20]:
                try_case(kind, bad, label, True)
            for _ in range(2 if tier == "quick" else 4):
                m = spec
                for _ in range(g.r.choice([1, 1, 2])):
                    m = mutate(g, m)
                try_case(kind, m, "mutation", False)
    k_bad, o_bad, nk, no, err = run_passes("c19", IMPORTS, cases, model_ok, spec_ok)
    total = sum(dist.values())
    res = {"evaluations": total, "k_cases": nk, "o_cases": total,
           "nontrivial": len({c.key for c in cases if c.nontrivial}),
           "rule": "well-formed condition / part / path / rule specs, each (a) with one injected definite error of the listed "
                   "classes (must be rejected with a Malformed* error, TypeError, ValueError or a KeyError naming the missing rule "
                   "field) and (b) with 1-2 arbitrary structural mutations (retype a node, drop / add / rename a key, wrap / unwrap "
                   "a list, perturb a dotted key: accepted or rejected with a listed class); outcome class compared with the "
                   "model's parser; non-trivial = rejected specs",
           "samples": [{k: v for k, v in c.descr.items() if k != "coq"} for c in cases[:3]],
           "k_mismatch": [cases[i].descr for i in k_bad], "o_violations": viol, "distribution": dict(dist)}
    if err:
        res["k_mismatch"] = res["k_mismatch"] or [{"coq-eval-error": err}]
    return res


def okj(x):
    try:
        jval(x)
        return True
    except Exception:
        return False


def matches_known(known, case):
    return False
