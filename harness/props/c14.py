"""C14: equality is an equivalence relation that implies identical behaviour."""
import copy
from collections import Counter

from .. import coqenc as E
from ..passes import Case, run_passes
from ..runner import jval
from ..valgen import Gen, copy_value, TYPES
from ..condgen import CondGen
from ..pathgen import PathGen
from ..rulegen import RuleGen
from ..ruleterms import RuleT, Tags, enc_arg1, obs_rule_test
from ..pathterms import PathT, Prim, MapT, ListT, MolT, lit, cnd
from ..terms import Leaf, Null, Bin, valida
from .c09 import IMPORTS

PROP = "C14"
THEOREMS = ["C14_value_eq_refl", "C14_value_eq_sym", "C14_value_eq_trans", "C14_condition_refl", "C14_condition_sym", "C14_condition_trans", "C14_condition_commute", "C14_path_equiv_refl", "C14_path_equiv_sym", "C14_path_equiv_trans", "C14_rule_equiv_refl", "C14_rule_equiv_sym", "C14_rule_equiv_trans", "C14_schema_equiv_refl", "C14_rebuilt_copies_equal", "C14_commuted_same_behaviour", "C14_commuted_same_fields", "C14_same_definition_same_filter", "C14_same_definition_equal", "C14_same_definition_same_verdict", "C14_same_definition_same_selection", "C14_eq_callables_see_only_equality",
            "C14_nested_refl", "C14_nested_sym", "C14_nested_trans", "C14_nested_commute"]
FACT_LEMMAS = []
DEPENDS = ["Eq.v", "Proofs/C14Proof.v", "Proofs/C14BehProof.v", "Proofs/PyFacts.v", "Proofs/Tie.v", "Proofs/C04Proof.v", "Properties/C14.v", "Py.v", "Rule.v", "Path.v", "Cond.v", "Dsl.v", "Inst.v", "RunSpec.v", "Gen/TablesGen.v", "Gen/CallablesGen.v", "Gen/SpecGen.v", "Spec.v", "SpecIO.v", "NestedArgs.v", "NestedIO.v", "RunNestedEq.v", "Proofs/C14NestedProof.v"]
ASSUMPTIONS = ["Layer P models CPython's operators (pysem)"]

SWAPS = [(1, 1.0), (1, True), (1.0, True), (0, False), (0, 0.0), (2, 2.0), ("a", "b"), (1, 2), ("1", 1), (None, 0), ([1], (1,))]


def change_value(g, v):
    for a, b in SWAPS:
        if type(v) is type(a) and v == a:
            return b
        if type(v) is type(b) and v == b:
            return a
    if isinstance(v, bool):
        return not v
    if isinstance(v, int):
        return g.r.choice([v + 1, float(v)])
    if isinstance(v, float):
        return v + 1.0
    if isinstance(v, str):
        return v + "x"
    if isinstance(v, list):
        return v + [0]
    if isinstance(v, type):
        return g.r.choice([t for t in TYPES if t is not v])
    if v is None:
        return 0
    return g.scalar()


def variant_cond(g, cg, t, doc):
    """(kind, y) where y is t rebuilt, commuted, or with one atom changed."""
    k = g.r.random()
    y = copy.deepcopy(t)
    if k < 0.25:
        return "rebuilt", y
    bins = []

    def walk(n):
        if isinstance(n, Bin):
            bins.append(n)
            walk(n.a)
            walk(n.b)
    walk(y)
    if k < 0.45 and bins:
        b = g.r.choice(bins)
        b.a, b.b = b.b, b.a
        return "commuted" + ("-top" if b is y else "-inner"), y
    leaves = y.leaves()
    if not leaves:
        return "rebuilt", y
    l = g.r.choice(leaves)
    with_paths = [x for x in leaves if any(isinstance(a, PathT) for a in x.args)]
    if with_paths and g.r.random() < 0.6:
        l = g.r.choice(with_paths)
    kk = g.r.random()
    pargs = [i for i, a in enumerate(l.args) if isinstance(a, PathT)]
    if pargs and g.r.random() < 0.7:
        # a data-path argument changed in a way that its text need not show: concreteness ('a' vs MapValue('a')), source data, a modifier
        i = g.r.choice(pargs)
        pa = copy.deepcopy(l.args[i])
        prims = [j for j, p in enumerate(pa.parts) if isinstance(p, Prim) and isinstance(p.v, str)]
        k2 = g.r.random()
        if prims and k2 < 0.45:
            j = g.r.choice(prims)
            pa.parts[j] = MapT(key=lit(pa.parts[j].v))
            what = "path-argument-concreteness-changed"
        elif k2 < 0.75:
            if pa.has_src:
                pa.src = {"a": 2} if pa.src != {"a": 2} else {"a": 1}
            else:
                pa.has_src, pa.src = True, {"a": 1}
            what = "path-argument-source-changed"
        else:
            pa.mods = [] if pa.mods else ["length"]
            what = "path-argument-modifier-changed"
        l.args[i] = pa
        return what, y
    if len(l.args) >= 2 and g.r.random() < 0.3:
        # the multiset and the order of positional arguments matter: (a, b) vs (a, b, b) vs (b, a)
        va = any(m == l.method and v for (m, _pk, v, _kw) in cg.methods[l.cls])
        if va and g.r.random() < 0.6:
            l.args.insert(g.r.randint(0, len(l.args)), copy.deepcopy(g.r.choice(l.args)))
            return "argument-duplicated", y
        i, j = g.r.sample(range(len(l.args)), 2)
        l.args[i], l.args[j] = l.args[j], l.args[i]
        return "arguments-swapped", y
    if kk < 0.5 and (l.args or l.kwargs):
        if l.args and (not l.kwargs or g.r.random() < 0.7):
            i = g.r.randrange(len(l.args))
            l.args[i] = change_value(g, l.args[i])
        else:
            key = g.r.choice(list(l.kwargs))
            l.kwargs[key] = change_value(g, l.kwargs[key])
        return "argument-changed", y
    if kk < 0.75:
        new = cg.leaf(doc, cls=l.cls)
        l.method, l.args, l.kwargs = new.method, new.args, new.kwargs
        return "callable-changed", y
    if bins and kk < 0.9:
        b = g.r.choice(bins)
        b.op = g.r.choice([o for o in ("and", "or", "xor") if o != b.op])
        return "operator-changed", y
    other = {"Value": "ValueLength", "ValueLength": "Value", "ValueDataType": "Value", "Key": "KeyLength", "KeyLength": "Key",
             "KeyDataType": "Key", "Index": "Index"}[l.cls]
    l.cls = other
    return "class-changed", y


def variant_path(g, pg, pt, doc):
    y = copy.deepcopy(pt)
    k = g.r.random()
    if k < 0.3 or not y.parts:
        return "rebuilt", y
    i = g.r.randrange(len(y.parts))
    p = y.parts[i]
    if isinstance(p, Prim):
        y.parts[i] = Prim(change_value(g, p.v)) if not isinstance(change_value(g, p.v), (list, tuple, type(None))) else Prim("zz")
        return "key-changed", y
    kk = g.r.random()
    if kk < 0.3:
        p.label = "other" if p.label != "other" else None
        return "label-changed", y
    if kk < 0.55:
        new = g.r.choice([c for c in (MapT, ListT, MolT) if not isinstance(p, c)])
        y.parts[i] = new(label=p.label)
        return "part-kind-changed", y
    args = [a for a in p.kw if p.kw[a] is not None]
    if args:
        a = g.r.choice(args)
        if p.kw[a].is_lit:
            p.kw[a] = lit(change_value(g, p.kw[a].lit))
        else:
            p.kw[a] = None
        return "part-argument-changed", y
    y.parts[i] = pg.part_for(doc)
    return "part-changed", y


def beh_cond(c, docs):
    return [E.run_outcome(lambda d=d: list(c.filter(copy_value(d)).result)) for d in docs] + \
        [E.run_outcome(lambda d=d: list(c.filter(copy_value(d), source_data=copy_value(d)).result)) for d in docs]   # data-path arguments resolved


def beh_path(p, docs):
    return [E.run_outcome(lambda d=d: p.get_data(copy_value(d), return_paths=True)) for d in docs]


def run(tier, seed, model_ok, spec_ok, replay=None):
    g = Gen(seed)
    cg = CondGen(g)
    pg = PathGen(cg)
    rg = RuleGen(cg)
    v = valida()
    n = 500 if tier == "quick" else 15000
    cases, viol = [], []
    dist = Counter()

    def range_flag(tx, ty):
        """Known finding D22: two conditions that differ only in the numeric type of a range bound."""
        try:
            for lx, ly in zip(tx.leaves(), ty.leaves()):
                if (lx.args, lx.kwargs) != (ly.args, ly.kwargs) or \
                        [type(a) for a in list(lx.args) + list(lx.kwargs.values())] != [type(a) for a in list(ly.args) + list(ly.kwargs.values())]:
                    if lx.method in ("in_range", "not_in_range") and ly.method == lx.method:
                        return ["range-bound-numeric-type"]
                    # the same for has_factor / factor_of: an int and the == float give different remainders on integers beyond 2**53
                    if lx.method in ("has_factor", "factor_of") and ly.method == lx.method and lx.cls == ly.cls:
                        ax, ay = list(lx.args) + list(lx.kwargs.values()), list(ly.args) + list(ly.kwargs.values())
                        if len(ax) == len(ay) == 1 and type(ax[0]) is not type(ay[0]) and all(isinstance(v, (bool, int, float)) for v in ax + ay) \
                                and ax[0] == ay[0]:
                            return ["factor-numeric-type"]
        except Exception:
            pass
        return []

    def check_pair(kind, what, x, y, xt, yt, model, beh, docs, terms=None):
        eq1 = E.run_outcome(lambda: bool(x == y))
        eq2 = E.run_outcome(lambda: bool(y == x))
        ne = E.run_outcome(lambda: bool(x != y))
        rx = E.run_outcome(lambda: bool(x == x))
        dist[f"{kind}:{what}:{'eq' if eq1 == ('ok', True) else 'ne'}"] += 1
        d = {"kind": kind, "variant": what, "x": xt[:300], "y": yt[:300]}
        if rx != ("ok", True):
            viol.append(dict(d, what_failed="not reflexive"))
        if eq1 != eq2:
            viol.append(dict(d, what_failed=f"not symmetric: {eq1} vs {eq2}"))
        if eq1[0] == "ok" and ne[0] == "ok" and eq1[1] == ne[1]:
            viol.append(dict(d, what_failed="== and != agree"))
        if what.startswith("rebuilt") and eq1 != ("ok", True):
            viol.append(dict(d, what_failed="a separately built copy of the same definition is not equal"))
        if what == "commuted-top" and eq1 != ("ok", True):
            viol.append(dict(d, what_failed="a combination with operands commuted is not equal"))
        if eq1 == ("ok", True):
            bx, by = beh(x, docs), beh(y, docs)
            if bx != by:
                flags = range_flag(*terms) if terms else []
                viol.append(dict(d, what_failed="equal objects behave differently", flags=flags, beh_x=repr(bx)[:200], beh_y=repr(by)[:200]))
        # equality is a relation on definitions: it must not depend on whether an object has been used
        try:
            beh(x, docs)
        except Exception:
            pass
        eq3 = E.run_outcome(lambda: bool(x == y))
        if eq3 != eq1:
            viol.append(dict(d, what_failed=f"equality changed after x was used: {eq1} then {eq3}"))
        if model:
            try:
                cases.append(Case(dict(d, impl=repr(eq1), coq=model[:5000]), model, None, E.enc_res(eq1), eq1, eq1 == ("ok", True),
                                  key=(kind, xt, yt)))
            except E.Unencodable:
                pass
        return eq1

    for i in range(n):
        doc = g.document(3, 4)
        docs = [doc if isinstance(doc, list) else g.container(2, 4, "list"), doc if isinstance(doc, dict) else g.container(2, 4, "dict")]
        # conditions
        t = cg.tree(doc, depth=g.r.choice([0, 0, 1, 2]), null_p=0.05)
        cdocs = docs
        if g.r.random() < 0.25:
            planted = copy_value(doc)
            cdocs = [planted]       # data-path arguments are judged on the document they were written for (a range bound picked up in an
                                    # unrelated document could be astronomically large: `x in range(lo, hi)` scans for a non-integer x)
            t = rg.with_path_arg(t, planted)      # conditions that look at other nodes through data paths
            # a condition that has been used compares equal to a freshly built one: the two then behave alike on the SAME source
            # object, also after the caller edited that object in between
            try:
                used, src = t.build(), copy_value(planted)
                items0 = copy_value(planted)
                used.filter(copy_value(items0), source_data=src)
                for key in (["_arg", "_item", "_arg2", "_item2"] if isinstance(src, dict) else [len(src) - 1]):
                    if isinstance(src, list) or key in src:
                        src[key] = change_value(g, src[key])
                a_ = E.run_outcome(lambda: list(used.filter(copy_value(items0), source_data=src).result))
                b_ = E.run_outcome(lambda: list(t.build().filter(copy_value(items0), source_data=src).result))
                dist["used-vs-fresh"] += 1
                if a_ != b_ and used == t.build():
                    viol.append({"kind": "condition", "variant": "used", "x": t.descr()[:300], "what_failed": "equal objects behave differently",
                                 "flags": [], "detail": "a condition used before the source document was edited vs a freshly built one",
                                 "beh_x": repr(a_)[:200], "beh_y": repr(b_)[:200]})
            except Exception:
                pass
        what, y = variant_cond(g, cg, t, doc)
        try:
            x_, y_ = t.build(), y.build()
            model = None
            try:
                model = f"(run_cond_eq {t.coq(enc_arg1(Tags()))} {y.coq(enc_arg1(Tags()))})"
            except E.Unencodable:
                pass
            e1 = check_pair("condition", what, x_, y_, t.descr(), y.descr(), model, beh_cond, cdocs, terms=(t, y))
            # transitivity with a third, rebuilt copy
            z_ = copy.deepcopy(y).build()
            if e1 == ("ok", True) and not (x_ == z_):
                viol.append({"kind": "condition", "what_failed": "not transitive", "x": t.descr()[:300]})
        except Exception:
            pass
        # paths
        pt = pg.path(doc, max_len=3, mods_p=0.3)
        what, py = variant_path(g, pg, pt, doc)
        try:
            x_, y_ = pt.build(), py.build()
            model = None
            try:
                model = f"(run_path_eq {pt.coq()} {py.coq()})"
            except E.Unencodable:
                pass
            check_pair("path", what, x_, y_, pt.descr(), py.descr(), model, beh_path, [doc, g.document(3, 4)])
        except Exception:
            pass
        # rules / schemas
        if i % 3 == 0:
            rt = rg.rule(doc, cast_p=0.4, path_args_p=0.3)
            ry = copy.deepcopy(rt)
            k = g.r.random()
            what = "rebuilt"
            if k < 0.3:
                ry.cast = [] if ry.cast else ["int"]
                what = "cast-changed"
            elif k < 0.5 and ry.cast:
                ry.cast = ["bool" if ry.cast[0] == "int" else "int"]
                what = "cast-changed"
            elif k < 0.7:
                what, ry.cond = variant_cond(g, cg, ry.cond, doc)
            elif k < 0.8 and not rt.cast:
                # cast={} next to cast=None (different objects for Rule.__eq__), or {} on both sides (equal)
                ry.empty_cast = True
                what = "cast-changed"
                if g.r.random() < 0.4:
                    rt.empty_cast = True
                    what = "rebuilt"
            try:
                x_, y_ = rt.build(), ry.build()
                model = None
                try:
                    model = f"(run_rule_eq {rt.coq(Tags())} {ry.coq(Tags())} {E.enc_bool(rt.cast_given())} {E.enc_bool(ry.cast_given())})"
                except E.Unencodable:
                    pass

                def beh_rule(r, ds):
                    return [E.run_outcome(lambda d=d: (obs_rule_test(t_ := r.test(copy_value(d))), t_.data.get_original())) for d in ds]
                check_pair("rule", what, x_, y_, rt.descr(), ry.descr(), model, beh_rule, [doc], terms=(rt.cond, ry.cond))
                s1, s2 = v.Schema([x_]), v.Schema([y_])
                e0 = (s1 == s2)
                if (x_ == y_) != e0:
                    viol.append({"kind": "schema", "what_failed": "schema equality differs from rule equality", "x": rt.descr()[:300]})
                E.run_outcome(lambda: s1.validate(copy_value(doc)))
                if (s1 == s2) != e0 or not (s1 == s1):
                    viol.append({"kind": "schema", "what_failed": "schema equality changed after one of the schemas validated a document",
                                 "x": rt.descr()[:300], "doc": jval(doc)})
                E.run_outcome(lambda: s2.validate(copy_value(doc)))
                if (s1 == s2) != e0:
                    viol.append({"kind": "schema", "what_failed": "schema equality changed after both schemas validated a document",
                                 "x": rt.descr()[:300], "doc": jval(doc)})
            except Exception:
                pass
        if i % 8 == 5:
            # two schemas holding the same rules in a different order, where the order is observable: rules of one path length are
            # applied in the given order on ONE copy, and the second rule looks (through a data-path argument) at the node the
            # first one casts.  If such schemas are ==, they must judge alike.
            from . import schema_common as sc
            k1, k2 = g.r.sample(["a", "b", "c", 1], 2)
            sval = g.r.choice(["5", "12", " 3 ", "0", "true"])
            sdoc = {k1: sval, k2: g.r.choice([5, 12, 3, 0, True, sval]), "z": [1]}
            ra = RuleT(PathT([Prim(k1)]), g.r.choice([Null(), Leaf("Value", "truthy", [])]), [g.r.choice(["int", "int", "bool"])])
            rb = RuleT(PathT([Prim(k2)]), Leaf("Value", g.r.choice(["equal_to", "not_equal_to", "in_"]),
                                               [PathT([Prim(k1)])] if g.r.random() < 0.7 else [[PathT([Prim(k1)]), "zz"]]),
                       [g.r.choice(["int", "bool"])] if g.r.random() < 0.7 else [])
            if rb.cond.method == "in_" and not isinstance(rb.cond.args[0], list):
                rb.cond.args = [[rb.cond.args[0], "zz"]]
            try:
                s1, s2 = v.Schema([ra.build(), rb.build()]), v.Schema([rb.build(), ra.build()])

                def beh_schema(sx, ds):
                    return [E.run_outcome(lambda d=d: sc.impl_validate_schema(sx, copy_value(d))) for d in ds]
                check_pair("schema", "rules-permuted", s1, s2, ra.descr()[:150] + " ; " + rb.descr()[:150],
                           rb.descr()[:150] + " ; " + ra.descr()[:150], None, beh_schema, [sdoc])
            except Exception:
                pass
    k_bad, o_bad, nk, no, err = run_passes("c14", IMPORTS, cases, model_ok, spec_ok)
    # conditions with data paths nested in a list / tuple / mapping argument: == of two separately built objects (NestedIO.condn_eqb)
    from ..nestedgen import nested_tree, NESTED_IMPORTS
    from .c17 import enc_narg
    ncases = []
    for _ in range(150 if tier == "quick" else 4000):
        doc = g.document(3, 4)
        ta = nested_tree(g, pg, doc, tuple_p=0.15, evaluated=True)
        tb = copy.deepcopy(ta)
        k = g.r.random()
        what = "rebuilt"
        if k < 0.25:
            l = g.r.choice(tb.leaves())
            a0 = l.args[0] if l.args else None
            if isinstance(a0, (list, tuple)) and a0:
                l.args[0] = tuple(a0) if isinstance(a0, list) else list(a0)
                what = "list<->tuple"
        elif k < 0.45:
            l = g.r.choice(tb.leaves())
            a0 = l.args[0] if l.args else None
            if isinstance(a0, list) and len(a0) > 1:
                l.args[0] = list(reversed(a0))
                what = "items-reversed"
            elif isinstance(a0, dict) and len(a0) > 1:
                l.args[0] = dict(reversed(list(a0.items())))
                what = "entries-reversed"
        elif k < 0.6 and isinstance(tb, Bin):
            tb.a, tb.b = tb.b, tb.a
            what = "commuted-top"
        try:
            xa, xb = ta.build(), tb.build()
        except Exception:
            continue
        o = E.run_outcome(lambda: bool(xa == xb))
        o2 = E.run_outcome(lambda: bool(xb == xa))
        dist[f"nested:{what}:{'eq' if o == ('ok', True) else 'ne'}"] += 1
        if o != o2:
            viol.append({"kind": "nested", "what_failed": f"not symmetric: {o} vs {o2}", "x": ta.descr()[:300], "y": tb.descr()[:300]})
        if what in ("rebuilt", "commuted-top", "entries-reversed") and o != ("ok", True):
            viol.append({"kind": "nested", "what_failed": f"{what}: separately built objects of one definition are not equal", "x": ta.descr()[:300], "y": tb.descr()[:300]})
        if o == ("ok", True):
            for d in (doc, g.document(2, 3)):
                ra = E.run_outcome(lambda: list(xa.filter(copy_value(d), source_data=copy_value(d)).result))
                rb = E.run_outcome(lambda: list(xb.filter(copy_value(d), source_data=copy_value(d)).result))
                if ra != rb:
                    viol.append({"kind": "nested", "what_failed": "equal objects behave differently", "flags": [], "x": ta.descr()[:300], "y": tb.descr()[:300], "doc": jval(d)})
                    break
        try:
            model = f"(run_condn_eq {ta.coq(enc_narg(Tags()))} {tb.coq(enc_narg(Tags()))})"
            if len(model) < 9000:
                ncases.append(Case({"kind": "nested", "variant": what, "x": ta.descr()[:300], "y": tb.descr()[:300], "impl": repr(o), "coq": model[:9000]},
                                   model, None, E.enc_res(o), o, o == ("ok", True), key=("nested", ta.descr()[:200], tb.descr()[:200])))
        except (E.Unencodable, Exception):
            pass
    nk_bad, _, nnk, _, nerr = run_passes("c14n", NESTED_IMPORTS, ncases, model_ok, False)
    k_bad = k_bad + [len(cases) + i for i in nk_bad]
    cases = cases + ncases
    nk += nnk
    err = err or nerr
    total = sum(dist.values())
    res = {"evaluations": total, "k_cases": nk, "o_cases": total,
           "nontrivial": len({c.key for c in cases if c.nontrivial}),
           "rule": "pairs (x, y) of conditions, paths and rules where y is x rebuilt, x with operands commuted (top or inner), or x "
                   "with one atom changed (an argument incl. 1 -> 1.0 -> True, a callable, an operator, a class, a key, a label, a "
                   "part kind, a cast); ==, != both ways, reflexivity, transitivity through a third copy, and behaviour on probe "
                   "documents whenever == holds; == also compared with the model; non-trivial = pairs that are equal",
           "samples": [{k: v for k, v in c.descr.items() if k != "coq"} for c in cases[:3]],
           "k_mismatch": [cases[i].descr for i in k_bad], "o_violations": viol, "distribution": dict(dist)}
    if err:
        res["k_mismatch"] = res["k_mismatch"] or [{"coq-eval-error": err}]
    return res


def matches_known(known, case):
    m = known.get("match", {})
    return bool(m) and m.get("what_failed") == case.get("what_failed") and m.get("flag") in case.get("flags", [])
