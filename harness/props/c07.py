"""C07: validation never raises because of what the document contains."""
from ..passes import run_passes
from ..runner import jval
from ..valgen import Gen, copy_value
from ..condgen import CondGen
from ..rulegen import RuleGen
from ..ruleterms import RuleT
from ..pathterms import PathT, Prim, MapT, ListT
from ..terms import Leaf
from . import schema_common as sc

PROP = "C07"
IMPORTS = sc.IMPORTS
THEOREMS = ['C07_total', 'C07_rule_total']
FACT_LEMMAS = ['Tie.tie_build', 'Tie.tie_call', 'C01Proof.caught_call_ok']
DEPENDS = ['Py.v', 'Lang.v', 'Defs.v', 'Cond.v', 'Dsl.v', 'Check.v', 'DocSem.v', 'Inst.v', 'Gen/TablesGen.v', 'Gen/CallablesGen.v', 'Proofs/Tie.v', 'Proofs/PyFacts.v', 'Proofs/C01Proof.v', 'Proofs/C02Proof.v', 'Path.v', 'PathSpec.v', 'Run.v', 'Proofs/C03Proof.v', 'Proofs/C04Proof.v', 'Cast.v', 'RuleDefs.v', 'RuleSpec.v', 'RuleTerms.v', 'Rule.v', 'RunRule.v', 'Proofs/RuleProof.v', 'Proofs/SchemaSpecProof.v', 'Properties/C07.v']
ASSUMPTIONS = ["Layer P models CPython's operators (pysem)",
               "the theorem is about the model's Err sites; a raise the model does not have is found only by the correspondence / oracle runs"]

NASTY = [0, 0.0, -0.0, None, "", [], {}, "%z", "100%", "%(k)s", "%d", "abc", " 3 ", "1_0", "true", "TRUE", "2.5", "é",
         2 ** 63 - 1, -1, 1e-8, [None], {None: None}, {"a": {}}, [[]], True, False, "%", "%c", "%s %s",
         # strings that a more lenient conversion than int() / the bool table might read (and choke on)
         "inf", "-inf", "Infinity", "nan", "1e999", "-1e400", "3.0", " +infinity ", "0x10"]
# (no non-ASCII digits: int("١٢") == 12 in CPython, and the model's int(str) is stated for ASCII text only - a thorough run
#  reported that difference as a violation of C07, a false alarm of the harness)


def nasty_doc(g, depth=3):
    def val(d):
        k = g.r.random()
        if d <= 0 or k < 0.5:
            return g.r.choice(NASTY) if g.r.random() < 0.7 else g.scalar()
        if k < 0.75:
            return [val(d - 1) for _ in range(g.r.randint(0, 4))]
        return {g.key(): val(d - 1) for _ in range(g.r.randint(0, 4))}
    while True:
        doc = val(depth) if g.r.random() < 0.5 else g.container(depth, 4)
        if isinstance(doc, (list, dict)) and doc:
            return doc


def welltyped_rule(g, rg, doc):
    """A value-kind rule whose condition arguments are of the kinds the callables expect."""
    rt = rg.rule(doc, cast_p=0.4)
    for l in rt.cond.leaves():
        m = l.method
        if m in ("factor_of", "has_factor"):
            l.args = [g.r.choice([1, 2, 3, 4, 6, -2, 12, 7, 2.0, 0.5])]
        elif m in ("in_range", "not_in_range"):
            lo = g.r.choice([0, 1, -3])
            l.args, l.kwargs = [lo, lo + g.r.choice([1, 3, 10])], {}
        elif m == "equal_to_approx":
            l.args, l.kwargs = [g.r.choice([1, 2.5, 0.0])], {}
        elif m in ("in_", "not_in"):
            l.args = [[g.scalar() for _ in range(3)]]
        elif m in ("is_instance", "keys_is_instance"):
            l.args = [g.r.choice([int, str, float, list, dict, bool]) for _ in range(g.r.randint(1, 2))]
        elif "N_of" in m:
            l.args, l.kwargs = [g.r.choice([0, 1, 2]), [g.key() for _ in range(3)]], {}
        elif m in ("keys_contain_at_least_one_of", "keys_contain_at_most_one_of"):
            l.args, l.kwargs = [[g.r.choice(["a", "b", 1]) for _ in range(2)]], {}
        elif m.startswith(("keys_", "allowed_", "required_", "forbidden_")):
            l.args = [g.r.choice(["a", "b", "c", 1, 2.5, None]) for _ in range(len(l.args) or 1)]
            if m == "keys_contain":
                l.args = l.args[:1]
        elif l.cls == "ValueLength" and m in ("less_than", "greater_than", "less_than_or_equal_to",
                                               "greater_than_or_equal_to", "lt", "gt", "lte", "gte", "equal_to", "eq"):
            l.args, l.kwargs = [g.r.choice([0, 1, 2, 3])], {}
        elif l.cls == "ValueDataType":
            if m in ("equal_to", "eq", "not_equal_to"):
                l.args, l.kwargs = [g.r.choice([int, str, list, dict])], {}
        if l.args and len(l.args) > 4:
            l.args = l.args[:4]
    if g.r.random() < 0.12:
        # an argument given as a data path (mostly with a datum modifier) into the same hostile document: whatever it finds there (nothing,
        # a node of the wrong type for the modifier) fails or skips the nodes, it never makes validation raise
        for l in rt.cond.leaves():
            if l.args and l.method in ("equal_to", "not_equal_to", "less_than", "greater_than", "less_than_or_equal_to", "greater_than_or_equal_to") \
                    and "DataType" not in l.cls:
                pa = rg.pg.path(doc, max_len=2, mods_p=0.0)
                pa.mods = [g.r.choice(["length", "map_keys", "map_values", "dtype", "length"])] if g.r.random() < 0.8 else []
                l.args = [pa]
                break
    return rt


def in_domain(rt):
    """arity must be right (the generator sometimes perturbs it)."""
    try:
        rt.build()
        return True
    except Exception:
        return False


def run(tier, seed, model_ok, spec_ok, replay=None):
    g = Gen(seed)
    rg = RuleGen(CondGen(g))
    rg.cg_wrong = 0
    n = 400 if tier == "quick" else 12000
    cases, direct = [], []
    spec_n = 0
    for i in range(n):
        doc = nasty_doc(g) if i % 2 == 0 else g.document(4, 4)
        k = g.r.choice([1, 1, 2, 3])
        rts = []
        for _ in range(k):
            rt = welltyped_rule(g, rg, doc)
            if in_domain(rt):
                rts.append(rt)
        # cast rules aimed at every position kind
        if g.r.random() < 0.3:
            rts.append(RuleT(PathT([g.r.choice([MapT(), ListT(), Prim("a"), Prim(0), Prim(1), Prim(True), Prim(2.5)]) for _ in
                                    range(g.r.randint(0, 2))]), Leaf("Value", "truthy"), [g.r.choice(["int", "bool"])]))
        if g.r.random() < 0.25:
            # the same kind of cast rule declared in a SPEC (cast types by name: the conversion functions come from the library's own
            # lookup table, not from the caller): validation of a hostile document must return, whichever function the table names
            parts = [g.r.choice([{"type": "map_value"}, {"type": "list_value"}, {"type": "map_or_list_value"}, "a", 0, 1])
                     for _ in range(g.r.randint(0, 2))]
            rs = {"path": parts, "condition": {"value.truthy": None} if g.r.random() < 0.5 else {"value.dtype.in": ["int", "bool", "str"]},
                  "cast": {"str": g.r.choice(["int", "bool"])}}
            v = sc.valida()

            def spec_route():
                return v.Schema([v.Rule.from_spec(copy_value(rs))]).validate(copy_value(doc)).is_valid
            from .. import coqenc as E
            o = E.run_outcome(spec_route)
            spec_n += 1
            if o[0] == "exc":
                direct.append({"kind": "direct", "what": f"Schema.validate raised {o[1]} (rule declared in a spec)", "schema": [repr(rs)[:300]],
                               "doc": jval(doc)})
        c = sc.make_case(rts, doc)
        if not c:
            continue
        cases.append(c)
        if c.outcome[0] == "exc":
            direct.append({"kind": "direct", "what": f"Schema.validate raised {c.outcome[1]}",
                           "schema": c.descr["schema"], "doc": c.descr["doc"]})
    k_bad, o_bad, nk, no, err = run_passes("c07", IMPORTS, cases, model_ok, spec_ok)
    return sc.summarise(cases, k_bad, o_bad, nk, no, err,
                        "schemas of 1-3 value-kind rules over the full callable set with well-typed, non-degenerate arguments "
                        "(40% with a str->int / str->bool cast), plus cast rules aimed at list / int / bool / float / empty-path "
                        "positions; documents alternate between a malformed stream (zeros, None, empty containers, %-strings, "
                        "uncastable strings, wrong types) and ordinary documents; any exception is a violation; "
                        "non-trivial = at least one failure reported", direct, 0)


def matches_known(known, case):
    return False
