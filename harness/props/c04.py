"""C04: reported concrete paths are truthful; path modifiers mean what they say."""
from .. import coqenc as E
from ..passes import run_passes
from ..runner import jval
from ..valgen import Gen, copy_value, type_exact_eq
from ..condgen import CondGen
from ..pathgen import PathGen, DT_MODS, MT_MODS
from ..pathterms import PathT
from ..terms import valida
from . import c03

PROP = "C04"
IMPORTS = c03.IMPORTS
THEOREMS = ["C04_model_is_spec", "C04_paths_truthful", "C04_paths_distinct", "C04_values_same", "C04_modifiers_commute",
            "C04_concrete_refuses_multi"]
FACT_LEMMAS = ["Tie.tie_build", "Tie.tie_call"]
DEPENDS = c03.DEPENDS + ["Properties/C04.v"]
ASSUMPTIONS = c03.ASSUMPTIONS + ["documents are well-formed Python values (dict keys hashable and pairwise distinct under ==)"]


def index_along(doc, path):
    for k in path:
        doc = doc[k]
    return doc


def direct(pt, doc):
    """Model-free oracle on the real implementation: every reported (value, path) re-indexes to that
    very value; paths are pairwise distinct; the result without paths is the same values in order;
    both orders of (datum, multiplicity) modifier give the same answer."""
    out = []
    base = PathT(pt.parts, [])
    try:
        p = base.build()
        with_paths = p.get_data(copy_value(doc), return_paths=True)
        without = p.get_data(copy_value(doc), return_paths=False)
    except Exception:
        return out, 0
    if with_paths is None or with_paths == []:
        if without != with_paths:
            out.append({"kind": "direct", "what": "empty selection differs with / without paths", "path": pt.descr()[:300], "doc": jval(doc)})
        return out, 1
    pairs = [with_paths] if not any(q.explicit for q in pt.parts) else with_paths
    vals = [without] if not any(q.explicit for q in pt.parts) else without
    seen = []
    for (v, cp), v2 in zip(pairs, vals):
        try:
            got = index_along(doc, cp)
        except Exception as e:
            got = ("<%s>" % type(e).__name__,)
        if not type_exact_eq(got, v) or not type_exact_eq(v, v2):
            out.append({"kind": "direct", "what": "a reported path does not lead to the reported value",
                        "path": pt.descr()[:300], "doc": jval(doc), "reported": repr((v, cp))[:200], "indexed": repr(got)[:200]})
        if cp in seen:
            out.append({"kind": "direct", "what": "a concrete path is reported twice", "path": pt.descr()[:300], "doc": jval(doc)})
        seen.append(cp)
    if len(pairs) != len(vals):
        out.append({"kind": "direct", "what": "different number of results with and without paths", "path": pt.descr()[:300], "doc": jval(doc)})
    return out, 1


def ctor_check(g, pt, doc):
    """The modifiers given through the CONSTRUCTOR (datum_type= / multi_type=, as enum member or raw value) mean what the modifier methods
    mean: on a concrete path a multiplicity modifier is refused by either route; otherwise the two paths are == and select the same."""
    v = valida()
    d = g.r.choice(DT_MODS + [None])
    m = g.r.choice(MT_MODS + ["any", None])
    if d is None and m is None:
        return []
    mods = [x for x in (d, m) if x is not None]
    kw = {}
    if d is not None:
        member = getattr(v.datapath.DataPathDatumType, d.upper())
        kw["datum_type"] = member if g.r.random() < 0.5 else member.value
    if m is not None:
        member = getattr(v.datapath.DataPathMultiType, m.upper())
        kw["multi_type"] = member if g.r.random() < 0.5 else member.value
    try:
        parts = PathT(pt.parts, []).build(parts_only=True)
    except Exception:
        return []
    by_method = E.run_outcome(lambda: PathT(pt.parts, mods).build())
    by_ctor = E.run_outcome(lambda: v.DataPath(*parts, **kw))
    if by_method[0] == "exc":
        if by_ctor[0] != "exc":
            return [{"kind": "direct", "what": f"modifiers {mods} are refused by the modifier methods ({by_method[1]}) but accepted through the constructor",
                     "path": pt.descr()[:300]}]
        return []
    if by_ctor[0] == "exc":
        return [{"kind": "direct", "what": f"modifiers {mods} are accepted by the modifier methods but refused through the constructor ({by_ctor[1]})",
                 "path": pt.descr()[:300]}]
    a = E.run_outcome(lambda: by_method[1].get_data(copy_value(doc), return_paths=True))
    b = E.run_outcome(lambda: by_ctor[1].get_data(copy_value(doc), return_paths=True))
    if a != b or not (by_method[1] == by_ctor[1]):
        return [{"kind": "direct", "what": f"modifiers {mods} given through the constructor differ from the modifier methods", "path": pt.descr()[:300],
                 "doc": jval(doc), "methods": repr(a)[:200], "constructor": repr(b)[:200]}]
    return []


def commute_check(g, pt, doc):
    d, m = g.r.choice(DT_MODS), g.r.choice(MT_MODS)
    res = []
    for mods in ([d, m], [m, d]):
        try:
            res.append(("ok", PathT(pt.parts, mods).build().get_data(copy_value(doc), return_paths=True)))
        except Exception as e:
            res.append(("exc", type(e).__name__))
    if res[0] != res[1]:
        return [{"kind": "direct", "what": f"modifier order matters: {d},{m}", "path": pt.descr()[:300], "doc": jval(doc),
                 "a": repr(res[0])[:200], "b": repr(res[1])[:200]}]
    return []


def derive_check(g, pt, doc):
    """The modifier methods return NEW paths: the path they are called on selects afterwards what it selected before (and what
    a freshly built one selects), and each derived path is the freshly built path with just that modifier."""
    def out(f):
        try:
            return ("ok", f())
        except Exception as e:
            return ("exc", type(e).__name__)
    base_t = PathT(pt.parts, [])
    try:
        base = base_t.build()
    except Exception:
        return []
    before = out(lambda: base.get_data(copy_value(doc), return_paths=True))
    derived = []
    for name in g.r.sample([g.r.choice(DT_MODS), g.r.choice(MT_MODS), g.r.choice(DT_MODS)], g.r.choice([1, 2, 3])):
        try:
            derived.append((name, getattr(base, name)()))
        except Exception:
            pass
    after = out(lambda: base.get_data(copy_value(doc), return_paths=True))
    fresh = out(lambda: base_t.build().get_data(copy_value(doc), return_paths=True))
    res = []
    if after != before or after != fresh:
        res.append({"kind": "direct", "what": "a path selects differently after paths with modifiers were derived from it (" +
                    ", ".join(n for n, _ in derived) + ")", "path": base_t.descr()[:300], "doc": jval(doc), "before": repr(before)[:200], "after": repr(after)[:200]})
    for name, dp in derived:
        a = out(lambda: dp.get_data(copy_value(doc), return_paths=True))
        b = out(lambda: PathT(pt.parts, [name]).build().get_data(copy_value(doc), return_paths=True))
        if a != b:
            res.append({"kind": "direct", "what": f"the path derived with .{name}() (among {[n for n, _ in derived]}) differs from the path built with that modifier",
                        "path": base_t.descr()[:300], "doc": jval(doc), "derived": repr(a)[:200], "built": repr(b)[:200]})
            break
    return res


def run(tier, seed, model_ok, spec_ok, replay=None):
    g = Gen(seed + 1000)
    pg = PathGen(CondGen(g))
    n = 600 if tier == "quick" else 20000
    cases, dviol, nd = [], [], 0
    for _ in range(n):
        doc = g.document(4, 4)
        if g.r.random() < 0.25:
            doc = g.share(doc)      # the same container object at several positions
        pt = pg.path(doc, mods_p=0.85)
        if g.r.random() < 0.08:
            doc, pt = pg.shared_doc_and_path(mods_p=0.85)
        elif g.r.random() < 0.06:
            doc, pt = pg.mixed_doc_and_path()
        elif g.r.random() < 0.06:
            doc, pt = pg.wide_doc_and_path()
        elif g.r.random() < 0.06:
            # one part object at several positions, over a homogeneous nest of mappings / lists with dead ends
            kind = g.r.choice(["dict", "list"])
            doc = g.container(4, 3, kind)
            doc, pt = pg.repeated_part_path(doc)
        if pt.mods and g.r.random() < 0.3:
            pt.warm = (copy_value(doc),)     # get_data is called on the path before the modifiers are applied to it
        entry = g.r.choice(["path_raw", "path_data", "data_get_path", "bound_source"])
        c = c03.make_case(pt, doc, entry, g.r.random() < 0.6)
        if c:
            cases.append(c)
        v, k = direct(pt, doc)
        dviol += v
        nd += k
        if g.r.random() < 0.3:
            dviol += commute_check(g, pt, doc)
            nd += 1
        if g.r.random() < 0.3:
            dviol += ctor_check(g, pt, doc)
            nd += 1
        if g.r.random() < 0.3:
            dviol += derive_check(g, pt, doc)
            nd += 1
    k_bad, o_bad, nk, no, err = run_passes("c04", IMPORTS, cases, model_ok, spec_ok)
    res = c03.summarise(cases, k_bad, o_bad, nk, no, err,
                        "document-guided paths (as C03) x datum modifier x multiplicity modifier in both application orders "
                        "(85% of paths carry modifiers) x entry points x return_paths; plus, on the real implementation, "
                        "re-indexing of the document along every reported path, distinctness of paths, equality of the "
                        "results with and without paths and equality of both modifier orders; non-trivial = selects >= 1 node")
    res["o_violations"] += dviol
    res["o_cases"] += nd
    res["evaluations"] += nd
    return res


def matches_known(known, case):
    return False
