"""Shared by C06 / C07 / C15 / C17: schema cases."""
from collections import Counter

from .. import coqenc as E
from ..passes import Case
from ..runner import jval
from ..valgen import copy_value, type_exact_eq
from ..ruleterms import obs_rule_test, Tags
from ..terms import valida

IMPORTS = "Py Lang Defs Cond Dsl Check DocSem PathSpec Path Cast RuleDefs RuleSpec Rule Inst Run RunRule"


def build_schema(rts):
    v = valida()
    return v.Schema([rt.build() for rt in rts])


def impl_validate(rts, doc):
    s = build_schema(rts)
    vd = s.validate(doc)
    return (vd.is_valid, vd.num_failures, vd.num_rules_tested, [obs_rule_test(t) for t in vd.rule_tests], vd.cast_data)


def impl_validate_schema(s, doc):
    vd = s.validate(copy_value(doc))
    return (vd.is_valid, vd.num_failures, vd.num_rules_tested, [obs_rule_test(t) for t in vd.rule_tests], vd.cast_data)


def impl_validate_schema_nocopy(s, doc):
    vd = s.validate(doc)
    return (vd.is_valid, vd.num_failures, vd.num_rules_tested, [obs_rule_test(t) for t in vd.rule_tests], vd.cast_data)


def schema_coq(rts):
    tags = Tags()
    return "[" + "; ".join(rt.coq(tags) for rt in rts) + "]"


def make_case(rts, doc, with_oracle=True, extra=None):
    outcome = E.run_outcome(lambda: impl_validate(rts, copy_value(doc)))
    try:
        docc = E.enc_val(doc)
        impl = E.enc_res(outcome, E.ObjTags())
        sc = schema_coq(rts)
    except E.Unencodable:
        return None
    if any(rt.cast for rt in rts) and "(APath " in sc:
        # the specification substitutes data-path arguments by what they select in the document as given; when rules cast, the
        # implementation (and the model) resolve them in the copy that holds the casts made so far: compared with the model only
        with_oracle = False
    model = f"(run_validate {sc} {docc})"
    oracle = f"(spec_validate_terms {sc} {docc})" if with_oracle else None
    nontrivial = outcome[0] == "ok" and outcome[1][1] > 0
    descr = {"schema": [rt.descr()[:300] for rt in rts], "doc": jval(doc),
             "impl": outcome[0] + ":" + repr(outcome[1])[:400], "coq": model[:6000]}
    if extra:
        descr.update(extra)
    return Case(descr, model, oracle, impl, outcome, nontrivial, key=(tuple(rt.descr() for rt in rts), repr(doc)[:60]))


def summarise(cases, k_bad, o_bad, nk, no, err, rule, direct=None, extra_eval=0):
    dist = Counter()
    for c in cases:
        if c.outcome[0] == "exc":
            dist["outcome:" + c.outcome[1]] += 1
        else:
            dist["valid" if c.outcome[1][0] else "invalid"] += 1
            dist["rules:%d" % len(c.outcome[1][3])] += 1
    res = {"evaluations": len(cases) + extra_eval, "k_cases": nk, "o_cases": no + extra_eval,
           "nontrivial": len({c.key for c in cases if c.nontrivial}), "rule": rule,
           "samples": [{k: v for k, v in c.descr.items() if k != "coq"} for c in cases[:2]],
           "k_mismatch": [cases[i].descr for i in k_bad],
           "o_violations": [cases[i].descr for i in o_bad] + list(direct or []),
           "distribution": dict(dist)}
    if err:
        res["k_mismatch"] = res["k_mismatch"] or [{"coq-eval-error": err}]
    return res
