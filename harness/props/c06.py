"""C06: schema verdict is the order-independent conjunction of its rules' verdicts."""
import itertools

from .. import coqenc as E
from ..passes import Case, run_passes
from ..runner import jval
from ..valgen import Gen, copy_value
from ..condgen import CondGen
from ..rulegen import RuleGen
from ..terms import valida, Leaf
from ..pathterms import PathT, Prim, ListT
from ..ruleterms import RuleT
from . import schema_common as sc

PROP = "C06"
IMPORTS = sc.IMPORTS
THEOREMS = ['C06_model_is_spec', 'C06_conj', 'C06_sorted', 'C06_perm', 'C06_report_names_every_failing_path', 'C06_report_when_valid',
            'C06_report_when_invalid', 'C06_report_blocks', 'C06_report_gives_every_reason']
FACT_LEMMAS = ['Tie.tie_build', 'Tie.tie_call', 'C01Proof.caught_call_ok']
DEPENDS = ['Py.v', 'Lang.v', 'Defs.v', 'Cond.v', 'Dsl.v', 'Check.v', 'DocSem.v', 'Inst.v', 'Gen/TablesGen.v', 'Gen/CallablesGen.v', 'Proofs/Tie.v', 'Proofs/PyFacts.v', 'Proofs/C01Proof.v', 'Proofs/C02Proof.v', 'Path.v', 'PathSpec.v', 'Run.v', 'Proofs/C03Proof.v', 'Proofs/C04Proof.v', 'Cast.v', 'RuleDefs.v', 'RuleSpec.v', 'RuleTerms.v', 'Rule.v', 'RunRule.v', 'Proofs/RuleProof.v', 'Proofs/SchemaSpecProof.v', 'Report.v', 'RunReport.v', 'Proofs/ReportProof.v', 'Properties/C06.v']
ASSUMPTIONS = ["Layer P models CPython's operators (pysem)",
               "the report text depends on repr(); only 'is a str' and 'names every failing path' are checked, by the harness"]


def report_case(vd, rep, descr):
    """Correspondence for the report text: the model (Report.v) assembles ValidatedData.get_failures_string() and every
    RuleTest.get_failures_string() from is_valid / tested and, per failure, repr(path), repr(value) and the reason lines."""
    try:
        rows = []
        for t in vd.rule_tests:
            fs = "[" + "; ".join("(" + E.enc_str(repr(f.path)) + ", " + E.enc_str(repr(f.value)) + ", [" +
                                 "; ".join(E.enc_str(x) for x in f.reasons) + "])" for f in t.failures) + "]"
            rows.append(f"({E.enc_bool(bool(t.is_valid))}, {E.enc_bool(bool(t.tested))}, {fs})")
        model = "(run_report [" + "; ".join(rows) + "])"
        out = ("ok", (rep, [t.get_failures_string() for t in vd.rule_tests]))
        if len(model) > 6000:
            return None
        return Case(dict(descr, kind="report", impl=repr(rep)[:300], coq=model[:6000]), model, None, E.enc_res(out), out,
                    not vd.is_valid, key=("report", model[:400]))
    except (E.Unencodable, Exception):
        return None


def direct_checks(rts, perms, doc, rcases=None):
    """Model-free oracle: aggregates and the set of (rule, failing path) pairs are the same in every
    permutation; Schema.rules is the stable sort by path length; the report is a str naming every path."""
    out = []
    ref = None
    for perm in perms:
        order = [rts[i] for i in perm]
        try:
            s = sc.build_schema(order)
        except Exception:
            return out
        lens = [len(r.path) for r in s.rules]
        built = [r for r in s.rules]
        if lens != sorted(lens):
            out.append({"kind": "direct", "what": "Schema.rules not sorted by path length", "perm": list(perm)})
        # stability: among equal lengths, given order
        want = sorted(range(len(order)), key=lambda i: len(order[i].path.parts))
        try:
            vd = s.validate(copy_value(doc))
        except Exception as e:  # reported by the K/O passes
            return out
        # a result keeps saying what it said, whatever the schema validates afterwards
        try:
            held = s.validate(copy_value(doc))
            said = (held.is_valid, held.num_failures, held.num_rules_tested, len(held.get_failures_string()))
            for other in (copy_value(doc), [None], {"__other__": 1}, [{"__other__": [1]}]):
                try:
                    s.validate(other)
                except Exception:
                    pass
            again = (held.is_valid, held.num_failures, held.num_rules_tested, len(held.get_failures_string()))
            if again != said:
                out.append({"kind": "direct", "what": f"a held validation result changed after the schema validated other documents: {said} -> {again}",
                            "perm": list(perm), "schema": [r.descr()[:200] for r in order], "doc": jval(doc)})
        except Exception:
            pass
        # the aggregates are read in every order on results of their own: what one of them says must not depend on which was read first
        reads = {}
        for order_ in (("num_rules_tested", "num_failures", "is_valid"), ("num_failures", "is_valid", "num_rules_tested"),
                       ("is_valid", "num_rules_tested", "num_failures")):
            try:
                vdx = s.validate(copy_value(doc))
                for nm in order_:
                    reads.setdefault(nm, set()).add(repr(getattr(vdx, nm)))
            except Exception:
                reads = {}
                break
        if any(len(vals) > 1 for vals in reads.values()):
            out.append({"kind": "direct", "what": "an aggregate of the result depends on the order in which the aggregates are read: "
                        + repr({k_: sorted(v_) for k_, v_ in reads.items()})[:200], "perm": list(perm),
                        "schema": [r.descr()[:200] for r in order], "doc": jval(doc)})
        pairs = sorted((want[j] if False else perm[want[j]], repr(tuple(f.path))) for j, t in enumerate(vd.rule_tests) for f in t.failures)
        agg = (vd.is_valid, vd.num_failures, vd.num_rules_tested, pairs)
        if vd.is_valid != all(t.is_valid for t in vd.rule_tests) or vd.num_failures != sum(len(t.failures) for t in vd.rule_tests) \
                or vd.num_rules_tested != sum(1 for t in vd.rule_tests if t.tested):
            out.append({"kind": "direct", "what": "aggregate is not the conjunction / sum of the rule verdicts", "perm": list(perm)})
        try:
            rep = vd.get_failures_string()
        except Exception as e:
            out.append({"kind": "direct", "what": f"get_failures_string() raised {type(e).__name__}", "perm": list(perm),
                        "schema": [r.descr()[:200] for r in order], "doc": jval(doc)})
            continue
        if not isinstance(rep, str):
            out.append({"kind": "direct", "what": f"get_failures_string() returned {type(rep).__name__}", "perm": list(perm),
                        "schema": [r.descr()[:200] for r in order], "doc": jval(doc)})
        else:
            if rcases is not None and perm == perms[0]:
                rc = report_case(vd, rep, {"schema": [r.descr()[:200] for r in order], "doc": jval(doc)})
                if rc:
                    rcases.append(rc)
            for t in vd.rule_tests:
                for f in t.failures:
                    if repr(f.path) not in rep:
                        out.append({"kind": "direct", "what": "report does not name failing path " + repr(f.path)})
        if ref is None:
            ref = agg
        elif agg != ref:
            out.append({"kind": "direct", "what": "verdict depends on the order of the rules", "perm": list(perm),
                        "schema": [r.descr()[:200] for r in rts], "doc": jval(doc), "ref": repr(ref)[:300], "got": repr(agg)[:300]})
    return out


HASH_EQUAL = [
    ({"a": [10, 20], "b": 3}, [("a", 1), ("a", 1.0), ("b",)]),
    ({"a": [10, 20]}, [("a", 1.0), ("a", 1)]),
    ({"a": {1: "x", "k": "y"}}, [("a", 1), ("a", True), ("a", 1.0)]),
    ([[1, 2], [3]], [(0, 1), (0, True), (0.0, 1)]),
    ({0: "z", "l": ["p"]}, [(0,), (False,), ("l", 0), ("l", 0.0)]),
]


# a shorter rule whose path is ABSENT next to a longer rule that exists and fails, the two paths differing only in the TYPE of a key
# that prints alike (1 / "1"): whether a rule is tested depends on its own path only
TYPED_PREFIX = [
    ({1: {"x": 5}}, [("1",), (1, "x")]),
    ({"1": {"x": 5}}, [(1,), ("1", "x")]),
    ({1.5: {"x": 5}, "k": 0}, [("1.5",), (1.5, "x"), ("k",)]),
    ({"a": {0: [7]}}, [("a", "0"), ("a", 0, 0)]),
    ({True: {"x": 5}}, [("True",), (True, "x")]),
    ({None: {"x": 5}, "None": 3}, [("none",), (None, "x"), ("None", "x")]),
]


def run(tier, seed, model_ok, spec_ok, replay=None):
    g = Gen(seed)
    rg = RuleGen(CondGen(g))
    n = 120 if tier == "quick" else 3000
    cases, direct, nperm = [], [], 0
    rcases = []
    for doc, paths in TYPED_PREFIX:
        rts = [RuleT(PathT([Prim(x) for x in p]), Leaf("Value", "is_instance", [str]), []) for p in paths]
        perms = list(itertools.permutations(range(len(rts))))
        for perm in perms:
            c = sc.make_case([rts[i] for i in perm], copy_value(doc))
            if c:
                cases.append(c)
        direct.extend(direct_checks(rts, perms, doc, rcases))
        nperm += len(perms)
    # rules whose concrete paths are equal as tuples / hash-equal but of different types must not share anything
    for doc, paths in HASH_EQUAL:
        rts = [RuleT(PathT([Prim(x) for x in p]), Leaf("Value", "is_instance", [int]), []) for p in paths]
        perms = list(itertools.permutations(range(len(rts))))
        for perm in perms:
            c = sc.make_case([rts[i] for i in perm], copy_value(doc))
            if c:
                cases.append(c)
        direct.extend(direct_checks(rts, perms, doc, rcases))
        nperm += len(perms)
    # rules that compare == yet judge differently (range bounds 0 / 0.0: known finding D22 of C14) are still two rules: each is judged on its own
    for doc, bounds in (({"a": [1, 2, 9], "b": 3}, [(0, 5), (0.0, 5)]), ({"a": [1, 2, 9]}, [(0.0, 5), (0, 5), (0, 5.0)])):
        rts = [RuleT(PathT([Prim("a"), ListT()]), Leaf("Value", "in_range", [lo, hi]), []) for lo, hi in bounds]
        perms = list(itertools.permutations(range(len(rts))))
        for perm in perms:
            c = sc.make_case([rts[i] for i in perm], copy_value(doc))
            if c:
                cases.append(c)
        direct.extend(direct_checks(rts, perms, doc, rcases))
        nperm += len(perms)
    for _ in range(n):
        doc = g.document(4, 4)
        k = g.r.choice([0, 1, 2, 2, 3, 3, 4, 5, 6] if tier == "quick" else [0, 1, 2, 3, 4, 5, 6, 8, 12])
        rts = rg.schema(doc, k, cast_p=0.0)
        k = len(rts)          # the generator may add a sibling rule (equal / hash-equal path)
        idx = list(range(k))
        if k <= 4:
            perms = list(itertools.permutations(idx))
            if len(perms) > 6 and tier == "quick":
                perms = [perms[0]] + g.r.sample(perms[1:], 5)
        else:
            perms = [tuple(idx)] + [tuple(g.r.sample(idx, k)) for _ in range(4)]
        for perm in perms[:3]:
            c = sc.make_case([rts[i] for i in perm], doc)
            if c:
                cases.append(c)
        direct.extend(direct_checks(rts, perms, doc, rcases))
        nperm += len(perms)
    k_bad, o_bad, nk, no, err = run_passes("c06", IMPORTS, cases, model_ok, spec_ok)
    res = sc.summarise(cases, k_bad, o_bad, nk, no, err,
                       "cast-free schemas of 0..6 (thorough: ..12) document-guided rules, each in all n! (n<=4) or 5 random "
                       "permutations; non-trivial = at least one failure; distinct by (rules, document); plus the text of "
                       "get_failures_string() (schema and every rule test) against the model's assembly (Report.v)", direct, nperm)
    rk_bad, _, rnk, _, rerr = run_passes("c06r", "Py Check Report RunReport", rcases, model_ok, False)
    res["k_cases"] += rnk
    res["evaluations"] += len(rcases)
    res["k_mismatch"] += [rcases[i].descr for i in rk_bad]
    res["distribution"]["reports"] = len(rcases)
    res["distribution"]["reports-of-invalid-data"] = sum(1 for c in rcases if c.nontrivial)
    if rerr and not res["k_mismatch"]:
        res["k_mismatch"] = [{"coq-eval-error": rerr}]
    return res


def matches_known(known, case):
    return False
