"""C08: validation is read-only: inputs and schema unchanged, results repeatable."""
import copy
import threading
from collections import Counter

from .. import coqenc as E
from ..runner import jval
from ..valgen import Gen, copy_value, type_exact_eq
from ..condgen import CondGen
from ..pathgen import PathGen
from ..rulegen import RuleGen
from ..ruleterms import obs_rule_test, RuleT
from ..terms import Leaf
from ..terms import valida
from ..trace import snap
from . import schema_common as sc

PROP = "C08"
THEOREMS = ["C08_inventory", "C08_summaries_checked", "C08_entries_summarised_read_only", "C08_analysis_sound",
            "C08_entry_points_read_only", "C08_writers"]
FACT_LEMMAS = ["C08_summaries_checked / C08_entries_summarised_read_only / C08_writers are closed computations on "
               "Gen/ReadOnlyGen.v (abstraction of the 141 functions reachable from the validation entry points)"]
DEPENDS = ["Taint.v", "Gen/ReadOnlyGen.v", "Proofs/TaintProof.v", "Proofs/C08Proof.v", "Properties/C08.v"]
SPEC_VO = ["Taint.vo"]
EXTRA_TRUST = ["harness/readonly.py: by-name call resolution, per-function summaries (re-checked in Coq), abstraction of call sites "
               "by the callee's summary, variable versions inside compound statements, the tables of builtin read-only / mutating "
               "methods and of dynamic call targets; callables.py functions are pure by the fragment accepted by the callable translator"]
ASSUMPTIONS = ["real thread schedules are not modelled: what is shown is that no shared object is written, from which "
               "schedule-independence follows for readers; an 8-thread run is part of the thorough oracle pass, as a test"]


def obs_fd(fd):
    return (list(fd.result), list(fd.data), list(fd.keys), list(fd.failure_indices))


def make_calls(g, cg, pg, rg, doc):
    """A pool of shared objects and the calls that use them: (label, builder-of-fresh-objects, call)."""
    v = valida()
    calls = []
    ct = cg.tree(doc, depth=g.r.choice([0, 1, 2]), null_p=0.1)
    pt = pg.path(doc, max_len=3, mods_p=0.2)
    if g.r.random() < 0.2:
        pt.has_src, pt.src = True, copy_value(doc)      # a path bound to its own source data (a plain container the caller keeps)
    rts = rg.schema(doc, g.r.randint(1, 3), cast_p=0.4, path_args_p=0.3)     # conditions that look at other nodes through data paths
    calls.append(("cond.filter", lambda: ct.build(), lambda o, d: obs_fd(o.filter(d))))
    calls.append(("Data.filter", lambda: ct.build(), lambda o, d: obs_fd(v.Data(d).filter(o))))
    calls.append(("path.get_data", lambda: pt.build(), lambda o, d: o.get_data(d, return_paths=True)))
    calls.append(("Data.get", lambda: pt.build(), lambda o, d: v.Data(d).get(o)))
    calls.append(("rule.test", lambda: rts[0].build(), lambda o, d: (obs_rule_test(t := o.test(d)), t.data.get_original())))
    calls.append(("schema.validate", lambda: sc.build_schema(rts), lambda o, d: sc.impl_validate_schema_nocopy(o, d)))
    return calls, {"cond": ct.descr()[:200], "path": pt.descr()[:200], "rules": [r.descr()[:200] for r in rts]}


def alias_cast_case(g):
    """A document in which ONE container object sits at several positions, and a cast rule whose path fans out over all of them
    down to castable strings two or more levels deep: the second visit of the shared container finds it already cast in the
    private copy; whatever bookkeeping tells private from caller-owned containers must not let a write through to the caller."""
    from ..pathterms import PathT, Prim, MapT, ListT
    r = g.r
    leafs = lambda: r.choice(["3", "1", "0", "true", "no", "12", "x", 5, None])
    if r.random() < 0.5:
        shared = {k: leafs() for k in r.sample(["p", "q", "r", 1], r.randint(1, 3))}
        inner = MapT()
    else:
        shared = [leafs() for _ in range(r.randint(1, 3))]
        inner = ListT()
    if r.random() < 0.3:
        shared = {"deep": shared} if r.random() < 0.5 else [shared, shared]
        inner2 = [MapT() if isinstance(shared, dict) else ListT(), inner]
    else:
        inner2 = [inner]
    if r.random() < 0.5:
        doc = {k: shared for k in r.sample(["a", "b", "c"], r.randint(2, 3))}
        doc["other"] = leafs()
        outer = MapT()
    else:
        doc = [shared] * r.randint(2, 3) + [leafs()]
        outer = ListT()
    cast = [r.choice(["int", "bool"])]
    cond = Leaf("Value", r.choice(["truthy", "falsy"]), []) if r.random() < 0.5 else Leaf("ValueDataType", "in_", [[int, bool, str]])
    rts = [RuleT(PathT([outer] + inner2), cond, cast)]
    if r.random() < 0.5:
        rts.append(RuleT(PathT([outer]), Leaf("ValueLength", "greater_than", [0]), []))
    v = valida()

    def grafted():
        # a schema without casts into which a schema WITH casts is added afterwards (under the empty root): what a schema needs to
        # know about its rules must hold for the rules it has when it validates, not for those it was built with
        s0 = v.Schema([x.build() for x in rts if not x.cast])
        s0.add_schema(v.Schema([x.build() for x in rts if x.cast]), v.DataPath())
        return s0
    calls = [("rule.test", lambda: rts[0].build(), lambda o, d: (obs_rule_test(t := o.test(d)), t.data.get_original())),
             ("schema.validate", lambda: sc.build_schema(rts), lambda o, d: sc.impl_validate_schema_nocopy(o, d)),
             ("schema(iterator).validate", lambda: v.Schema(iter([x.build() for x in rts])), lambda o, d: sc.impl_validate_schema_nocopy(o, d)),
             ("schema(add_schema).validate", grafted, lambda o, d: sc.impl_validate_schema_nocopy(o, d))]
    return doc, calls, {"rules": [x.descr()[:200] for x in rts], "shared-container": True}


def profiled(executed, fn):
    """Run fn() recording every function of the valida package that is entered."""
    import os
    import sys

    def prof(frame, event, arg):
        if event == "call":
            co = frame.f_code
            f = co.co_filename
            if f.endswith(".py") and os.sep + "valida" + os.sep in f:
                q = co.co_qualname.split(".<locals>")[0]
                if not q.startswith("<"):
                    executed.add(os.path.basename(f)[:-3] + "." + q)
    old = sys.getprofile()
    sys.setprofile(prof)
    try:
        return fn()
    finally:
        sys.setprofile(old)


def run(tier, seed, model_ok, spec_ok, replay=None):
    executed = set()
    g = Gen(seed)
    cg = CondGen(g)
    pg = PathGen(cg)
    rg = RuleGen(cg)
    n = 120 if tier == "quick" else 3000
    hist_len = 8 if tier == "quick" else 20
    viol = []
    dist = Counter()
    for i in range(n):
        doc = sc_doc(g, i)
        other = g.document(3, 4)
        calls, descr = make_calls(g, cg, pg, rg, doc)
        if i % 10 in (3, 7):
            doc, calls, descr = alias_cast_case(g)
            dist["shared-container documents with fan-out cast rules"] += 1
        shared = {}
        for label, build, _ in calls:
            try:
                shared[label] = build()
            except Exception:
                shared[label] = None
        docs = [doc, other]
        pristine = [copy_value(d) for d in docs]
        aliased = [copy.deepcopy(d) for d in docs]       # keeps the sharing of sub-containers (copy_value unfolds it)
        for step in range(hist_len):
            label, build, call = g.r.choice(calls)
            obj = shared[label]
            if obj is None:
                continue
            di = g.r.randrange(2)
            before_objs = snap(tuple(shared.values()))
            before_doc_ids = snap(docs[di])
            out = E.run_outcome(lambda: profiled(executed, lambda: call(obj, docs[di])))
            dist[label + ":" + ("ok" if out[0] == "ok" else out[1])] += 1
            d = dict(descr, call=label, step=step, doc=jval(pristine[di]))
            if snap(tuple(shared.values())) != before_objs:
                viol.append(dict(d, kind="direct", what="a schema / rule / condition / path object was modified by the call"))
                break
            if snap(docs[di]) != before_doc_ids or not type_exact_eq(docs[di], pristine[di]):
                viol.append(dict(d, kind="direct", what="the caller's document was modified by the call"))
                break
            try:
                fresh = E.run_outcome(lambda: call(build(), copy.deepcopy(aliased[di])))
            except Exception:
                continue
            if fresh != out:
                viol.append(dict(d, kind="direct", what="result differs from the same call on freshly built objects",
                                 got=repr(out)[:200], fresh=repr(fresh)[:200]))
                break
        # threads: one schema, several documents, results independent of interleaving (thorough only)
        if tier == "thorough" and i % 50 == 0 and shared.get("schema.validate") is not None:
            s = shared["schema.validate"]
            ds = [copy_value(pristine[k % 2]) for k in range(8)]
            want = [E.run_outcome(lambda k=k: sc.impl_validate_schema_nocopy(s, copy_value(ds[k]))) for k in range(8)]
            got = [None] * 8

            def work(k):
                got[k] = E.run_outcome(lambda: sc.impl_validate_schema_nocopy(s, ds[k]))
            ts = [threading.Thread(target=work, args=(k,)) for k in range(8)]
            [t.start() for t in ts]
            [t.join() for t in ts]
            dist["threaded"] += 8
            if got != want:
                viol.append(dict(descr, kind="direct", what="results under 8 threads differ from the sequential ones"))
    # the call graph behind the proof: every function of valida that these calls actually executed must be one the
    # read-only analysis examined (its by-name resolution of calls, dynamic call targets included, is thereby cross-checked)
    try:
        from .. import readonly
        _prog, _levels, reach, _bodies = readonly.analyse()
        analysed = {k.replace(".setter", "") for k in reach} | set(readonly.EXEMPT)
        missing = sorted(f for f in executed if f.split(".")[0] in readonly.MODULES and f not in analysed)
        dist["functions-executed"] = len(executed)
        if missing:
            viol.append({"kind": "direct", "what": "validation executed functions the read-only analysis did not examine (call graph "
                                                   "incomplete): " + ", ".join(missing[:12])})
    except readonly.Refused:
        pass      # reported as a broken tie by the translator step
    total = sum(v for k, v in dist.items() if k != "functions-executed")
    return {"evaluations": total, "k_cases": 0, "o_cases": total, "nontrivial": sum(c for k, c in dist.items() if k.endswith(":ok")),
            "rule": "histories of 8 (thorough: 20) calls drawn from cond.filter / Data.filter / path.get_data / Data.get / rule.test / "
                    "schema.validate (40% of rules with casts) over ONE pool of shared condition, path, rule and schema objects and "
                    "two shared documents; before / after every call an identity-aware snapshot of the whole object graph and of "
                    "the document; every result compared with the same call on freshly built objects and a fresh document copy; "
                    "non-trivial = calls that returned",
            "samples": [], "k_mismatch": [], "o_violations": viol, "distribution": dict(dist)}


def sc_doc(g, i):
    from .c15 import cast_doc
    if i % 5 == 4:
        # the same list / mapping OBJECT at several positions (YAML anchors and aliases, one defaults mapping used for several
        # entries): a cast reaches it through each of them, and must still be written into the private copy only
        return g.share(cast_doc(g, 4), times=g.r.randint(1, 3))
    return cast_doc(g, 3) if i % 2 else g.document(4, 4)


def matches_known(known, case):
    return False
