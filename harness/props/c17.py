"""C17: a data-path argument means the value at that path in the validated document."""
import copy

from .. import coqenc as E
from ..passes import Case, run_passes
from ..runner import jval
from ..valgen import Gen, copy_value, twin_all
from ..condgen import CondGen
from ..rulegen import RuleGen
from ..ruleterms import RuleT, obs_rule_test, Tags, enc_arg1
from ..pathterms import PathT, Prim, ListT
from ..terms import Leaf, Bin, Null
from . import c05

PROP = "C17"
IMPORTS = c05.IMPORTS + " RuleTerms NestedArgs"
THEOREMS = ['C17_subst', 'C17_rule_verdict', 'C17_rule_verdict_with_casts', 'C17_unresolvable_fails', 'C17_resolution_caught',
            'C17_nested_extends', 'C17_nested_resolution', 'C17_nested_subst', 'C17_nested_rule_verdict', 'C17_nested_rule_verdict_with_casts',
            'C17_nested_unresolvable_fails']
FACT_LEMMAS = ['C17Proof.C17_resolution_errors_caught']
DEPENDS = ['Py.v', 'Lang.v', 'Defs.v', 'Cond.v', 'Dsl.v', 'Check.v', 'DocSem.v', 'Inst.v', 'Gen/TablesGen.v', 'Gen/CallablesGen.v', 'Gen/SpecGen.v', 'Path.v', 'Cast.v', 'Str.v', 'SpecDefs.v', 'RuleDefs.v', 'Rule.v', 'Spec.v', 'SpecIO.v', 'Descr.v', 'Eq.v', 'RunSpec.v', 'SpecSpell.v', 'Proofs/Tie.v', 'Proofs/PyFacts.v', 'Proofs/C01Proof.v', 'Proofs/C02Proof.v', 'Proofs/RuleProof.v', 'Proofs/C03Proof.v', 'Proofs/C04Proof.v', 'RuleSpec.v', 'RuleTerms.v', 'PathSpec.v', 'RunRule.v', 'Run.v', 'C17Defs.v', 'Proofs/C17Proof.v', 'NestedArgs.v', 'Proofs/C17NestedProof.v', 'Properties/C17.v']
ASSUMPTIONS = ["Layer P models CPython's operators (pysem)"]


def substitute(cond, doc):
    """The same condition with every path argument replaced by what the path selects; None if a path cannot be resolved."""
    if isinstance(cond, Null):
        return cond
    if isinstance(cond, Bin):
        a, b = substitute(cond.a, doc), substitute(cond.b, doc)
        return None if a is None or b is None else Bin(cond.op, a, b)
    def res(a):
        if isinstance(a, PathT):
            return a.build().get_data(copy_value(doc), return_paths=False)
        if isinstance(a, list) and any(isinstance(x, PathT) for x in a):
            return [res(x) if isinstance(x, PathT) else x for x in a]
        if isinstance(a, tuple) and any(isinstance(x, PathT) for x in a):
            return tuple(res(x) if isinstance(x, PathT) else x for x in a)     # a tuple argument stays a tuple
        if isinstance(a, dict) and any(isinstance(x, PathT) for x in a.values()):
            return {k: (res(x) if isinstance(x, PathT) else x) for k, x in a.items()}
        return a
    try:
        return Leaf(cond.cls, cond.method, [res(a) for a in cond.args], {k: res(a) for k, a in cond.kwargs.items()})
    except Exception:
        return None


CASTS_N = {"bool": "(TStr, CastStrBool)", "int": "(TStr, CastStrInt)"}


def enc_narg(tags):
    """An argument as a term of NestedArgs.narg: a literal or a path (NA), a list / tuple with path items (NItems), a mapping with
    path values (NDict)."""
    a1 = enc_arg1(tags)

    def enc(a):
        if isinstance(a, (list, tuple)) and any(isinstance(x, PathT) for x in a):
            return f"(NItems {E.enc_bool(isinstance(a, tuple))} [" + "; ".join(a1(x) for x in a) + "])"
        if isinstance(a, dict) and any(isinstance(x, PathT) for x in a.values()):
            return "(NDict [" + "; ".join(f"({E.enc_val(k)}, {a1(x)})" for k, x in a.items()) + "])"
        return f"(NA {a1(a)})"
    return enc


def nested_case(rt, doc):
    """A rule with a data path inside a list / mapping argument, against NestedArgs.run_rule_test_n."""
    outcome = E.run_outcome(lambda: c05.impl_rule_test(rt, copy_value(doc)))
    try:
        tags = Tags()
        casts = "[" + "; ".join(CASTS_N[c] for c in rt.cast[:1]) + "]"
        rc = f"{{| rtn_path := {rt.path.coq()}; rtn_cond := {rt.cond.coq(enc_narg(tags))}; rtn_cast := {casts} |}}"
        model = f"(run_rule_test_n {rc} {E.enc_val(doc)})"
        impl = E.enc_res(outcome, E.ObjTags())
    except E.Unencodable:
        return None
    nontrivial = outcome[0] == "ok" and outcome[1][0][1] and not outcome[1][0][0]
    return Case({"rule": rt.descr()[:500], "doc": jval(doc), "nested": True, "impl": outcome[0] + ":" + repr(outcome[1])[:400], "coq": model[:4000]},
                model, None, impl, outcome, nontrivial, key=(rt.descr(), repr(doc)[:60]))


def container_arg_rule(g, rg, doc):
    """A rule comparing a list node of the document with an argument that holds the same items, one of them given as a data path to
    that very item: as a LIST the resolved argument equals the node, as a TUPLE it never does (the container kind of an argument is
    kept when its path items are resolved)."""
    lists = []

    def walk(v, path):
        if isinstance(v, list) and v and all(isinstance(x, (bool, int, float, str)) or x is None for x in v) and path:
            lists.append((path, v))
        if isinstance(v, (list, dict)) and len(path) < 3:
            for k, x in (enumerate(v) if isinstance(v, list) else v.items()):
                if isinstance(k, (str, int)) and not isinstance(k, bool):
                    walk(x, path + (k,))
    walk(doc, ())
    if not lists:
        return None
    path, node = g.r.choice(lists)
    i = g.r.randrange(len(node))
    items = [copy_value(x) for x in node]
    items[i] = PathT([Prim(k) for k in path] + [Prim(i)])
    arg = tuple(items) if g.r.random() < 0.6 else items
    cond = Leaf("Value", g.r.choice(["equal_to", "not_equal_to"]), [arg])
    if g.r.random() < 0.3:
        cond = Bin(g.r.choice(["and", "or"]), rg.rule(doc).cond, cond)
    return RuleT(PathT([Prim(k) for k in path]), cond, [])


def escaped_spec_check(g, direct):
    """A literal mapping argument written in a spec with the escaped key '\\path' is compared literally: the rule parsed from the spec
    judges like the rule built with the literal mapping (keys of any type, in any order, in the three positions from_spec looks at)."""
    from ..terms import valida
    v = valida()
    keys = g.r.sample([1, None, 2.5, True, "n", "name", 0], g.r.randint(0, 2)) + [g.r.choice(["path", "path.len", "my_path", "xpath"])]
    g.r.shuffle(keys)
    m = {k: g.r.choice([["a"], 1, "x", None]) for k in keys}
    esc = {(k.replace("path", "\\path") if isinstance(k, str) else k): x for k, x in m.items()}
    doc = {"cfg": copy_value(m), "other": {"n": 1}, "lst": [copy_value(m), 1]}
    pos = g.r.choice(["whole", "item", "value"])
    if pos == "whole":
        lit, sp = m, esc
    elif pos == "item":
        lit, sp = [m, 7], [esc, 7]
    else:
        lit, sp = {"k": m, "j": 1}, {"k": esc, "j": 1}
    meth = g.r.choice(["equal_to", "not_equal_to"]) if pos != "item" else g.r.choice(["in_", "not_in"])
    path_parts = g.r.choice([["cfg"], [{"type": "map_value"}], ["lst", 0]])

    def api():
        r = v.Rule(path=v.DataPath.from_part_specs(*copy.deepcopy(path_parts)), condition=getattr(v.Value, meth)(copy.deepcopy(lit)))
        t = r.test(copy_value(doc))
        return obs_rule_test(t)

    def spec():
        r = v.Rule.from_spec({"path": copy.deepcopy(path_parts), "condition": {"value." + meth.rstrip("_"): copy.deepcopy(sp)}})
        t = r.test(copy_value(doc))
        return obs_rule_test(t)
    a, b = E.run_outcome(api), E.run_outcome(spec)
    if a != b:
        direct.append({"kind": "direct", "what": "a rule whose literal mapping argument is written with escaped keys in the spec judges differently from "
                       "the rule built with the literal mapping", "mapping": repr(m)[:200], "position": pos, "callable": meth,
                       "api": repr(a)[:200], "spec": repr(b)[:200]})
    return 1


def path_spec_check(g, direct):
    """A data-path argument written as a '{path...: parts}' spec (suffixes and their short forms in any letter case, either order) means
    what the path object means: the rule parsed from the spec judges like the rule built with DataPath(...).modifier()."""
    from ..terms import valida
    v = valida()
    doc = {"items": [1, 2, 3], "n": 3, "limit": 2, "names": {"a": 1, "b": 2}}
    base, parts = g.r.choice([("items", ["items"]), ("names", ["names"]), ("limit", ["limit"])])
    dmod = g.r.choice([None, "length", "dtype", "map_keys"]) if base != "limit" else g.r.choice([None, "dtype"])
    spell = {"length": ["length", "len"], "dtype": ["dtype", "type"], "map_keys": ["map_keys"]}

    def randcase(t):
        return "".join(ch.upper() if g.r.random() < 0.5 else ch.lower() for ch in t)
    key = randcase("path") + ("." + randcase(g.r.choice(spell[dmod])) if dmod else "")
    meth, lit_other = g.r.choice([("equal_to", None), ("not_equal_to", None), ("less_than", None), ("in", 7)])
    pos = g.r.choice(["whole", "item"]) if meth == "in" else "whole"
    spec_arg = {key: list(parts)}
    p = v.DataPath(*parts)
    if dmod:
        p = getattr(p, dmod)()
    if meth == "in":
        spec_arg, api_arg = [spec_arg, lit_other], [p, lit_other]
    else:
        api_arg = p
    target = g.r.choice([["n"], ["items", {"type": "list_value"}]])

    def api():
        r = v.Rule(path=v.DataPath.from_part_specs(*copy.deepcopy(target)), condition=getattr(v.Value, "in_" if meth == "in" else meth)(api_arg))
        return obs_rule_test(r.test(copy_value(doc)))

    def spec():
        r = v.Rule.from_spec({"path": copy.deepcopy(target), "condition": {"value." + meth: copy.deepcopy(spec_arg)}})
        return obs_rule_test(r.test(copy_value(doc)))
    a, b = E.run_outcome(api), E.run_outcome(spec)
    if a != b:
        direct.append({"kind": "direct", "what": "a rule whose data-path argument is written as a spec judges differently from the rule built with the path object",
                       "spec_argument": repr(spec_arg)[:200], "callable": meth, "api": repr(a)[:200], "spec": repr(b)[:200]})
    return 1


def type_sensitive_rule(g, rg, doc):
    """A rule whose verdict depends on the TYPE of what its path argument selects (the data type of a number, a range bound):
    a number in the document is referred to by a concrete path."""
    nums = []

    def walk(v, path):
        if isinstance(v, (bool, int, float)) and v == v and abs(v) < 2 ** 40:
            nums.append((path, v))
        elif isinstance(v, (list, dict)) and len(path) < 3:
            for k, x in (enumerate(v) if isinstance(v, list) else v.items()):
                if isinstance(k, (str, int)) and not isinstance(k, bool):
                    walk(x, path + (k,))
    walk(doc, ())
    if not nums:
        return None
    path, val = g.r.choice(nums)
    base = rg.rule(doc, cast_p=0.0)
    k = g.r.random()
    if k < 0.5:
        cond = Leaf("ValueDataType", g.r.choice(["equal_to", "not_equal_to"]), [PathT([Prim(x) for x in path], ["dtype"])])
    elif k < 0.8 and isinstance(doc, dict) and abs(val) < 10 ** 6:
        # (the bound sits under a planted key, absent from every other document the rule is tried on: a range bound picked up in an
        # unrelated document could be astronomically large, and `x in range(lo, hi)` scans the range for a non-integer x)
        doc["_num"] = val
        cond = Leaf("Value", g.r.choice(["in_range", "not_in_range"]), [], {"lower": PathT([Prim("_num")]), "upper": int(val) + g.r.randint(1, 5)})
    else:
        cond = Leaf("Value", "equal_to", [PathT([Prim(x) for x in path], ["dtype"])])
    if g.r.random() < 0.3:
        cond = Bin(g.r.choice(["and", "or"]), cond, base.cond)
    return RuleT(base.path, cond, [])


def odd_index_rule(g, rg, doc):
    """A concrete path argument with a part that Python subscripting would accept but the path semantics does not: a NEGATIVE index
    into a list (no list index equals a negative number), an index into a STRING (a string is not a container), a bool / float in
    an index position.  The rule selects the very items subscripting would give, so the verdict tells the two readings apart."""
    spots = []

    def walk(v, path):
        if isinstance(v, list) and v:
            spots.append(("list", path, len(v)))
        if isinstance(v, str) and len(v) >= 1:
            spots.append(("str", path, len(v)))
        if isinstance(v, (list, dict)) and len(path) < 3:
            for k, x in (enumerate(v) if isinstance(v, list) else v.items()):
                if isinstance(k, (str, int)) and not isinstance(k, bool):
                    walk(x, path + (k,))
    walk(doc, ())
    if not spots:
        return None
    kind, path, n = g.r.choice(spots)
    m = g.r.choice(["equal_to", "not_equal_to", "in_"])
    if kind == "list":
        idx = g.r.choice([-g.r.randint(1, n), -g.r.randint(1, n), True if n > 1 else -1, float(n - 1)])
        arg = PathT([Prim(x) for x in path] + [Prim(idx)])
        rpath = PathT([Prim(x) for x in path] + [ListT()])
    else:
        if not isinstance(doc, dict):
            return None
        node = doc
        for x in path:
            node = node[x]
        idx = g.r.choice([g.r.randrange(n), -1])
        doc["_ch"] = node[idx]
        arg = PathT([Prim(x) for x in path] + [Prim(idx)])
        rpath = PathT([Prim("_ch")])
    cond = Leaf("Value", m, [[arg, "zz"]] if m == "in_" else [arg])
    if g.r.random() < 0.3:
        cond = Bin(g.r.choice(["and", "or"]), cond, rg.rule(doc, cast_p=0.0).cond)
    return RuleT(rpath, cond, [])


def root_arg_rule(g, rg, doc):
    """The argument is the ROOT path (no parts: the whole document, a falsy object since len(DataPath()) == 0) with a datum modifier;
    a node equal to what it resolves to is planted so that the verdict depends on the resolution."""
    from ..pathterms import MapT
    if isinstance(doc, dict):
        k = g.r.random()
        if k < 0.5:
            doc["_n"] = len(doc) + 1
            arg, m = PathT([], ["length"]), g.r.choice(["not_equal_to", "equal_to", "less_than"])
        elif k < 0.8:
            doc["_k"] = g.r.choice([x for x in doc if isinstance(x, (str, int))] or ["_k"])
            arg, m = PathT([], ["map_keys"]), g.r.choice(["in_", "not_in"])
        else:
            arg, m = PathT([], ["dtype"]), "equal_to"
        rpath = PathT([MapT()])
    else:
        doc.append(len(doc) + 1)
        arg, m = PathT([], ["length"]), g.r.choice(["not_equal_to", "equal_to", "greater_than_or_equal_to"])
        rpath = PathT([ListT()])
    cls = "ValueDataType" if arg.mods == ["dtype"] else "Value"
    cond = Leaf(cls, m, [arg]) if g.r.random() < 0.7 else Leaf(cls, m, [], {"value": arg})
    if g.r.random() < 0.3:
        cond = Bin(g.r.choice(["and", "or"]), cond, rg.rule(doc, cast_p=0.0).cond)
    return RuleT(rpath, cond, [])


def run(tier, seed, model_ok, spec_ok, replay=None):
    g = Gen(seed)
    rg = RuleGen(CondGen(g))
    n = 500 if tier == "quick" else 12000
    cases, direct, ndirect, nested_n = [], [], 0, 0
    for _ in range(n):
        if g.r.random() < 0.08:
            ndirect += escaped_spec_check(g, direct)
        if g.r.random() < 0.08:
            ndirect += path_spec_check(g, direct)
        doc = g.document(4, 4)
        rt = rg.rule(doc, cast_p=0.0, path_args_p=1.0)
        if g.r.random() < 0.15:
            rt = type_sensitive_rule(g, rg, doc) or rt
        elif g.r.random() < 0.08:
            rt = container_arg_rule(g, rg, doc) or rt
        elif g.r.random() < 0.08:
            rt = odd_index_rule(g, rg, doc) or rt
        elif g.r.random() < 0.08:
            rt = root_arg_rule(g, rg, doc) or rt
        try:
            c = c05.make_case(rt, doc)
        except E.Unencodable:
            c = None      # a path inside a list / mapping argument: outside the model's argument type, direct oracle only
        if c:
            cases.append(c)
            out = c.outcome
        else:
            nc = nested_case(rt, doc)
            if nc:
                cases.append(nc)
                out = nc.outcome
            else:
                out = E.run_outcome(lambda: c05.impl_rule_test(rt, copy_value(doc)))
            nested_n += 1
        if out[0] == "ok" and g.r.random() < 0.5:
            # ONE rule object judging first an == but differently typed document (1 / True / 1.0), then this one: what a path
            # argument means is decided by the document being validated, not by an earlier one
            ndirect += 1

            long_series = g.r.random() < 0.125

            def reused():
                r = rt.build()
                # (one time in eight after a long series of other documents whose results are dropped at once: nothing may be keyed on
                # the identity of objects that are gone)
                series = [g.document(2, 3) for _ in range(40)] if long_series else [g.document(2, 3)]
                for d0 in series + [twin_all(g, doc, force=True)]:
                    try:
                        r.test(d0)
                    except Exception:
                        pass
                t = r.test(copy_value(doc))
                return (obs_rule_test(t), t.data.get_original())
            o3 = E.run_outcome(reused)
            if o3 != out:
                direct.append({"kind": "direct", "what": "a rule that has judged other documents before judges this one differently",
                               "rule": rt.descr()[:400], "doc": jval(doc), "fresh": repr(out)[:300], "reused": repr(o3)[:300]})
        lit = substitute(rt.cond, doc)
        if lit is not None and out[0] == "ok":
            o2 = E.run_outcome(lambda: c05.impl_rule_test(RuleT(rt.path, lit, []), copy_value(doc)))
            ndirect += 1
            if o2 != out:
                direct.append({"kind": "direct", "what": "rule with a path argument differs from the rule with the resolved literal",
                               "rule": rt.descr()[:400], "literal_rule": lit.descr()[:300], "doc": jval(doc),
                               "with_path": repr(out)[:300], "with_literal": repr(o2)[:300]})
    k_bad, o_bad, nk, no, err = run_passes("c17", IMPORTS, cases, model_ok, spec_ok)
    res = c05.summarise(cases, k_bad, o_bad, nk, no, err,
                        "rules whose condition has one leaf argument (positional or keyword) replaced by a document-guided data "
                        "path (concrete or not, 50% with datum / multiplicity modifiers); each compared with the same rule "
                        "carrying the resolved literal; non-trivial = tested and invalid")
    res["o_violations"] += direct
    res["o_cases"] += ndirect
    res["evaluations"] += ndirect
    return res


def matches_known(known, case):
    return False
