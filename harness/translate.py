"""Fail-closed translator: /repo/valida/*.py  ->  coq/theories/Gen/*Gen.v

Everything in the source that is *data or a one-line expression* is regenerated on every
run: the bodies and signatures of the comparison callables, the DSL constructor table, the
condition classes, `except` tuples, lookup tables, enums, cast tables and the inventory of
write sites.  Any syntax outside the known fragment raises `Refused` (never guessed).
"""
import ast
import os
import sys

from . import coqenc as E

REPO = os.environ.get("VALIDA_REPO", "/repo")
VERIF = os.path.dirname(os.path.dirname(os.path.abspath(__file__)))
GEN_DIR = os.path.join(VERIF, "coq", "theories", "Gen")


class Refused(Exception):
    pass


def refuse(node, why):
    line = getattr(node, "lineno", "?")
    raise Refused(f"line {line}: {why}: {ast.dump(node)[:200] if isinstance(node, ast.AST) else node}")


def qs(s):
    return E.enc_str(s)


def coq_list(items):
    return "[" + "; ".join(items) + "]"


def coq_opt_str(s):
    return "None" if s is None else f"(Some {qs(s)})"


# ------------------------------------------------------------------------------------
# callables.py

CMP = {ast.Eq: "CEq", ast.NotEq: "CNe", ast.Lt: "CLt", ast.LtE: "CLe", ast.Gt: "CGt", ast.GtE: "CGe",
       ast.In: "CIn", ast.NotIn: "CNotIn"}
BIN = {ast.Sub: "BSub", ast.Mod: "BMod", ast.BitAnd: "BAnd"}
BUILTINS = {"set", "sum", "all", "any", "isinstance", "range", "abs"}


class CallableTranslator:
    def __init__(self, names):
        self.names = names  # names of the callables defined in the module

    def expr(self, e):
        if isinstance(e, ast.Name):
            return f"(EVar {qs(e.id)})"
        if isinstance(e, ast.Constant):
            if e.value is True or e.value is False:
                return f"(EBool {E.enc_bool(e.value)})"
            if type(e.value) is int:
                return f"(EInt {E.z(e.value)})"
            refuse(e, "constant of unsupported type")
        if isinstance(e, ast.Compare):
            if len(e.ops) != 1:
                refuse(e, "chained comparison")
            op = CMP.get(type(e.ops[0]))
            if op is None:
                refuse(e, "comparison operator")
            return f"(ECmp {op} {self.expr(e.left)} {self.expr(e.comparators[0])})"
        if isinstance(e, ast.BinOp):
            op = BIN.get(type(e.op))
            if op is None:
                refuse(e, "binary operator")
            return f"(EBin {op} {self.expr(e.left)} {self.expr(e.right)})"
        if isinstance(e, ast.UnaryOp):
            if not isinstance(e.op, ast.Not):
                refuse(e, "unary operator")
            return f"(ENot {self.expr(e.operand)})"
        if isinstance(e, ast.Call):
            if e.keywords:
                refuse(e, "keyword arguments in call")
            if isinstance(e.func, ast.Attribute):
                if e.args:
                    refuse(e, "method call with arguments")
                if e.func.attr not in ("keys", "items"):
                    refuse(e, "unknown method")
                return f"(EMeth {self.expr(e.func.value)} {qs(e.func.attr)})"
            if not isinstance(e.func, ast.Name):
                refuse(e, "call target")
            f = e.func.id
            if f not in BUILTINS and f not in self.names:
                refuse(e, f"call of unknown function {f}")
            for a in e.args:
                if isinstance(a, ast.Starred):
                    refuse(e, "starred argument")
            if len(e.args) == 1 and isinstance(e.args[0], ast.GeneratorExp):
                if f not in ("sum", "all", "any"):
                    refuse(e, "generator passed to unknown consumer")
                return f"(ECall {qs(f)} [{self.gen(e.args[0])}])"
            return f"(ECall {qs(f)} {coq_list([self.expr(a) for a in e.args])})"
        if isinstance(e, ast.Subscript):
            return f"(ESubscr {self.expr(e.value)} {self.expr(e.slice)})"
        refuse(e, "expression form")

    def gen(self, g):
        if len(g.generators) != 1:
            refuse(g, "nested generator")
        c = g.generators[0]
        if c.ifs or c.is_async or not isinstance(c.target, ast.Name):
            refuse(g, "generator shape")
        return f"(EGen {self.expr(g.elt)} {qs(c.target.id)} {self.expr(c.iter)})"

    def stmts(self, body):
        out = []
        for s in body:
            if isinstance(s, ast.Expr) and isinstance(s.value, ast.Constant) and isinstance(s.value.value, str):
                continue  # docstring
            out.append(self.stmt(s))
        return coq_list(out)

    def stmt(self, s):
        if isinstance(s, ast.Return):
            if s.value is None:
                refuse(s, "bare return")
            return f"(SReturn {self.expr(s.value)})"
        if isinstance(s, ast.If):
            if s.orelse:
                refuse(s, "else branch")
            return f"(SIf {self.expr(s.test)} {self.stmts(s.body)})"
        if isinstance(s, ast.Try):
            if len(s.handlers) != 1 or s.orelse or s.finalbody:
                refuse(s, "try shape")
            h = s.handlers[0]
            if h.name or not isinstance(h.type, ast.Name):
                refuse(s, "except clause shape")
            return f"(STry {self.stmts(s.body)} {qs(h.type.id)} {self.stmts(h.body)})"
        if isinstance(s, ast.For):
            if s.orelse:
                refuse(s, "for-else")
            t = s.target
            if not (isinstance(t, ast.Tuple) and len(t.elts) == 2 and all(isinstance(x, ast.Name) for x in t.elts)):
                refuse(s, "for target shape")
            return f"(SFor2 {qs(t.elts[0].id)} {qs(t.elts[1].id)} {self.expr(s.iter)} {self.stmts(s.body)})"
        refuse(s, "statement form")


def plain_signature(fn, allow_defaults=False):
    a = fn.args
    if a.posonlyargs or a.kwonlyargs or a.kw_defaults:
        refuse(fn, "positional-only / keyword-only parameters")
    if a.defaults and not allow_defaults:
        refuse(fn, "default values")
    params = [p.arg for p in a.args]
    defaults = [None] * (len(params) - len(a.defaults)) + list(a.defaults)
    return params, defaults, (a.vararg.arg if a.vararg else None), (a.kwarg.arg if a.kwarg else None)


def translate_callables(src):
    tree = ast.parse(src)
    names = []
    for n in tree.body:
        if isinstance(n, ast.FunctionDef):
            names.append(n.name)
        elif isinstance(n, ast.Expr) and isinstance(n.value, ast.Constant):
            continue
        else:
            refuse(n, "top-level statement in callables.py")
    tr = CallableTranslator(set(names))
    defs = []
    for fn in tree.body:
        if not isinstance(fn, ast.FunctionDef):
            continue
        if fn.decorator_list:
            refuse(fn, "decorator")
        params, _, va, kw = plain_signature(fn)
        if not params:
            refuse(fn, "callable without a datum parameter")
        defs.append(
            f"  {{| f_name := {qs(fn.name)};\n"
            f"     f_sig := {{| s_params := {coq_list([qs(p) for p in params])}; s_vararg := {coq_opt_str(va)}; s_kwarg := {coq_opt_str(kw)} |}};\n"
            f"     f_body := {tr.stmts(fn.body)} |}}")
    return names, ("Definition callable_defs : list fdef := [\n" + ";\n".join(defs) + "\n].\n")


# ------------------------------------------------------------------------------------
# conditions.py: DSL constructors, classes, except tuples

def const_val(node):
    """A literal default value as a Gallina pyval."""
    try:
        v = ast.literal_eval(node)
    except Exception:
        refuse(node, "non-literal default")
    return E.enc_val(v)


def translate_ctor_class(cls):
    ctors, aliases = [], []
    for n in cls.body:
        if isinstance(n, ast.FunctionDef):
            decs = [d.id for d in n.decorator_list if isinstance(d, ast.Name)]
            if decs != ["classmethod"]:
                refuse(n, "DSL constructor that is not a plain classmethod")
            params, defaults, va, kw = plain_signature(n, allow_defaults=True)
            if not params or params[0] != "cls":
                refuse(n, "classmethod without cls")
            params, defaults = params[1:], defaults[1:]
            body = [s for s in n.body if not (isinstance(s, ast.Expr) and isinstance(s.value, ast.Constant))]
            if len(body) != 1 or not isinstance(body[0], ast.Return):
                refuse(n, "DSL constructor body is not a single return")
            call = body[0].value
            if not (isinstance(call, ast.Call) and isinstance(call.func, ast.Name) and call.func.id == "cls"):
                refuse(n, "DSL constructor does not return cls(...)")
            if not call.args:
                refuse(n, "cls() without callable")
            f = call.args[0]
            if not (isinstance(f, ast.Attribute) and isinstance(f.value, ast.Name) and f.value.id == "call_funcs"):
                refuse(n, "first argument of cls(...) is not call_funcs.<name>")
            stores = []
            for a in call.args[1:]:
                if isinstance(a, ast.Starred) and isinstance(a.value, ast.Name):
                    stores.append(f"StStar {qs(a.value.id)}")
                elif isinstance(a, ast.Name):
                    stores.append(f"StPos {qs(a.id)}")
                else:
                    refuse(a, "stored positional argument shape")
            for k in call.keywords:
                if not isinstance(k.value, ast.Name):
                    refuse(k.value, "stored keyword argument shape")
                if k.arg is None:
                    stores.append(f"StDStar {qs(k.value.id)}")
                else:
                    stores.append(f"StKw {qs(k.arg)} {qs(k.value.id)}")
            known = set(params) | {va, kw}
            for a in call.args[1:]:
                nm = a.value.id if isinstance(a, ast.Starred) else a.id
                if nm not in known:
                    refuse(a, "stored argument is not a parameter")
            for k in call.keywords:
                if k.value.id not in known:
                    refuse(k.value, "stored argument is not a parameter")
            ps = coq_list([f"({qs(p)}, {'None' if d is None else '(Some ' + const_val(d) + ')'})"
                           for p, d in zip(params, defaults)])
            ctors.append(
                f"  {{| c_name := {qs(n.name)}; c_params := {ps}; c_vararg := {coq_opt_str(va)}; "
                f"c_kwarg := {coq_opt_str(kw)}; c_target := {qs(f.attr)}; c_store := {coq_list(stores)} |}}")
        elif isinstance(n, ast.Assign):
            if len(n.targets) != 1 or not isinstance(n.targets[0], ast.Name):
                refuse(n, "assignment shape in DSL class")
            t = n.targets[0].id
            if isinstance(n.value, ast.Name):
                aliases.append((t, n.value.id))
            elif t == "OP_SYMBOL_MAP" and isinstance(n.value, ast.Dict):
                continue
            else:
                refuse(n, "assignment in DSL class")
        elif isinstance(n, ast.Expr) and isinstance(n.value, ast.Constant):
            continue
        elif isinstance(n, ast.Pass):
            continue
        else:
            refuse(n, "statement in DSL class")
    return ctors, aliases


def class_attr(cls, name):
    for n in cls.body:
        if isinstance(n, ast.Assign) and len(n.targets) == 1 and isinstance(n.targets[0], ast.Name) \
                and n.targets[0].id == name:
            return n.value
    return None


def classprop(cls, name):
    for n in cls.body:
        if isinstance(n, ast.FunctionDef) and n.name == name:
            decs = [d.id for d in n.decorator_list if isinstance(d, ast.Name)]
            if decs != ["classproperty"]:
                refuse(n, "length/dtype is not a classproperty")
            if len(n.body) != 1 or not isinstance(n.body[0], ast.Return) or not isinstance(n.body[0].value, ast.Name):
                refuse(n, "classproperty body")
            return n.body[0].value.id
    return None


def except_names(handler):
    t = handler.type
    if isinstance(t, ast.Name):
        return [t.id]
    if isinstance(t, ast.Tuple) and all(isinstance(x, ast.Name) for x in t.elts):
        return [x.id for x in t.elts]
    refuse(handler, "except clause shape")


def find_method(cls, name):
    for n in cls.body:
        if isinstance(n, ast.FunctionDef) and n.name == name:
            return n
    refuse(cls, f"method {name} not found")


def translate_conditions(src):
    tree = ast.parse(src)
    classes = {n.name: n for n in tree.body if isinstance(n, ast.ClassDef)}
    for need in ("GeneralCallables", "MapCallables", "AllCallables", "Condition", "ValueLike", "KeyLike",
                 "IndexLike", "LengthPreProcessor", "DataTypePreProcessor", "FilterDatumType"):
        if need not in classes:
            raise Refused(f"class {need} missing from conditions.py")
    out = []
    g_ctors, g_alias = translate_ctor_class(classes["GeneralCallables"])
    m_ctors, m_alias = translate_ctor_class(classes["MapCallables"])
    if m_alias:
        raise Refused("aliases in MapCallables")
    bases = [b.id for b in classes["AllCallables"].bases if isinstance(b, ast.Name)]
    if sorted(bases) != ["GeneralCallables", "MapCallables"]:
        raise Refused("AllCallables bases")
    out.append("Definition general_ctors : list ctor := [\n" + ";\n".join(g_ctors) + "\n].\n")
    out.append("Definition map_ctors : list ctor := [\n" + ";\n".join(m_ctors) + "\n].\n")
    out.append("Definition ctor_aliases : list (string * string) := "
               + coq_list([f"({qs(a)}, {qs(b)})" for a, b in g_alias]) + ".\n")

    # datum kinds: which Data accessor each *Like class reads
    enum_vals = {}
    for n in classes["FilterDatumType"].body:
        if isinstance(n, ast.Assign) and isinstance(n.value, ast.Constant):
            enum_vals[n.targets[0].id] = n.value.value
    if enum_vals != {"KEYS": "keys", "VALUES": "values"}:
        raise Refused(f"FilterDatumType values {enum_vals}")
    kinds = {}
    for like, kind, want in (("ValueLike", "DValue", "VALUES"), ("KeyLike", "DKey", "KEYS"), ("IndexLike", "DIndex", "KEYS")):
        v = class_attr(classes[like], "DATUM_TYPE")
        if not (isinstance(v, ast.Attribute) and isinstance(v.value, ast.Name) and v.value.id == "FilterDatumType"
                and v.attr == want):
            raise Refused(f"{like}.DATUM_TYPE is not FilterDatumType.{want}")
        if [b.id for b in classes[like].bases] != ["Condition"]:
            raise Refused(f"{like} bases")
        kinds[like] = kind
    pres = {}
    for pp, pre, fn in (("LengthPreProcessor", "PLen", "len"), ("DataTypePreProcessor", "PType", "type")):
        v = class_attr(classes[pp], "PRE_PROCESSOR")
        if not (isinstance(v, ast.Name) and v.id == fn):
            raise Refused(f"{pp}.PRE_PROCESSOR is not {fn}")
        pres[pp] = pre
    v = class_attr(classes["Condition"], "PRE_PROCESSOR")
    if not (isinstance(v, ast.Constant) and v.value is None):
        raise Refused("Condition.PRE_PROCESSOR is not None")

    rows = []
    for name, cls in classes.items():
        bs = [b.id for b in cls.bases if isinstance(b, ast.Name)]
        like = [b for b in bs if b in kinds]
        if not like or name in kinds:
            continue
        if len(like) != 1:
            raise Refused(f"class {name}: several *Like bases")
        pre = [pres[b] for b in bs if b in pres]
        if len(pre) > 1:
            raise Refused(f"class {name}: several pre-processors")
        other = [b for b in bs if b not in kinds and b not in pres]
        if other == ["AllCallables"]:
            gen, mp = True, True
        elif other == ["GeneralCallables"]:
            gen, mp = True, False
        elif other == ["MapCallables"]:
            gen, mp = False, True
        else:
            raise Refused(f"class {name}: bases {bs}")
        # the pre-processor mix-in must come first in the MRO for PRE_PROCESSOR to win over Condition's None
        if pre and bs.index([b for b in bs if b in pres][0]) > bs.index(like[0]):
            raise Refused(f"class {name}: pre-processor mix-in after the condition base")
        label = class_attr(cls, "js_like_label")
        if not (isinstance(label, ast.Constant) and isinstance(label.value, str)):
            raise Refused(f"class {name}: js_like_label")
        rows.append(
            f"  {{| k_name := {qs(name)}; k_kind := {kinds[like[0]]}; k_pre := {pre[0] if pre else 'PNone'}; "
            f"k_general := {E.enc_bool(gen)}; k_map := {E.enc_bool(mp)}; k_label := {qs(label.value)}; "
            f"k_length := {coq_opt_str(classprop(cls, 'length'))}; k_dtype := {coq_opt_str(classprop(cls, 'dtype'))} |}}")
    out.append("Definition cond_classes : list cclass := [\n" + ";\n".join(rows) + "\n].\n")

    # the two try/except of Condition._filter
    filt = find_method(classes["Condition"], "_filter")
    tries = [n for n in ast.walk(filt) if isinstance(n, ast.Try)]
    if len(tries) != 2:
        raise Refused("Condition._filter: expected two try statements")
    tries.sort(key=lambda t: t.lineno)
    for t in tries:
        if len(t.handlers) != 1 or t.orelse or t.finalbody or t.handlers[0].name:
            raise Refused("Condition._filter: try shape")
    src_pre = ast.unparse(tries[0].body[0]) if tries[0].body else ""
    if "PRE_PROCESSOR" not in src_pre:
        raise Refused("Condition._filter: first try is not the pre-processor")
    if "self.callable(" not in ast.unparse(tries[1].body[0]):
        raise Refused("Condition._filter: second try is not the callable")
    out.append("Definition caught_preproc : list string := " + coq_list([qs(x) for x in except_names(tries[0].handlers[0])]) + ".\n")
    out.append("Definition caught_callable : list string := " + coq_list([qs(x) for x in except_names(tries[1].handlers[0])]) + ".\n")
    return "".join(out)


# ------------------------------------------------------------------------------------
# object protocol of ConditionBinaryOp (conditions.py) and null_condition_binary_check (utils.py)

def nc_expr(e, params):
    if isinstance(e, ast.Name) and e.id in params:
        return f"(NCArg {params.index(e.id)})"
    if isinstance(e, ast.Constant) and e.value is None:
        return "NCNone"
    if isinstance(e, ast.IfExp):
        t = e.test
        if not (isinstance(t, ast.Attribute) and t.attr == "is_null" and isinstance(t.value, ast.Name)
                and t.value.id in params):
            refuse(e, "null check test is not <arg>.is_null")
        return f"(NCIf {params.index(t.value.id)} {nc_expr(e.body, params)} {nc_expr(e.orelse, params)})"
    refuse(e, "null check expression")


def translate_proto(cond_src, utils_src):
    ut = ast.parse(utils_src)
    fn = [n for n in ut.body if isinstance(n, ast.FunctionDef) and n.name == "null_condition_binary_check"]
    if len(fn) != 1:
        raise Refused("utils.null_condition_binary_check not found")
    fn = fn[0]
    params, _, va, kw = plain_signature(fn)
    if len(params) != 2 or va or kw:
        raise Refused("null_condition_binary_check signature")
    body = [s for s in fn.body if not (isinstance(s, ast.Expr) and isinstance(s.value, ast.Constant))]
    if len(body) != 1 or not isinstance(body[0], ast.Return):
        raise Refused("null_condition_binary_check body")
    nc = nc_expr(body[0].value, params)

    tree = ast.parse(cond_src)
    cls = [n for n in tree.body if isinstance(n, ast.ClassDef) and n.name == "ConditionBinaryOp"]
    if len(cls) != 1:
        raise Refused("ConditionBinaryOp not found")
    cls = cls[0]
    new = find_method(cls, "__new__")
    nbody = [s for s in new.body if not (isinstance(s, ast.Expr) and isinstance(s.value, ast.Constant))]
    want_new = "return null_condition_binary_check(*conditions) or super().__new__(cls)"
    if len(nbody) == 1 and ast.unparse(nbody[0]) == want_new and new.args.vararg and new.args.vararg.arg == "conditions":
        short = True
    elif len(nbody) == 1 and ast.unparse(nbody[0]) == "return super().__new__(cls)":
        short = False
    else:
        refuse(new, "ConditionBinaryOp.__new__ shape")
    init = find_method(cls, "__init__")
    ibody = [s for s in init.body if not (isinstance(s, ast.Expr) and isinstance(s.value, ast.Constant))]
    guarded = False
    if ibody and isinstance(ibody[0], ast.If):
        g = ibody[0]
        if (ast.unparse(g.test) == "null_condition_binary_check(*conditions) is not None" and not g.orelse
                and len(g.body) == 1 and isinstance(g.body[0], ast.Return) and g.body[0].value is None):
            guarded = True
            ibody = ibody[1:]
        else:
            refuse(g, "unexpected conditional at the top of ConditionBinaryOp.__init__")
    rest = [ast.unparse(s) for s in ibody]
    if rest[:2] != ["super().__init__()", "self.children = conditions"]:
        raise Refused(f"ConditionBinaryOp.__init__ body: {rest[:2]}")
    writes = [n for n in ast.walk(init) if isinstance(n, (ast.Assign, ast.AugAssign, ast.Delete))
              and any(isinstance(t, (ast.Attribute, ast.Subscript)) for t in (n.targets if hasattr(n, "targets") else [n.target]))]
    if len(writes) != 1:
        raise Refused("ConditionBinaryOp.__init__: expected exactly one attribute write (self.children)")
    return (f"Definition cond_proto : proto := {{| pr_null_check := {nc}; pr_new_short_circuits := {E.enc_bool(short)}; "
            f"pr_init_guarded := {E.enc_bool(guarded)} |}}.\n")


def translate_add_schema(schema_src):
    tree = ast.parse(schema_src)
    cls = [n for n in tree.body if isinstance(n, ast.ClassDef) and n.name == "Schema"]
    if len(cls) != 1:
        raise Refused("class Schema not found")
    fn = find_method(cls[0], "add_schema")
    body = [s for s in fn.body if not (isinstance(s, ast.Expr) and isinstance(s.value, ast.Constant))]
    if len(body) != 2 or not isinstance(body[0], ast.For):
        raise Refused("Schema.add_schema: expected a loop over the added rules followed by the re-sort")
    loop = body[0]
    if ast.unparse(loop.iter) != "schema.rules" or not isinstance(loop.target, ast.Name):
        raise Refused("Schema.add_schema: loop header")
    rv = loop.target.id
    if ast.unparse(body[1]) != "self.rules = sorted(self.rules, key=lambda i: len(i.path))":
        raise Refused("Schema.add_schema: re-sort statement")
    stmts = [ast.unparse(s).replace("\n", " ") for s in loop.body]
    copy_form = [f"self.rules.append(Rule(path=root_path / {rv}.path, condition={rv}.condition, cast={rv}.cast, doc={rv}.doc))"]
    rebind_form = [f"{rv}.path = root_path / {rv}.path", f"self.rules.append({rv})"]
    norm = [" ".join(x.split()) for x in stmts]
    if norm == copy_form:
        copies = True
    elif norm == rebind_form:
        copies = False
    else:
        raise Refused(f"Schema.add_schema: loop body {norm}")
    return f"Definition add_schema_proto : as_proto := {{| as_copies := {E.enc_bool(copies)} |}}.\n"


# ------------------------------------------------------------------------------------
# lookup tables of the spec parsers

PYTYPES = {"int": "TInt", "float": "TFloat", "str": "TStr", "list": "TList", "dict": "TDict", "bool": "TBool",
           "pathlib.Path": "TPath"}


def find_dict(tree, name, within=None):
    """The ast.Dict assigned to `name` (anywhere in the tree, or inside function `within`)."""
    hits = []
    for n in ast.walk(tree):
        if isinstance(n, ast.Assign) and len(n.targets) == 1 and isinstance(n.targets[0], ast.Name) \
                and n.targets[0].id == name and isinstance(n.value, ast.Dict):
            hits.append(n.value)
    if len(hits) != 1:
        raise Refused(f"expected exactly one dict literal assigned to {name}, found {len(hits)}")
    return hits[0]


def type_name(e):
    t = ast.unparse(e)
    if t not in PYTYPES:
        refuse(e, f"unknown type expression {t}")
    return PYTYPES[t]


def str_const(e):
    if isinstance(e, ast.Constant) and isinstance(e.value, str):
        return e.value
    refuse(e, "expected a string constant")


def translate_spec_tables(cond_src, path_src, cast_src):
    ct, pt, kt = ast.parse(cond_src), ast.parse(path_src), ast.parse(cast_src)
    ops = {"ConditionAnd": "BoAnd", "ConditionOr": "BoOr", "ConditionXor": "BoXor"}
    d = find_dict(ct, "BINARY_OPS")
    binops = [f"({qs(str_const(k))}, {ops[ast.unparse(v)]})" for k, v in zip(d.keys, d.values)]
    d = find_dict(ct, "CONDITION_DATUM_TYPES")
    dts = [f"({qs(str_const(k))}, {qs(ast.unparse(v))})" for k, v in zip(d.keys, d.values)]
    d = find_dict(ct, "CALLABLE_LOOKUP")
    cl = [f"({qs(str_const(k))}, {qs(str_const(v))})" for k, v in zip(d.keys, d.values)]
    d = find_dict(ct, "PRE_PROC_LOOKUP")
    pl = [f"({qs(str_const(k))}, {qs(str_const(v))})" for k, v in zip(d.keys, d.values)]
    d = find_dict(ct, "DTYPE_LOOKUP")
    dn, dt = [], []
    for k, v in zip(d.keys, d.values):
        if isinstance(k, ast.Constant):
            dn.append(f"({qs(str_const(k))}, {type_name(v)})")
        else:
            dt.append(f"({type_name(k)}, {type_name(v)})")
    d = find_dict(ct, "INV_DTYPE_LOOKUP")
    inv = [f"({type_name(k)}, {qs(str_const(v))})" for k, v in zip(d.keys, d.values)]
    d = find_dict(pt, "CLS_LOOKUP")
    pc = [f"({qs(str_const(k))}, {qs(ast.unparse(v))})" for k, v in zip(d.keys, d.values)]
    # default part type: spec.pop("type", <default>)
    default = None
    for n in ast.walk(pt):
        if isinstance(n, ast.Call) and isinstance(n.func, ast.Attribute) and n.func.attr == "pop" and len(n.args) == 2 \
                and isinstance(n.args[0], ast.Constant) and n.args[0].value == "type":
            default = str_const(n.args[1])
    if default is None:
        raise Refused("default part type not found")
    d = find_dict(pt, "DATUM_TYPE_MULTI_TYPE_LOOKUP")
    sl = [f"({qs(str_const(k))}, {qs(str_const(v))})" for k, v in zip(d.keys, d.values)]
    allowed = None
    for n in ast.walk(pt):
        if isinstance(n, ast.Assign) and isinstance(n.targets[0], ast.Name) and n.targets[0].id == "ALLOWED_SUFFIXES" \
                and isinstance(n.value, ast.Tuple):
            allowed = [qs(str_const(e)) for e in n.value.elts]
    if allowed is None:
        raise Refused("ALLOWED_SUFFIXES not found")
    d = find_dict(kt, "CAST_DTYPE_LOOKUP")
    cd = [f"({qs(str_const(k))}, {type_name(v)})" for k, v in zip(d.keys, d.values)]
    d = find_dict(kt, "CAST_LOOKUP")
    fns = {"cast_string_to_bool": "CastStrBool", "int": "CastStrInt"}
    cast = []
    for k, v in zip(d.keys, d.values):
        if not (isinstance(k, ast.Tuple) and len(k.elts) == 2) or ast.unparse(v) not in fns:
            refuse(k, "CAST_LOOKUP entry")
        cast.append(f"({type_name(k.elts[0])}, {type_name(k.elts[1])}, {fns[ast.unparse(v)]})")
    # the body of cast_string_to_bool must be the one the model has
    fn = [n for n in kt.body if isinstance(n, ast.FunctionDef) and n.name == "cast_string_to_bool"]
    want = ("if s.lower() == 'true':\n    return True\nelif s.lower() == 'false':\n    return False\nelse:\n"
            "    raise TypeError(f'Cannot cast {s!r} to a bool type.')")
    if len(fn) != 1 or ast.unparse(fn[0].body[0]) != want:
        raise Refused("cast_string_to_bool body changed")
    return ("Definition spec_tabs : spec_tables := {|\n"
            f"  sx_binops := {coq_list(binops)};\n  sx_datum_types := {coq_list(dts)};\n"
            f"  sx_callable_lookup := {coq_list(cl)};\n  sx_preproc_lookup := {coq_list(pl)};\n"
            f"  sx_dtype_names := {coq_list(dn)};\n  sx_dtype_types := {coq_list(dt)};\n  sx_inv_dtype := {coq_list(inv)};\n"
            f"  sx_part_classes := {coq_list(pc)};\n  sx_part_default := {qs(default)};\n"
            f"  sx_suffix_lookup := {coq_list(sl)};\n  sx_allowed_suffixes := {coq_list(allowed)};\n"
            f"  sx_cast_dtype := {coq_list(cd)};\n  sx_cast_lookup := {coq_list(cast)} |}}.\n")


# ------------------------------------------------------------------------------------
# inventory of write sites (stores through attributes / subscripts, mutating method calls)

MUTATORS = {"pop", "append", "extend", "insert", "remove", "clear", "update", "setdefault", "sort", "reverse",
            "popitem", "add", "discard"}
FRESH_CALLS = {"dict", "list", "set", "tuple", "sorted", "zip", "range", "enumerate", "str", "int", "float", "bool"}


def fresh_expr(e):
    """Does the expression evaluate to a new object nobody else holds?"""
    if isinstance(e, (ast.List, ast.Dict, ast.Set, ast.Tuple, ast.ListComp, ast.DictComp, ast.SetComp, ast.JoinedStr, ast.Constant)):
        return True
    if isinstance(e, ast.Call):
        f = e.func
        if isinstance(f, ast.Name) and (f.id in FRESH_CALLS or f.id[:1].isupper()):
            return True
        if isinstance(f, ast.Attribute) and isinstance(f.value, ast.Name) and f.value.id == "copy" and f.attr in ("deepcopy", "copy"):
            return True
        if isinstance(f, ast.Attribute) and f.attr[:1].isupper():
            return True
    return False


def function_sites(qual, fn):
    params = {a.arg for a in fn.args.args + fn.args.kwonlyargs + fn.args.posonlyargs}
    if fn.args.vararg:
        params.add(fn.args.vararg.arg)
    if fn.args.kwarg:
        params.add(fn.args.kwarg.arg)
    binds = {}      # local name -> list of "fresh?" for every binding
    for n in ast.walk(fn):
        if isinstance(n, ast.Assign):
            for t in n.targets:
                if isinstance(t, ast.Name):
                    binds.setdefault(t.id, []).append(fresh_expr(n.value))
                elif isinstance(t, (ast.Tuple, ast.List)):
                    for x in ast.walk(t):
                        if isinstance(x, ast.Name):
                            binds.setdefault(x.id, []).append(False)
        elif isinstance(n, (ast.For, ast.comprehension)):
            for x in ast.walk(n.target):
                if isinstance(x, ast.Name):
                    binds.setdefault(x.id, []).append(False)
        elif isinstance(n, (ast.With,)):
            for it in n.items:
                if it.optional_vars is not None:
                    for x in ast.walk(it.optional_vars):
                        if isinstance(x, ast.Name):
                            binds.setdefault(x.id, []).append(False)
        elif isinstance(n, ast.AugAssign) and isinstance(n.target, ast.Name):
            binds.setdefault(n.target.id, []).append(isinstance(n.value, (ast.Constant, ast.JoinedStr, ast.BinOp)))
        elif isinstance(n, ast.NamedExpr):
            binds.setdefault(n.target.id, []).append(fresh_expr(n.value))

    def base(e):
        while isinstance(e, (ast.Attribute, ast.Subscript)):
            e = e.value
        return e

    def is_fresh_local(e):
        b = base(e)
        if not isinstance(b, ast.Name):
            return False
        if b is not e and not (isinstance(e, (ast.Attribute, ast.Subscript)) and e.value is b):
            return False       # a store two levels below a fresh local may still reach shared objects
        return b.id not in params and b.id in binds and all(binds[b.id])

    out = []

    def record(kind, target):
        b = base(target)
        if isinstance(b, ast.Name) and b.id == "self" and fn.name in ("__init__", "__new__") \
                and isinstance(target, ast.Attribute) and target.value is b:
            return            # initialisation of the object under construction
        if is_fresh_local(target):
            return
        out.append((qual, kind, ast.unparse(target)))

    for n in ast.walk(fn):
        if isinstance(n, (ast.Assign, ast.AnnAssign, ast.AugAssign)):
            targets = n.targets if isinstance(n, ast.Assign) else [n.target]
            for t in targets:
                for x in ([t] if not isinstance(t, (ast.Tuple, ast.List)) else list(ast.walk(t))):
                    if isinstance(x, ast.Attribute):
                        record("store-attr", x)
                    elif isinstance(x, ast.Subscript):
                        record("store-item", x)
        elif isinstance(n, ast.Delete):
            for t in n.targets:
                if isinstance(t, (ast.Attribute, ast.Subscript)):
                    record("delete", t)
        elif isinstance(n, ast.Call) and isinstance(n.func, ast.Attribute) and n.func.attr in MUTATORS:
            if is_fresh_local(n.func.value) or (isinstance(n.func.value, ast.Name) and n.func.value.id not in params
                                                  and n.func.value.id in binds and all(binds[n.func.value.id])):
                continue
            out.append((qual, "call-" + n.func.attr, ast.unparse(n.func.value)))
    return out


def translate_sites(files):
    rows = []
    for rel in files:
        tree = ast.parse(read(rel))
        mod = os.path.basename(rel)[:-3]
        for n in tree.body:
            if isinstance(n, ast.FunctionDef):
                rows += function_sites(f"{mod}.{n.name}", n)
            elif isinstance(n, ast.ClassDef):
                for m in n.body:
                    if isinstance(m, ast.FunctionDef):
                        rows += function_sites(f"{mod}.{n.name}.{m.name}", m)
    rows.sort()
    body = ";\n".join(f"  ({qs(a)}, {qs(b)}, {qs(c)})" for a, b, c in rows)
    return "Definition write_sites : list (string * string * string) := [\n" + body + "\n].\n"


# ------------------------------------------------------------------------------------
# abstraction of the spec parsers to the operations of the verified aliasing analysis (Taint.v)

PARSER_FAMILY = {
    "conditions.py": {"ConditionLike": ["from_spec", "from_json_like"]},
    "datapath.py": {"DataPath": ["from_spec", "from_json_like", "from_part_specs"], "ContainerValue": ["from_spec"]},
    "rules.py": {"Rule": ["from_spec", "from_json_like"]},
    "schema.py": {"Schema": ["from_json_like", "init_rules"]},
}
FAMILY_NAMES = {"from_spec", "from_json_like", "from_part_specs", "init_rules"}
READ_METHODS = {"items", "keys", "values", "get", "split", "lower", "upper", "startswith", "endswith", "replace", "strip",
                "format", "join", "count", "index", "copy", "is_like", "flatten"}
PURE_CALLS = {"len", "isinstance", "getattr", "hasattr", "enumerate", "zip", "next", "iter", "str", "int", "float", "bool",
              "type", "repr", "any", "all", "sum", "range", "print", "sorted", "reversed", "min", "max", "get_func_args_by_kind"}
SHALLOW_CALLS = {"dict", "list", "tuple", "set"}


class Abstractor:
    """Python function body -> list of Taint items.  Conservative: anything not recognised as harmless is an
    OpStore (a write below the top level) on every variable it mentions."""

    def __init__(self, fn):
        self.fn = fn

    @staticmethod
    def names(e):
        out = []
        for n in ast.walk(e):
            if isinstance(n, ast.Name) and n.id not in out and not n.id[:1].isupper() and n.id not in PURE_CALLS \
                    and n.id not in SHALLOW_CALLS and n.id not in ("copy", "cnds", "valida", "warnings", "cls", "self"):
                out.append(n.id)
        return out

    def vlist(self, vs):
        return coq_list([qs(v) for v in vs])

    def assign_op(self, target, value):
        """x = value"""
        ns = self.names(value)
        if isinstance(value, ast.Call):
            f = value.func
            if isinstance(f, ast.Attribute) and isinstance(f.value, ast.Name) and f.value.id == "copy":
                if f.attr == "deepcopy":
                    return f"OpDeep {qs(target)} {self.vlist(ns)}"
                if f.attr == "copy":
                    return f"OpShallow {qs(target)} {self.vlist(ns)}"
            if isinstance(f, ast.Name) and f.id in SHALLOW_CALLS:
                return f"OpShallow {qs(target)} {self.vlist(ns)}"
        if isinstance(value, (ast.List, ast.Dict, ast.Set, ast.Tuple, ast.ListComp, ast.DictComp, ast.SetComp)):
            return f"OpShallow {qs(target)} {self.vlist(ns)}"
        if isinstance(value, (ast.Constant, ast.JoinedStr, ast.Compare, ast.BoolOp)) and not ns:
            return f"OpFresh {qs(target)}"
        if isinstance(value, (ast.JoinedStr, ast.Compare)):
            return f"OpFresh {qs(target)}"
        return f"OpAlias {qs(target)} {self.vlist(ns)}"

    def effects(self, node):
        """Writes performed by evaluating an expression / executing a simple statement (besides binding names)."""
        ops = []
        for n in ast.walk(node):
            if isinstance(n, ast.Call):
                f = n.func
                argnames = []
                for a in list(n.args) + [k.value for k in n.keywords]:
                    argnames += self.names(a)
                if isinstance(f, ast.Attribute):
                    recv = f.value
                    if f.attr in MUTATORS:
                        b = recv
                        depth = 0
                        while isinstance(b, (ast.Attribute, ast.Subscript)):
                            b = b.value
                            depth += 1
                        if isinstance(b, ast.Name):
                            ops.append(f"OpStore {qs(b.id)} {E.enc_bool(depth == 0)} {self.vlist(argnames)}")
                        else:
                            refuse(n, "mutating call on a non-variable")
                    elif f.attr in READ_METHODS or f.attr in FAMILY_NAMES or f.attr[:1].isupper() or f.attr in ("warn", "deepcopy", "copy"):
                        pass        # reads; calls of the parser family (each checked safe on its own); constructors
                    elif isinstance(recv, ast.Name) and recv.id in ("cls", "cnds", "valida"):
                        pass
                    else:
                        # an unknown method: assume it may write anything reachable from its receiver and arguments
                        for v in self.names(recv) + argnames:
                            ops.append(f"OpStore {qs(v)} false {self.vlist(argnames)}")
                elif isinstance(f, ast.Name):
                    if f.id in PURE_CALLS or f.id in SHALLOW_CALLS or f.id[:1].isupper() or f.id in ("cls", "cond_method"):
                        pass        # builtins that only read; constructors (they keep references, they do not write)
                    else:
                        for v in argnames:
                            ops.append(f"OpStore {qs(v)} false {self.vlist(argnames)}")
                elif isinstance(f, ast.Call):
                    pass            # getattr(obj, name)(): a modifier method of a freshly built path
                else:
                    refuse(n, "call target shape")
        return ops

    def simple(self, s):
        ops = []
        if isinstance(s, (ast.Assign, ast.AnnAssign)):
            value = s.value
            targets = s.targets if isinstance(s, ast.Assign) else [s.target]
            ops += self.effects(value)
            for t in targets:
                if isinstance(t, ast.Name):
                    ops.append(self.assign_op(t.id, value))
                elif isinstance(t, (ast.Tuple, ast.List)):
                    for x in t.elts:
                        if not isinstance(x, ast.Name):
                            refuse(s, "nested assignment target")
                        ops.append(f"OpAlias {qs(x.id)} {self.vlist(self.names(value))}")
                elif isinstance(t, (ast.Subscript, ast.Attribute)):
                    b, depth = t, 0
                    while isinstance(b, (ast.Attribute, ast.Subscript)):
                        b = b.value
                        depth += 1
                    if not isinstance(b, ast.Name):
                        refuse(s, "store through a non-variable")
                    ops.append(f"OpStore {qs(b.id)} {E.enc_bool(depth == 1)} {self.vlist(self.names(value))}")
                else:
                    refuse(s, "assignment target")
        elif isinstance(s, ast.AugAssign):
            ops += self.effects(s.value)
            if isinstance(s.target, ast.Name):
                ops.append(f"OpStore {qs(s.target.id)} true {self.vlist(self.names(s.value))}")
                ops.append(f"OpAlias {qs(s.target.id)} {self.vlist([s.target.id] + self.names(s.value))}")
            else:
                refuse(s, "augmented store")
        elif isinstance(s, ast.Delete):
            for t in s.targets:
                b, depth = t, 0
                while isinstance(b, (ast.Attribute, ast.Subscript)):
                    b = b.value
                    depth += 1
                if isinstance(b, ast.Name) and depth >= 1:
                    ops.append(f"OpStore {qs(b.id)} {E.enc_bool(depth == 1)} []")
        elif isinstance(s, (ast.Expr, ast.Return, ast.Raise, ast.Assert)):
            for f_ in ("value", "exc", "test"):
                v = getattr(s, f_, None)
                if v is not None:
                    ops += self.effects(v)
        elif isinstance(s, (ast.Pass, ast.Break, ast.Continue, ast.Import, ast.ImportFrom)):
            pass
        else:
            refuse(s, "simple statement form")
        return ops

    def nested(self, s):
        """All operations of a compound statement, flattened (they may run in any order, any number of times)."""
        ops = []
        if isinstance(s, ast.For):
            ops += self.effects(s.iter)
            for x in ast.walk(s.target):
                if isinstance(x, ast.Name):
                    ops.append(f"OpAlias {qs(x.id)} {self.vlist(self.names(s.iter))}")
            body = s.body + s.orelse
        elif isinstance(s, ast.While):
            ops += self.effects(s.test)
            body = s.body + s.orelse
        elif isinstance(s, ast.If):
            ops += self.effects(s.test)
            body = s.body + s.orelse
        elif isinstance(s, ast.Try):
            body = s.body + s.orelse + s.finalbody
            for h in s.handlers:
                body = body + h.body
        elif isinstance(s, ast.With):
            body = s.body
            for it in s.items:
                ops += self.effects(it.context_expr)
                if it.optional_vars is not None:
                    for x in ast.walk(it.optional_vars):
                        if isinstance(x, ast.Name):
                            ops.append(f"OpFresh {qs(x.id)}")
        else:
            return None
        for b in body:
            sub = self.nested(b)
            ops += sub if sub is not None else self.simple(b)
        # comprehension variables inside the block
        return ops

    @staticmethod
    def terminates(body):
        return bool(body) and isinstance(body[-1], (ast.Raise, ast.Return))

    def seq(self, body):
        out = []
        for s in body:
            if isinstance(s, ast.Expr) and isinstance(s.value, ast.Constant):
                continue
            if isinstance(s, ast.If) and self.terminates(s.body) and not any(isinstance(x, ast.If) and False for x in s.body):
                # `if c: ...; raise/return` [else: rest]: on every path that continues, the else branch ran exactly once
                out.append("Block " + coq_list(["(" + o + ")" for o in (self.effects(s.test) + self.block_ops(s.body))]))
                out += self.seq(s.orelse)
                continue
            sub = self.nested(s)
            if sub is not None:
                out.append("Block " + coq_list(["(" + o + ")" for o in sub]))
            else:
                for o in self.simple(s):
                    out.append(f"Straight ({o})")
        return out

    def block_ops(self, body):
        ops = []
        for b in body:
            sub = self.nested(b)
            ops += sub if sub is not None else self.simple(b)
        return ops

    def items(self):
        params = {a.arg for a in self.fn.args.args}
        if self.fn.args.vararg:
            params.add(self.fn.args.vararg.arg)
        if self.fn.args.kwarg:
            params.add(self.fn.args.kwarg.arg)
        local = []
        for n in ast.walk(self.fn):
            if isinstance(n, ast.Name) and isinstance(n.ctx, ast.Store) and n.id not in params and n.id not in local:
                local.append(n.id)
        # a local that has not been assigned yet holds no object: start every local as fresh
        return [f"Straight (OpFresh {qs(v)})" for v in sorted(local)] + self.seq(self.fn.body)


def translate_parsers():
    rows = []
    for rel, classes in PARSER_FAMILY.items():
        tree = ast.parse(read("valida/" + rel))
        for n in tree.body:
            if isinstance(n, ast.ClassDef) and n.name in classes:
                for m in n.body:
                    if isinstance(m, ast.FunctionDef) and m.name in classes[n.name]:
                        params = [a.arg for a in m.args.args if a.arg not in ("cls", "self")]
                        if m.args.vararg:
                            params.append(m.args.vararg.arg)
                        if m.args.kwarg:
                            params.append(m.args.kwarg.arg)
                        items = Abstractor(m).items()
                        rows.append(f"  {{| af_name := {qs(rel[:-3] + '.' + n.name + '.' + m.name)}; af_params := {coq_list([qs(p) for p in params])};\n"
                                    f"     af_body := {coq_list(items)} |}}")
                        classes[n.name] = [x for x in classes[n.name] if x != m.name]
        missing = [(c, ms) for c, ms in classes.items() if ms]
        if missing:
            raise Refused(f"parser functions not found in {rel}: {missing}")
    return "Definition parser_funs : list afun := [\n" + ";\n".join(rows) + "\n].\n"


# ------------------------------------------------------------------------------------

HEADER = """(* GENERATED by harness/translate.py from {src} -- do not edit *)
From Coq Require Import ZArith NArith List Bool String.
From Valida Require Import Py Lang Defs.
Import ListNotations.
Local Open Scope string_scope.
Local Open Scope Z_scope.

"""


def write_if_changed(path, text):
    os.makedirs(os.path.dirname(path), exist_ok=True)
    try:
        if open(path).read() == text:
            return False
    except FileNotFoundError:
        pass
    with open(path, "w") as fh:
        fh.write(text)
    return True


def read(rel):
    with open(os.path.join(REPO, rel)) as fh:
        return fh.read()


REFUSALS = []


def main():
    changed = []
    _, calls = translate_callables(read("valida/callables.py"))
    if write_if_changed(os.path.join(GEN_DIR, "CallablesGen.v"), HEADER.format(src="valida/callables.py") + calls):
        changed.append("CallablesGen.v")
    tabs = translate_conditions(read("valida/conditions.py"))
    tabs += ("\nDefinition gen_tables : tables := {| t_defs := CallablesGen.callable_defs; t_general := general_ctors; "
             "t_map := map_ctors; t_aliases := ctor_aliases; t_classes := cond_classes; "
             "t_caught_pre := caught_preproc; t_caught_call := caught_callable |}.\n")
    text = HEADER.format(src="valida/conditions.py") + "From Valida.Gen Require CallablesGen.\n\n" + tabs
    if write_if_changed(os.path.join(GEN_DIR, "TablesGen.v"), text):
        changed.append("TablesGen.v")
    proto = translate_proto(read("valida/conditions.py"), read("valida/utils.py"))
    proto += translate_add_schema(read("valida/schema.py"))
    text = HEADER.format(src="valida/conditions.py, valida/utils.py, valida/schema.py").replace(
        "From Valida Require Import Py Lang Defs.", "From Valida Require Import Py Lang Defs Cond CondHeap SchemaHeap.") + proto
    if write_if_changed(os.path.join(GEN_DIR, "ProtoGen.v"), text):
        changed.append("ProtoGen.v")
    st = translate_spec_tables(read("valida/conditions.py"), read("valida/datapath.py"), read("valida/casting.py"))
    text = HEADER.format(src="valida/conditions.py, valida/datapath.py, valida/casting.py").replace(
        "From Valida Require Import Py Lang Defs.", "From Valida Require Import Py Lang Defs Cast SpecDefs.") + st
    if write_if_changed(os.path.join(GEN_DIR, "SpecGen.v"), text):
        changed.append("SpecGen.v")
    sites = translate_sites(["valida/conditions.py", "valida/data.py", "valida/datapath.py", "valida/rules.py",
                             "valida/schema.py", "valida/utils.py", "valida/casting.py", "valida/callables.py"])
    text = ("(* GENERATED by harness/translate.py: every statement of valida/*.py that writes through an attribute or a\n"
            "   subscript, or calls a mutating method, on something other than a fresh local object or the object under\n"
            "   construction in __init__ -- do not edit *)\nFrom Coq Require Import List String.\nImport ListNotations.\n"
            "Local Open Scope string_scope.\n\n" + sites)
    if write_if_changed(os.path.join(GEN_DIR, "SitesGen.v"), text):
        changed.append("SitesGen.v")
    import copy as _copy
    global PARSER_FAMILY
    fam = _copy.deepcopy(PARSER_FAMILY)

    def refused_file(name, ex):
        """The two abstraction generators feed one property each: a refusal there breaks that property's obligations only
        (the generated file does not compile, so everything that depends on it is reported as a broken obligation)."""
        REFUSALS.append((name, str(ex)))
        return ("(* TRANSLATOR REFUSED: the source left the fragment the abstraction understands.\n   " + str(ex).replace("*)", "* )")[:1500] +
                " *)\nFrom Coq Require Import String.\nDefinition translator_refused : True := \"refused\"%string.\n")
    try:
        parsers = translate_parsers()
        text = ("(* GENERATED by harness/translate.py: the spec parsers abstracted to the operations of the aliasing analysis\n"
                "   (Taint.v) -- do not edit *)\nFrom Coq Require Import List String Bool.\nFrom Valida Require Import Taint.\n"
                "Import ListNotations.\nLocal Open Scope string_scope.\n\n" + parsers)
    except Refused as ex:
        text = refused_file("Gen/ParsersGen.v", ex)
    finally:
        PARSER_FAMILY = fam
    if write_if_changed(os.path.join(GEN_DIR, "ParsersGen.v"), text):
        changed.append("ParsersGen.v")
    from . import readonly
    try:
        ro, _info = readonly.render()
    except Refused as ex:
        if write_if_changed(os.path.join(GEN_DIR, "ReadOnlyGen.v"), refused_file("Gen/ReadOnlyGen.v", ex)):
            changed.append("ReadOnlyGen.v")
        return changed
    text = ("(* GENERATED by harness/readonly.py: every function of valida that a validation call can reach, abstracted to the\n"
            "   operations of the aliasing analysis (Taint.v), with the summary the translator proposes for it (which parameters\n"
            "   it may write, and how deep); Coq re-checks every summary -- do not edit *)\n"
            "From Coq Require Import List String Bool.\nFrom Valida Require Import Taint.\n"
            "Import ListNotations.\nLocal Open Scope string_scope.\n\n" + ro)
    if write_if_changed(os.path.join(GEN_DIR, "ReadOnlyGen.v"), text):
        changed.append("ReadOnlyGen.v")
    return changed


if __name__ == "__main__":
    try:
        ch = main()
    except Refused as e:
        print(f"TRANSLATOR-REFUSED: {e}")
        sys.exit(3)
    for name, msg in REFUSALS:
        print(f"TRANSLATOR-REFUSED[{name}]: {msg[:600]}")
    print("translated; changed:", ch)
