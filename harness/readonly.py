"""Whole-program read-only analysis for C08: every function of valida that a validation call can reach is
abstracted to the operations of the verified aliasing analysis (coq/theories/Taint.v) and given a summary
(which parameters it may write, and how deep); Coq re-checks every summary with `safe_s`, and the
entry points must have the summary "writes nothing it was given".

Fail-closed: any call that cannot be resolved, and any statement form that is not understood, raises Refused.
The abstraction of one function is the one used for the parsers (C16) with three differences:
  * a call of a function / method defined in valida is resolved BY NAME to every definition of that name and
    abstracted as an OpStore on each argument that one of the candidates may write (per its summary);
  * the result of such a call is an alias of anything (never assumed fresh), except constructor calls, whose
    result is a new object holding references to the arguments;
  * every name that is not a local, a parameter, a builtin, a module or a class counts as a caller's object
    (module-level state is shared state).
"""
import ast
import os

from . import coqenc as E
from .translate import Refused, refuse, qs, coq_list, read, MUTATORS

MODULES = ["conditions", "data", "datapath", "rules", "schema", "casting", "utils"]

ENTRY = [
    "conditions.ConditionLike.filter", "conditions.KeyLike.filter", "conditions.IndexLike.filter",
    "conditions.ConditionLike.test", "conditions.KeyLike.test", "conditions.IndexLike.test", "conditions.ConditionLike.test_all",
    "data.Data.filter", "data.Data.get", "datapath.DataPath.get_data",
    "datapath.MapValue.filter", "datapath.ListValue.filter", "datapath.MapOrListValue.filter",
    "rules.Rule.test", "schema.Schema.validate",
    # reading the results
    "rules.RuleTest.is_valid", "rules.RuleTest.tested", "rules.RuleTest.num_failures", "rules.RuleTest.failures",
    "rules.RuleTest.get_failures_string", "schema.ValidatedData.is_valid", "schema.ValidatedData.num_failures",
    "schema.ValidatedData.num_rules_tested", "schema.ValidatedData.frac_rules_tested", "schema.ValidatedData.get_failures_string",
    "data.FilteredDataLike.data", "data.FilteredDataLike.keys", "data.FilteredDataLike.failure_indices",
    "data.FilteredDataLike.get_all_failures", "data.FilteredDataLike.get_failure_by_index",
]
# parameters that are private output buffers by design: a caller that passes one hands it over to be written
PRIVATE_OUT = {"_data_copy"}

# the property's own anchor: "path extraction rebinds only the wrapper's own list" -- the Data wrapper is not one of the
# objects C08 protects (document, schema, rule, condition, path objects)
EXEMPT = {"data.Data.extract_paths": "rebinds the Data wrapper's own _values list (allowed by the property's anchor)"}

PURE_CALLS = {"len", "isinstance", "issubclass", "getattr", "hasattr", "enumerate", "zip", "next", "iter", "str", "int", "float",
              "bool", "type", "repr", "any", "all", "sum", "range", "print", "sorted", "reversed", "min", "max", "abs", "id",
              "callable", "super", "vars", "format", "round", "hash", "object", "NotImplemented"}
SHALLOW_CALLS = {"dict", "list", "tuple", "set", "frozenset"}
FRESH_BUILTINS = {"len", "isinstance", "issubclass", "str", "int", "float", "bool", "repr", "any", "all", "sum", "hasattr", "abs",
                  "round", "id", "hash", "callable", "format", "type"}
READ_METHODS = {"items", "keys", "values", "get", "split", "lower", "upper", "startswith", "endswith", "replace", "strip", "format",
                "join", "count", "index", "copy", "isdigit", "lstrip", "rstrip", "title", "capitalize", "encode", "decode", "find",
                "partition", "rpartition", "zfill", "warn", "deepcopy", "is_integer", "union", "intersection", "difference",
                "issubset", "issuperset", "signature", "bind", "with_suffix"}
MODULE_NAMES = {"copy", "valida", "operator", "warnings", "cnds", "re", "inspect", "enum", "pathlib", "json", "typing", "html",
                "ruamel", "yaml", "math", "functools", "itertools", "collections", "io", "os", "sys", "numbers"}
BUILTIN_CLASSES = {"TypeError", "ValueError", "KeyError", "IndexError", "AttributeError", "RuntimeError", "NotImplementedError",
                   "Exception", "StopIteration", "ArithmeticError", "LookupError", "ZeroDivisionError", "OverflowError",
                   "AssertionError", "DeprecationWarning", "UserWarning", "List", "Dict", "Optional", "Any", "Tuple", "Union",
                   "Path", "YAML", "Enum"}
# calls through a value that holds a function: what the value can be (by the enclosing function and the expression called)
DYNAMIC = {
    # self.callable(...): a PreparedConditionCallable (or any valida object with __call__)
    ("attr", "callable"): ("defs", ["__call__"]),
    # self.func(trial_datum, *args, **kwargs): one of the comparison functions of callables.py; they are translated
    # statement by statement into the pure evaluator (Gen/CallablesGen.v), a fragment without assignment to anything but locals
    ("attr", "func"): ("pure", "callables.py functions (translated to the pure evaluator: no mutation in the fragment)"),
    ("attr", "_func"): ("pure", "callables.py functions"),
    # self.PRE_PROCESSOR(datum): len / type (class attributes of LengthPreProcessor / DataTypePreProcessor) or None
    ("attr", "PRE_PROCESSOR"): ("pure", "len or type"),
    # binary_op(fd1, fd2): operator.and_ / or_ / xor on FilteredData objects -> __and__ / __or__ / __xor__
    ("name", "binary_op"): ("defs", ["__and__", "__or__", "__xor__"]),
    # v(datum) in Rule.test: a cast function (casting.py, or int)
    ("name", "v"): ("defs-or-pure", ["cast_string_to_bool"]),
    # classproperty.__get__: self.f(owner) -- the functions decorated with @classproperty (Value.length, Value.dtype ...)
    ("attr", "f"): ("defs", ["length", "dtype"]),
    # getattr(data, self.DATUM_TYPE.value)(): Data.keys / values / items
    ("getattr", ""): ("defs", ["keys", "values", "items"]),
}


class Def:
    def __init__(self, mod, cls, node):
        self.mod, self.cls, self.node, self.name = mod, cls, node, node.name
        decs = [ast.unparse(d) for d in node.decorator_list]
        for dname in decs:
            if dname not in ("property", "classproperty", "staticmethod", "classmethod") and not dname.endswith(".setter"):
                # e.g. functools.cached_property / lru_cache: hidden state the abstraction does not see
                refuse(node, f"{mod}.{cls}.{node.name}: decorator {dname} is not understood by the read-only analysis")
        self.is_property = any(d in ("property", "classproperty") for d in decs)
        self.is_setter = any(d.endswith(".setter") for d in decs)
        self.is_static = "staticmethod" in decs
        self.is_classmethod = "classmethod" in decs or "classproperty" in decs
        a = node.args
        self.params = [x.arg for x in a.posonlyargs + a.args] + [x.arg for x in a.kwonlyargs]
        self.npos = len(a.posonlyargs + a.args)
        self.vararg = a.vararg.arg if a.vararg else None
        self.kwarg = a.kwarg.arg if a.kwarg else None
        self.all_params = self.params + ([self.vararg] if self.vararg else []) + ([self.kwarg] if self.kwarg else [])
        self.key = f"{mod}.{cls}.{node.name}" if cls else f"{mod}.{node.name}"
        if self.is_setter:
            self.key += ".setter"
        self.is_ctor = node.name in ("__init__", "__new__", "__post_init__", "__init_subclass__")
        self.has_receiver = bool(cls) and not self.is_static and not self.is_classmethod and node.name != "__new__"

    def levels0(self):
        return ["Ext"] * len(self.all_params)


class Program:
    def __init__(self):
        self.defs = {}
        self.by_name = {}
        self.classes = {}
        self.bases = {}
        self.props = set()
        self.fresh_cache = {}
        for mod in MODULES:
            tree = ast.parse(read(f"valida/{mod}.py"))
            for n in tree.body:
                if isinstance(n, ast.FunctionDef):
                    self.add(Def(mod, None, n))
                elif isinstance(n, ast.ClassDef):
                    self.classes[n.name] = mod
                    self.bases[n.name] = [ast.unparse(b).split(".")[-1] for b in n.bases]
                    for m in n.body:
                        if isinstance(m, ast.FunctionDef):
                            self.add(Def(mod, n.name, m))
        errs = ast.parse(read("valida/errors.py"))
        self.error_classes = {n.name for n in errs.body if isinstance(n, ast.ClassDef)}

    def add(self, d):
        if d.key in self.defs:
            refuse(d.node, f"two definitions called {d.key}")
        self.defs[d.key] = d
        self.by_name.setdefault(d.name, []).append(d)
        if d.is_property:
            self.props.add(d.name)

    def all_bases(self, cls):
        seen, todo = set(), list(self.bases.get(cls, []))
        while todo:
            c = todo.pop()
            if c not in seen:
                seen.add(c)
                todo += self.bases.get(c, [])
        return seen

    def returns_fresh(self, d):
        """Does every `return` of the function give a new immutable value (a constant, a comparison, int(..), ...)?"""
        if d.key in self.fresh_cache:
            return self.fresh_cache[d.key]
        self.fresh_cache[d.key] = False        # recursion: assume not
        ab = Abs(self, d, {}, set())
        rets = [n for n in ast.walk(d.node) if isinstance(n, ast.Return)]
        res = bool(rets) and all(r.value is not None and ab.sources(r.value) == [] for r in rets) \
            and not any(isinstance(n, (ast.Yield, ast.YieldFrom)) for n in ast.walk(d.node))
        self.fresh_cache[d.key] = res
        return res

    def ctor_defs(self, cls):
        """__init__ / __new__ of the class and of all its (name-resolved) bases."""
        seen, todo, out = set(), [cls], []
        while todo:
            c = todo.pop()
            if c in seen:
                continue
            seen.add(c)
            for nm in ("__init__", "__new__"):
                k = f"{self.classes.get(c)}.{c}.{nm}"
                if k in self.defs:
                    out.append(self.defs[k])
            todo += [b for b in self.bases.get(c, []) if b in self.classes]
        return out


class Abs:
    """One function body -> Taint items, given the current summaries."""

    def __init__(self, prog, d, levels, called):
        self.p, self.d, self.levels, self.called = prog, d, levels, called
        self.fn = d.node
        self.params = set(d.all_params)
        self.ver, self.nver, self.versions, self.in_block = {}, 0, [], 0
        self.local = []
        for n in ast.walk(self.fn):
            if isinstance(n, ast.Name) and isinstance(n.ctx, ast.Store) and n.id not in self.params and n.id not in self.local:
                self.local.append(n.id)
            if isinstance(n, (ast.Global, ast.Nonlocal, ast.AsyncFunctionDef, ast.Await, ast.ClassDef)):
                refuse(n, f"{d.key}: statement form not understood by the read-only analysis")
            if isinstance(n, ast.FunctionDef) and n is not self.fn:
                refuse(n, f"{d.key}: nested function")

    # -- names -------------------------------------------------------------------------------
    def v(self, nm):
        """The current version of a variable (inside compound statements each assignment defines a new version, so
        that a rebinding such as `datum = cast(datum)` is not confused with the value it replaces)."""
        return self.ver.get(nm, nm)

    def new_version(self, nm):
        self.nver += 1
        name = f"{nm}#{self.nver}"
        self.versions.append(name)
        return name

    def is_value_name(self, nm):
        if nm in PURE_CALLS or nm in SHALLOW_CALLS or nm in MODULE_NAMES or nm in ("True", "False", "None"):
            return False
        if nm in self.p.classes or nm in self.p.error_classes or nm in BUILTIN_CLASSES:
            return False
        if nm in ("cls",) and self.d.is_classmethod:
            return False
        return True

    def names(self, e, skip_index=False):
        """Variables an expression mentions.  With skip_index, the index of a subscript is left out: x[i] is something
        held by x (the result of indexing comes from the container, for the builtin containers and for valida's own
        __getitem__ methods, which are analysed like every other method)."""
        out = []
        stack = [e]
        while stack:
            n = stack.pop()
            if isinstance(n, ast.Name) and self.is_value_name(n.id) and self.v(n.id) not in out:
                out.append(self.v(n.id))
            if skip_index and isinstance(n, ast.Subscript):
                stack.append(n.value)
                continue
            stack.extend(ast.iter_child_nodes(n))
        return out

    def vlist(self, vs):
        return coq_list([qs(v) for v in vs])

    # -- calls -------------------------------------------------------------------------------
    def candidates(self, call):
        """-> ("pure", None) | ("mutator", base, top) | ("defs", [Def], receiver_expr) | ("ctor", [Def])"""
        f = call.func
        if isinstance(f, ast.Name):
            nm = f.id
            if nm in PURE_CALLS or nm in SHALLOW_CALLS or nm in BUILTIN_CLASSES or nm in self.p.error_classes:
                return ("pure",)
            if nm in self.p.classes:
                return ("ctor", self.p.ctor_defs(nm))
            if nm == "cls" and self.d.is_classmethod or (nm == "cls" and self.d.name == "__new__"):
                return ("ctor", self.p.ctor_defs(self.d.cls))
            mods = [d for d in self.p.by_name.get(nm, []) if d.cls is None]
            if mods:
                return ("defs", mods, None)
            if ("name", nm) in DYNAMIC:
                return self.dynamic(DYNAMIC[("name", nm)], None)
            refuse(call, f"{self.d.key}: call of unknown name {nm}")
        if isinstance(f, ast.Attribute):
            recv, m = f.value, f.attr
            root = recv
            while isinstance(root, ast.Attribute):
                root = root.value
            if isinstance(root, ast.Name) and root.id in MODULE_NAMES:
                # module.function / module.Class
                if m in self.p.classes:
                    return ("ctor", self.p.ctor_defs(m))
                mods = [d for d in self.p.by_name.get(m, []) if d.cls is None]
                if root.id in ("valida", "cnds") and mods:
                    return ("defs", mods, None)
                if root.id in ("valida", "cnds"):
                    refuse(call, f"{self.d.key}: unresolved valida attribute {m}")
                return ("pure",)      # copy.deepcopy, operator.x, warnings.warn, inspect..., re...
            if m == "__class__" and isinstance(recv, ast.Name) and recv.id == "self" and self.d.cls:
                # self.__class__(...): the constructor of this class or of one of its subclasses
                out = []
                for c in self.p.classes:
                    if c == self.d.cls or self.d.cls in self.p.all_bases(c):
                        for g in self.p.ctor_defs(c):
                            if g not in out:
                                out.append(g)
                return ("ctor", out)
            if isinstance(recv, ast.Call) and isinstance(recv.func, ast.Name) and recv.func.id == "super":
                bases = self.p.all_bases(self.d.cls) if self.d.cls else set()
                ds = [d for d in self.p.by_name.get(m, []) if d.cls in bases]
                if not ds:
                    return ("pure",)      # object.__init__ / object.__new__ / a builtin base
                return ("defs", ds, ast.Name(id="self", ctx=ast.Load()))
            if m in MUTATORS and m not in self.p.by_name:
                return ("mutator", recv)
            ds = [d for d in self.p.by_name.get(m, []) if d.cls and not d.is_setter]
            if isinstance(root, ast.Name) and root.id in self.p.classes and not isinstance(recv, ast.Call):
                # Class.method(...): a classmethod / staticmethod call (DSL constructors)
                return ("defs", ds, None) if ds else ("pure",)
            if ds:
                if m in MUTATORS:
                    return ("mutator+defs", recv, ds)
                return ("defs", ds, recv)
            if m in READ_METHODS:
                return ("pure",)
            if ("attr", m) in DYNAMIC:
                return self.dynamic(DYNAMIC[("attr", m)], recv)
            refuse(call, f"{self.d.key}: call of unknown method .{m}()")
        if isinstance(f, ast.Call) and isinstance(f.func, ast.Name) and f.func.id == "type":
            # type(x)(...) where the function tests isinstance(x, (list, tuple, ...)): a new builtin container
            if len(f.args) == 1 and isinstance(f.args[0], ast.Name):
                x = f.args[0].id
                for n in ast.walk(self.fn):
                    if isinstance(n, ast.Call) and isinstance(n.func, ast.Name) and n.func.id == "isinstance" and len(n.args) == 2 \
                            and isinstance(n.args[0], ast.Name) and n.args[0].id == x:
                        tys = n.args[1].elts if isinstance(n.args[1], ast.Tuple) else [n.args[1]]
                        if all(isinstance(t, ast.Name) and t.id in SHALLOW_CALLS for t in tys):
                            return ("pure",)
            refuse(call, f"{self.d.key}: type(x)(...) on something not known to be a builtin container")
        if isinstance(f, ast.Call) and isinstance(f.func, ast.Name) and f.func.id == "getattr":
            return self.dynamic(DYNAMIC[("getattr", "")], f.args[0])
        refuse(call, f"{self.d.key}: call target shape")

    def dynamic(self, entry, recv):
        kind, what = entry
        if kind == "pure":
            return ("pure",)
        ds = []
        for nm in what:
            ds += [d for d in self.p.by_name.get(nm, [])]
        if not ds and kind == "defs-or-pure":
            return ("pure",)
        if not ds and kind == "defs":
            raise Refused(f"{self.d.key}: dynamic call resolves to no definition ({what})")
        return ("defs", ds, recv)

    def call_ops(self, call):
        c = self.candidates(call)
        argexprs = list(call.args) + [k.value for k in call.keywords]
        allnames = []
        for a in argexprs:
            for v in self.names(a):
                if v not in allnames:
                    allnames.append(v)
        ops = []
        if c[0] == "pure":
            return ops
        if c[0] in ("mutator", "mutator+defs"):
            b, depth = c[1], 0
            while isinstance(b, (ast.Attribute, ast.Subscript)):
                b = b.value
                depth += 1
            if isinstance(b, ast.Name):
                ops.append(f"OpStore {qs(self.v(b.id))} {E.enc_bool(depth == 0)} {self.vlist(allnames)}")
            elif isinstance(b, ast.Call):
                for v in self.names(b):
                    ops.append(f"OpStore {qs(v)} false {self.vlist(allnames)}")
            else:
                refuse(call, f"{self.d.key}: mutating call on a non-variable")
            if c[0] == "mutator":
                return ops
            c = ("defs", c[2], c[1])
        if c[0] == "ctor":
            defs, recv = c[1], None
        else:
            defs, recv = c[1], c[2]
        star = any(isinstance(a, ast.Starred) for a in call.args) or any(k.arg is None for k in call.keywords)
        for g in defs:
            self.called.add(g.key)
            lv = self.levels.get(g.key)
            if g.key in EXEMPT:
                continue
            if lv is None:        # could not be summarised: assume it writes everything it is given
                for v in (self.names(recv) if recv is not None else []) + allnames:
                    ops.append(f"OpStore {qs(v)} false {self.vlist(allnames)}")
                continue
            params = g.all_params
            binding = {}          # param index -> list of argument expressions
            first = 0
            if g.cls and not g.is_static:
                first = 1          # self / cls
                if g.has_receiver and recv is not None and c[0] != "ctor":
                    binding.setdefault(0, []).append(recv)
            pos = [a for a in call.args if not isinstance(a, ast.Starred)]
            for i, a in enumerate(pos):
                j = first + i
                if j < g.npos:
                    binding.setdefault(j, []).append(a)
                elif g.vararg:
                    binding.setdefault(params.index(g.vararg), []).append(a)
            for k in call.keywords:
                if k.arg is None:
                    continue
                if k.arg in g.params:
                    binding.setdefault(params.index(k.arg), []).append(k.value)
                elif g.kwarg:
                    binding.setdefault(params.index(g.kwarg), []).append(k.value)
            if star:
                extra = [a.value for a in call.args if isinstance(a, ast.Starred)] + [k.value for k in call.keywords if k.arg is None]
                for j in range(first, len(params)):
                    binding.setdefault(j, []).extend(extra)
            flows = self.levels.get(("flows", g.key))
            if flows is None:
                ys_g = allnames
            else:
                ys_g = []
                for j2, exprs2 in binding.items():
                    if params[j2] in flows:
                        for ex2 in exprs2:
                            for v2 in self.names(ex2):
                                if v2 not in ys_g:
                                    ys_g.append(v2)
                if "<world>" in flows:
                    ys_g.append("<world>")
            for j, exprs in binding.items():
                if lv[j] == "Ext":
                    continue
                for ex in exprs:
                    if isinstance(ex, ast.Name) and lv[j] == "Shal" and self.is_value_name(ex.id):
                        ops.append(f"OpStore {qs(self.v(ex.id))} true {self.vlist(ys_g)}")
                    else:
                        for v in self.names(ex):
                            ops.append(f"OpStore {qs(v)} false {self.vlist(ys_g)}")
        return ops

    def effects(self, node):
        ops = []
        for n in ast.walk(node):
            if isinstance(n, ast.Call):
                ops += self.call_ops(n)
            elif isinstance(n, ast.Attribute) and isinstance(n.ctx, ast.Load) and n.attr in self.p.props:
                # reading a property runs its getter
                for g in self.p.by_name.get(n.attr, []):
                    if not g.is_property:
                        continue
                    self.called.add(g.key)
                    lv = self.levels.get(g.key)
                    if lv is None:
                        for v in self.names(n.value):
                            ops.append(f"OpStore {qs(v)} false []")
                    elif lv and lv[0] != "Ext" and not g.is_classmethod:
                        if isinstance(n.value, ast.Name) and lv[0] == "Shal" and self.is_value_name(n.value.id):
                            ops.append(f"OpStore {qs(self.v(n.value.id))} true []")
                        else:
                            for v in self.names(n.value):
                                ops.append(f"OpStore {qs(v)} false []")
        return ops

    # -- assignments ---------------------------------------------------------------------------
    def sources(self, e):
        """What the value of an expression may be (or hold): a list of variables, None standing for 'anything'."""
        if isinstance(e, ast.Name):
            return [self.v(e.id)] if self.is_value_name(e.id) else []
        if isinstance(e, (ast.Attribute, ast.Subscript, ast.Starred)):
            return self.sources(e.value)
        if isinstance(e, ast.BoolOp):
            out = []
            for v in e.values:
                out += self.sources(v)
            return out
        if isinstance(e, ast.IfExp):
            return self.sources(e.body) + self.sources(e.orelse)
        if isinstance(e, ast.Call):
            f = e.func
            if isinstance(f, ast.Attribute) and isinstance(f.value, ast.Name) and f.value.id == "copy" and f.attr == "deepcopy":
                return []
            if isinstance(f, ast.Name) and f.id in FRESH_BUILTINS:
                return []
            c = self.candidates(e)
            ns = self.names(e, skip_index=True)
            if c[0] in ("defs", "mutator+defs"):
                ds = c[1] if c[0] == "defs" else c[2]
                if ds and all(self.p.returns_fresh(g) for g in ds):
                    return []          # every candidate returns a new immutable value
                return ns + ["<world>"]
            return ns
        if isinstance(e, (ast.Constant, ast.JoinedStr, ast.Compare)):
            return []
        return self.names(e, skip_index=True)

    def assign_op(self, target, value):
        if isinstance(value, ast.Name) and self.is_value_name(value.id):
            return f"OpCopy {qs(target)} {qs(self.v(value.id))}"
        ns = self.names(value, skip_index=True)
        if isinstance(value, (ast.BoolOp, ast.IfExp)):
            return f"OpAlias {qs(target)} {self.vlist(list(dict.fromkeys(self.sources(value))))}"
        if isinstance(value, ast.Call):
            f = value.func
            if isinstance(f, ast.Attribute) and isinstance(f.value, ast.Name) and f.value.id == "copy":
                if f.attr == "deepcopy":
                    return f"OpDeep {qs(target)} {self.vlist(ns)}"
                if f.attr == "copy":
                    return f"OpShallow {qs(target)} {self.vlist(ns)}"
            c = self.candidates(value)
            if isinstance(f, ast.Name) and f.id in SHALLOW_CALLS:
                return f"OpShallow {qs(target)} {self.vlist(ns)}"
            if c[0] == "ctor":
                return f"OpShallow {qs(target)} {self.vlist(ns)}"
            src = list(dict.fromkeys(self.sources(value)))
            if not src:
                return f"OpFresh {qs(target)}"
            return f"OpAlias {qs(target)} {self.vlist(src)}"     # the result of a valida call is never assumed fresh
        if isinstance(value, (ast.List, ast.Dict, ast.Set, ast.Tuple, ast.ListComp, ast.DictComp, ast.SetComp, ast.GeneratorExp, ast.BinOp)):
            return f"OpShallow {qs(target)} {self.vlist(ns)}"
        if isinstance(value, (ast.Constant, ast.JoinedStr, ast.Compare)) or (isinstance(value, (ast.BoolOp, ast.UnaryOp)) and not ns):
            return f"OpFresh {qs(target)}"
        return f"OpAlias {qs(target)} {self.vlist(ns)}"

    def store_target(self, t, value_names, s):
        b, depth = t, 0
        while isinstance(b, (ast.Attribute, ast.Subscript)):
            b = b.value
            depth += 1
        if not isinstance(b, ast.Name):
            refuse(s, f"{self.d.key}: store through a non-variable")
        return f"OpStore {qs(self.v(b.id))} {E.enc_bool(depth == 1)} {self.vlist(value_names)}"

    def simple(self, s):
        ops = []
        if isinstance(s, (ast.Assign, ast.AnnAssign)):
            value = s.value
            if value is None:
                return ops
            targets = s.targets if isinstance(s, ast.Assign) else [s.target]
            ops += self.effects(value)
            newver = {}
            for t in targets:
                if isinstance(t, ast.Name):
                    if self.in_block:
                        nv = self.new_version(t.id)
                        ops.append(self.assign_op(nv, value))
                        ops.append(f"OpCopy {qs(t.id)} {qs(nv)}")
                        newver[t.id] = nv
                    else:
                        ops.append(self.assign_op(t.id, value))
                elif isinstance(t, (ast.Tuple, ast.List)):
                    for x in t.elts:
                        if isinstance(x, ast.Starred):
                            x = x.value
                        if not isinstance(x, ast.Name):
                            refuse(s, f"{self.d.key}: nested assignment target")
                        src = list(dict.fromkeys(self.sources(value)))
                        if self.in_block:
                            nv = self.new_version(x.id)
                            ops.append(f"OpAlias {qs(nv)} {self.vlist(src)}")
                            ops.append(f"OpCopy {qs(x.id)} {qs(nv)}")
                            newver[x.id] = nv
                        else:
                            ops.append(f"OpAlias {qs(x.id)} {self.vlist(src)}")
                elif isinstance(t, (ast.Subscript, ast.Attribute)):
                    ops += self.effects(t.value)
                    ops.append(self.store_target(t, self.names(value), s))
                else:
                    refuse(s, f"{self.d.key}: assignment target")
            self.ver.update(newver)
        elif isinstance(s, ast.AugAssign):
            ops += self.effects(s.value)
            if isinstance(s.target, ast.Name):
                # x += e: either x's object is extended in place (a list), or x is rebound to a new immutable value made of
                # the old contents and e's: in both cases x afterwards is what a top-level store of e's contents makes of it
                ops.append(f"OpStore {qs(self.v(s.target.id))} true {self.vlist(self.names(s.value))}")
            else:
                ops.append(self.store_target(s.target, self.names(s.value), s))
        elif isinstance(s, ast.Delete):
            for t in s.targets:
                if isinstance(t, ast.Name):
                    continue
                ops.append(self.store_target(t, [], s))
        elif isinstance(s, (ast.Expr, ast.Return, ast.Raise, ast.Assert)):
            for f_ in ("value", "exc", "test", "msg", "cause"):
                v = getattr(s, f_, None)
                if v is not None:
                    ops += self.effects(v)
        elif isinstance(s, (ast.Pass, ast.Break, ast.Continue, ast.Import, ast.ImportFrom)):
            pass
        else:
            refuse(s, f"{self.d.key}: simple statement form")
        return ops

    @staticmethod
    def assigned(stmts):
        out = set()
        for st in stmts:
            for n in ast.walk(st):
                if isinstance(n, ast.Name) and isinstance(n.ctx, (ast.Store, ast.Del)):
                    out.add(n.id)
        return out

    def stmt_list(self, stmts, drop=()):
        """The operations of a statement list inside a compound statement.  Versions defined in the list are visible to
        the statements that follow in the same list; a variable assigned inside a nested compound statement reverts to
        its base name (which every version flows into) afterwards; the version map is restored at the end."""
        saved = dict(self.ver)
        for x in drop:
            self.ver.pop(x, None)
        self.in_block += 1
        ops = []
        try:
            self.list_into(stmts, ops)
        finally:
            self.in_block -= 1
            self.ver = saved
        return ops

    def list_into(self, stmts, ops):
        for b in stmts:
            if isinstance(b, ast.Try) and not b.finalbody and b.handlers and \
                    all(h.body and isinstance(h.body[-1], (ast.Raise, ast.Return, ast.Continue, ast.Break)) for h in b.handlers):
                # every handler leaves: what follows the try statement runs after its whole body, in the same scope
                before = dict(self.ver)
                self.list_into(b.body + b.orelse, ops)
                after = dict(self.ver)
                self.ver = before
                for h in b.handlers:
                    ops += self.stmt_list(h.body, self.assigned(b.body))
                self.ver = after
                continue
            sub = self.nested(b)
            if sub is not None:
                ops += sub
                for x in self.assigned([b]):
                    self.ver.pop(x, None)
            else:
                ops += self.simple(b)

    def dropped(self, drop, fn):
        saved = dict(self.ver)
        for x in drop:
            self.ver.pop(x, None)
        try:
            return fn()
        finally:
            self.ver = saved

    def nested(self, s):
        ops = []
        if isinstance(s, ast.For):
            ops += self.effects(s.iter)
            world = ['<world>'] if any(isinstance(n, ast.Call) for n in ast.walk(s.iter)) else []
            for x in ast.walk(s.target):
                if isinstance(x, ast.Name):
                    ops.append(f"OpAlias {qs(x.id)} {self.vlist(self.names(s.iter) + world)}")
            drop = self.assigned(s.body) | self.assigned([s.target])
            ops += self.stmt_list(s.body, drop)
            ops += self.stmt_list(s.orelse, drop)
        elif isinstance(s, ast.While):
            drop = self.assigned(s.body)
            ops += self.dropped(drop, lambda: self.effects(s.test))
            ops += self.stmt_list(s.body, drop)
            ops += self.stmt_list(s.orelse, drop)
        elif isinstance(s, ast.If):
            ops += self.effects(s.test)
            ops += self.stmt_list(s.body)
            ops += self.stmt_list(s.orelse)
        elif isinstance(s, ast.Try):
            ops += self.stmt_list(s.body)
            drop = self.assigned(s.body)
            for h in s.handlers:
                ops += self.stmt_list(h.body, drop)
            ops += self.stmt_list(s.orelse, drop)
            drop = drop | self.assigned(s.orelse) | self.assigned([x for h in s.handlers for x in h.body])
            ops += self.stmt_list(s.finalbody, drop)
        elif isinstance(s, ast.With):
            for it in s.items:
                ops += self.effects(it.context_expr)
                if it.optional_vars is not None:
                    for x in ast.walk(it.optional_vars):
                        if isinstance(x, ast.Name):
                            ops.append(f"OpAlias {qs(x.id)} {self.vlist(self.names(it.context_expr) + ['<world>'])}")
            ops += self.stmt_list(s.body, self.assigned([it.optional_vars for it in s.items if it.optional_vars is not None]))
        else:
            return None
        return ops

    @staticmethod
    def terminates(body):
        return bool(body) and isinstance(body[-1], (ast.Raise, ast.Return))

    def block_ops(self, body):
        return self.stmt_list(body)

    def seq(self, body):
        out = []
        for s in body:
            if isinstance(s, ast.Expr) and isinstance(s.value, ast.Constant):
                continue
            if isinstance(s, ast.If) and self.terminates(s.body):
                out.append(("B", self.effects(s.test) + self.block_ops(s.body)))
                out += self.seq(s.orelse)
                continue
            sub = self.nested(s)
            if sub is not None:
                out.append(("B", sub))
            else:
                for o in self.simple(s):
                    out.append(("S", o))
        return out

    def prefix(self):
        pre = [("S", f"OpFresh {qs(v)}") for v in sorted(self.local) + self.versions]
        if self.d.name in ("__init__", "__post_init__"):
            # the object under construction is new (Python's construction protocol; no explicit __init__ calls on old objects)
            pre.append(("S", f"OpShallow {qs(self.d.params[0])} []"))
        return pre

    def items(self):
        body = self.seq(self.fn.body)
        return self.prefix() + body

    def variants(self, limit=16):
        """The body split at its top-level if / else statements: one straight-line variant per combination of branches
        (every run of the function is a run of one of them)."""
        outs = [[]]
        for s in self.fn.body:
            if isinstance(s, ast.If) and s.orelse and not self.terminates(s.body) and len(outs) * 2 <= limit:
                t = [("B", self.effects(s.test))] if self.effects(s.test) else []
                a, b = t + self.seq(s.body), t + self.seq(s.orelse)
                outs = [o + a for o in outs] + [o + b for o in outs]
            else:
                one = self.seq([s])
                outs = [o + one for o in outs]
        pre = self.prefix()
        return [pre + o for o in outs]


# ---- a Python port of the analysis of Taint.v (used only to PROPOSE summaries; Coq re-checks every one) -----------------------
def _join(a, b):
    order = {"Deep": 0, "Shal": 1, "Ext": 2}
    return a if order[a] >= order[b] else b


def _parse(op):
    # "OpX "a" [true] ["b"; "c"]"
    import re
    kind = op.split(" ", 1)[0]
    strs = re.findall(r'"((?:[^"]|"")*)"', op)
    flag = " true " in op
    return kind, strs, flag


def _astep(strong, e, op):
    kind, strs, flag = _parse(op)
    x, ys = strs[0], strs[1:]
    get = lambda v: e.get(v, "Ext")
    def upd(l):
        e2 = dict(e)
        e2[x] = l if strong else _join(get(x), l)
        return e2
    all_deep = all(get(y) == "Deep" for y in ys)
    if kind == "OpFresh":
        return upd("Deep"), True
    if kind == "OpDeep":
        return upd("Deep"), True
    if kind == "OpShallow":
        return upd("Deep" if all_deep else "Shal"), True
    if kind == "OpCopy":
        return upd(get(ys[0])), True
    if kind == "OpAlias":
        l = "Deep"
        for y in ys:
            l = _join(l, "Deep" if get(y) == "Deep" else "Ext")
        return upd(l), True
    if kind == "OpStore":
        ok = {"Deep": True, "Shal": flag, "Ext": False}[get(x)]
        if all_deep:
            return e, ok
        e2 = {k: ("Shal" if v == "Deep" else v) for k, v in e.items()}
        e2[x] = _join(get(x), "Shal")
        return e2, ok
    raise Refused("unknown op " + op)


def _arun(e, items):
    ok = True
    for kind, o in items:
        if kind == "S":
            e, k = _astep(True, e, o)
            ok = ok and k
        else:
            for _ in range(3 * (len(e) + len(o)) + 3):
                e1 = e
                k1 = True
                for op in o:
                    e1, k = _astep(False, e1, op)
                    k1 = k1 and k
                same = all(e1.get(v, "Ext") == e.get(v, "Ext") for v in set(e) | set(e1))
                ok = ok and k1
                e = e1
                if same:
                    break
            else:
                ok = False
    return ok


def flows_of(d, variants):
    """Parameters (and "<world>") whose values may end up stored into some object by the function: the contents a call
    site must assume written into the arguments the function writes."""
    params = set(d.all_params)
    derive = {}
    ops = []
    for body in variants:
        for kind, o in body:
            ops += [o] if kind == "S" else list(o)
    parsed = [_parse(o) for o in ops]

    def src(y):
        return {y} if (y in params or y == "<world>") else derive.get(y, set())
    changed = True
    while changed:
        changed = False
        for kind, strs, _flag in parsed:
            x, ys = strs[0], strs[1:]
            if kind in ("OpAlias", "OpShallow", "OpStore", "OpCopy"):
                new = set()
                for y in ys:
                    new |= src(y)
                if kind == "OpStore" and x in params:
                    continue      # what a parameter's object comes to hold does not change where the parameter came from
                if not new <= derive.get(x, set()):
                    derive[x] = derive.get(x, set()) | new
                    changed = True
    out = set()
    for kind, strs, _flag in parsed:
        if kind == "OpStore":
            for y in strs[1:]:
                out |= src(y)
    return out


WHY = {}


def why(k):
    out = [k]
    while out[-1] in WHY and WHY[out[-1]] not in out:
        out.append(WHY[out[-1]])
    return " <- ".join(out)


def analyse():
    prog = Program()
    levels = {k: d.levels0() for k, d in prog.defs.items()}
    for k in EXEMPT:
        if k not in prog.defs:
            raise Refused(f"exempt function {k} not found")
    for k in ENTRY:
        if k not in prog.defs:
            raise Refused(f"entry point {k} not found in the source")
    # reachable set: entries + every non-constructor dunder method (implicit calls) + transitive callees
    reach = set(ENTRY) | {k for k, d in prog.defs.items() if d.name.startswith("__") and d.name.endswith("__") and not d.is_ctor and d.cls}
    bodies = {}
    split = set()
    for _round in range(40):
        changed = False
        todo = list(reach)
        done = set()
        while todo:
            k = todo.pop()
            if k in done or k in EXEMPT:
                continue
            done.add(k)
            d = prog.defs[k]
            called = set()
            try:
                Abs(prog, d, levels, set()).items()
            except Refused as ex:
                raise Refused(f"{ex}  [reached: {why(k)}]")
            ab = Abs(prog, d, levels, called)
            vs = ab.variants() if k in split else [ab.items()]
            bodies[k] = vs
            if levels[k] is not None:
                def ok_with(lv, vs_):
                    return all(_arun(dict(zip(d.all_params, lv)), it) for it in vs_)

                def search(vs_):
                    if ok_with(levels[k], vs_):
                        return levels[k]
                    n = len(d.all_params)
                    trials = [[(i, "Shal")] for i in range(n) if levels[k][i] == "Ext"]
                    trials += [[(i, "Deep")] for i in range(n) if levels[k][i] != "Deep"]
                    for tr in trials:
                        lv = list(levels[k])
                        for i, l in tr:
                            lv[i] = l
                        if ok_with(lv, vs_):
                            return lv
                    return None
                found = search(vs)
                if found is None and k not in split:
                    # flow-insensitive analysis of the whole body fails: split the body at its top-level if / else
                    vs2 = ab.variants()
                    if len(vs2) > 1:
                        f2 = search(vs2)
                        if f2 is not None:
                            split.add(k)
                            bodies[k] = vs2
                            found = f2
                if found is None:
                    n = len(d.all_params)
                    lv = ["Deep"] * n
                    if ok_with(lv, bodies[k]):
                        found = lv
                if found != levels[k]:
                    levels[k] = found
                    changed = True
            fl = flows_of(d, bodies[k])
            if levels.get(("flows", k)) != fl:
                levels[("flows", k)] = fl
                changed = True
            for c in called:
                WHY.setdefault(c, k)
                if c not in reach:
                    reach.add(c)
                    changed = True
                if c not in done:
                    todo.append(c)
        if not changed:
            break
    else:
        raise Refused("summary inference did not reach a fixed point")
    return prog, levels, reach, bodies


def render():
    prog, levels, reach, bodies = analyse()
    rows, unsummarised, nsplit = [], [], 0
    for k in sorted(reach):
        if k in EXEMPT:
            continue
        d = prog.defs[k]
        lv = levels[k]
        if lv is None:
            unsummarised.append(k)
            lv = ["Ext"] * len(d.all_params)
        vs = bodies[k]
        nsplit += len(vs) > 1
        for vi, body in enumerate(vs):
            items = []
            for kind, o in body:
                items.append(f"Straight ({o})" if kind == "S" else "Block " + coq_list(["(" + x + ")" for x in o]))
            name = k if len(vs) == 1 else f"{k}#path{vi + 1}of{len(vs)}"
            rows.append(f"  {{| sf_fun := {{| af_name := {qs(name)}; af_params := {coq_list([qs(p) for p in d.all_params])};\n"
                        f"                 af_body := {coq_list(items)} |}};\n     sf_levels := {coq_list(lv)} |}}")
    text = ("Definition ro_funs : list sfun := [\n" + ";\n".join(rows) + "\n].\n\n"
            "Definition ro_entries : list string := " + coq_list([qs(k) for k in ENTRY]) + ".\n"
            "Definition ro_private_out : list string := " + coq_list([qs(k) for k in sorted(PRIVATE_OUT)]) + ".\n"
            "Definition ro_exempt : list string := " + coq_list([qs(k) for k in sorted(EXEMPT)]) + ".\n"
            "Definition ro_unsummarised : list string := " + coq_list([qs(k) for k in unsummarised]) + ".\n")
    return text, {"functions": len(reach) - len(EXEMPT), "split": nsplit, "unsummarised": unsummarised,
                  "writers": {k: levels[k] for k in sorted(reach) if levels.get(k) and any(l != "Ext" for l in levels[k])}}


if __name__ == "__main__":
    import json
    try:
        t, info = render()
    except Refused as e:
        print("REFUSED:", e)
        raise SystemExit(3)
    print(json.dumps(info, indent=1))


def explain(key, lv=None):
    """Debugging aid: the abstraction of one function and the first operation the analysis rejects."""
    prog, levels, reach, bodies = analyse()
    d = prog.defs[key]
    items = bodies[key][0]
    e = dict(zip(d.all_params, lv or ["Ext"] * len(d.all_params)))
    for kind, o in items:
        if kind == "S":
            e2, ok = _astep(True, e, o)
            if not ok:
                print("REJECT S:", o, "| env:", {k: v for k, v in e.items() if v != "Deep"})
            e = e2
        else:
            for _ in range(3 * (len(e) + len(o)) + 3):
                e1 = e
                for op in o:
                    e1n, ok = _astep(False, e1, op)
                    if not ok:
                        print("REJECT B:", op, "| env:", {k: v for k, v in e1.items() if v != "Deep"})
                    e1 = e1n
                same = all(e1.get(v, "Ext") == e.get(v, "Ext") for v in set(e) | set(e1))
                e = e1
                if same:
                    break
    return items


def explain_optimistic(key):
    """Rejections of one function when every callee is assumed to write nothing."""
    prog = Program()
    levels = {k: d.levels0() for k, d in prog.defs.items()}
    d = prog.defs[key]
    items = Abs(prog, d, levels, set()).items()
    e = dict(zip(d.all_params, d.levels0()))
    for kind, o in items:
        if kind == "S":
            e2, ok = _astep(True, e, o)
            if not ok:
                print("REJECT S:", o, "| not-deep:", {k: v for k, v in e.items() if v != "Deep"})
            e = e2
        else:
            for _ in range(3 * (len(e) + len(o)) + 3):
                e1 = e
                for op in o:
                    e1n, ok = _astep(False, e1, op)
                    if not ok:
                        print("REJECT B:", op, "| not-deep:", {k: v for k, v in e1.items() if v != "Deep"})
                    e1 = e1n
                same = all(e1.get(v, "Ext") == e.get(v, "Ext") for v in set(e) | set(e1))
                e = e1
                if same:
                    break
    return items
