import argparse
import json
import os
import sys

from . import runner


def main():
    ap = argparse.ArgumentParser()
    ap.add_argument("prop", nargs="?")
    ap.add_argument("--setup", action="store_true")
    ap.add_argument("--tier", default=os.environ.get("VERIF_TIER", "quick"))
    ap.add_argument("--replay")
    ap.add_argument("--seed", type=int, default=int(os.environ.get("VERIF_SEED", "0") or 0))
    a = ap.parse_args()
    if a.setup:
        sys.exit(runner.setup())
    if not a.prop:
        ap.error("property id required")
    if a.prop == "pysem":
        from . import pysem
        cases, descr, bad = pysem.run(a.seed, 3000 if a.tier == "quick" else 40000)
        print(f"pysem: {len(cases)} cases, {len(bad)} mismatches")
        for i in bad[:10]:
            print(descr[i])
        sys.exit(1 if bad else 0)
    replay = None
    if a.replay:
        replay = json.load(open(a.replay))
    tier = a.tier if a.tier in ("quick", "thorough") else "quick"
    if os.environ.get("VALIDA_CHILD") == "1":
        sys.exit(runner.run_check(a.prop.upper(), tier, a.seed, replay))
    # Supervisor: the check itself runs in a child process.  An implementation that never returns from a C-level loop (for example
    # `x in range(0, 2**62)` for a non-integer x) cannot be interrupted from inside the process; the supervisor ends such a run after a
    # generous limit and reports that the property is no longer shown to hold, instead of hanging.
    import signal
    import subprocess
    limit = int(os.environ.get("VALIDA_CHECK_LIMIT", "2700" if tier == "quick" else "21600"))
    cmd = [sys.executable, "-m", "harness.cli", a.prop, "--tier", tier, "--seed", str(a.seed)] + (["--replay", a.replay] if a.replay else [])
    child = subprocess.Popen(cmd, env=dict(os.environ, VALIDA_CHILD="1"), start_new_session=True)
    try:
        sys.exit(child.wait(timeout=limit))
    except subprocess.TimeoutExpired:
        try:
            os.killpg(child.pid, signal.SIGKILL)
        except OSError:
            pass
        child.wait()
        pid = a.prop.upper()
        rp = runner.write_replay(pid, {"property": pid, "kind": "check-timeout", "limit_seconds": limit, "tier": tier, "seed": a.seed,
                                       "note": "the check did not finish within the limit (an implementation call that does not return, or "
                                               "runs astronomically long, counts as a failure): the property is not shown to hold"})
        print(f"VIOLATION property={pid} replay={rp} no-failing-input-found", flush=True)
        sys.exit(1)
    except KeyboardInterrupt:
        try:
            os.killpg(child.pid, signal.SIGKILL)
        except OSError:
            pass
        raise


if __name__ == "__main__":
    main()
