import argparse
import json
import os
import sys

from . import runner


def main():
    ap = argparse.ArgumentParser()
    ap.add_argument("prop", nargs="?")
    ap.add_argument("--setup", action="store_true")
    ap.add_argument("--tier", default=os.environ.get("VERIF_TIER", "quick"))
    ap.add_argument("--replay")
    ap.add_argument("--seed", type=int, default=int(os.environ.get("VERIF_SEED", "0") or 0))
    a = ap.parse_args()
    if a.setup:
        sys.exit(runner.setup())
    if not a.prop:
        ap.error("property id required")
    if a.prop == "pysem":
        from . import pysem
        cases, descr, bad = pysem.run(a.seed, 3000 if a.tier == "quick" else 40000)
        print(f"pysem: {len(cases)} cases, {len(bad)} mismatches")
        for i in bad[:10]:
            print(descr[i])
        sys.exit(1 if bad else 0)
    replay = None
    if a.replay:
        replay = json.load(open(a.replay))
    tier = a.tier if a.tier in ("quick", "thorough") else "quick"
    sys.exit(runner.run_check(a.prop.upper(), tier, a.seed, replay))


if __name__ == "__main__":
    main()
