"""Evaluate generated case files inside Coq (vm_compute) and report mismatching case indices."""
import os
import re
import subprocess
import shutil
from concurrent.futures import ThreadPoolExecutor

VERIF = os.path.dirname(os.path.dirname(os.path.abspath(__file__)))
COQ_DIR = os.path.join(VERIF, "coq")
BUILD = os.path.join(VERIF, "_build")

HEADER = """From Coq Require Import ZArith NArith List String Bool Ascii.
From Valida Require Import {imports}.
Import ListNotations.
Open Scope string_scope.
Open Scope Z_scope.
"""


class CoqEvalError(Exception):
    pass


def _big_stack():
    """Case files hold deeply nested literals (HTML of deep schemas, long strings as lists of characters): coqc's parser and the
    VM recurse on them; give the child the largest stack the hard limit allows."""
    import resource
    soft, hard = resource.getrlimit(resource.RLIMIT_STACK)
    try:
        resource.setrlimit(resource.RLIMIT_STACK, (hard, hard))
    except (ValueError, OSError):
        pass


def _run_shard(path, timeout):
    cmd = ["timeout", str(timeout), "coqc", "-Q", os.path.join(COQ_DIR, "theories"), "Valida", "-w", "none", path]
    p = subprocess.run(cmd, capture_output=True, text=True, cwd=os.path.dirname(path), preexec_fn=_big_stack)
    if p.returncode != 0:
        raise CoqEvalError(f"coqc failed on {path} (rc={p.returncode}):\n{p.stdout[-2000:]}\n{p.stderr[-4000:]}")
    m = re.search(r"=\s*(\[[^\]]*\])", p.stdout, re.S)
    if not m:
        raise CoqEvalError(f"no result in coqc output for {path}:\n{p.stdout[-2000:]}")
    return [int(x) for x in re.findall(r"\d+", m.group(1))]


def eval_cases(name, imports, cases, shard=300, jobs=16, timeout=600, prelude=""):
    """cases: list of Gallina terms of type `res pyval * res pyval` (model or oracle outcome, implementation outcome).
    Returns the list of indices whose model outcome does not match."""
    d = os.path.join(BUILD, "cases", name)
    shutil.rmtree(d, ignore_errors=True)
    os.makedirs(d, exist_ok=True)
    paths = []
    for si in range(0, len(cases), shard):
        chunk = cases[si:si + shard]
        path = os.path.join(d, f"s{si // shard}.v")
        with open(path, "w") as fh:
            fh.write(HEADER.format(imports=imports))
            fh.write(prelude)
            fh.write("Definition cases : list (res pyval * res pyval) := [\n")
            fh.write(";\n".join(chunk))
            fh.write("\n].\nEval vm_compute in (mismatches cases).\n")
        paths.append((si, path))
    bad = []
    with ThreadPoolExecutor(max_workers=jobs) as ex:
        for (si, _), idxs in zip(paths, ex.map(lambda sp: _run_shard(sp[1], timeout), paths)):
            bad.extend(si + i for i in idxs)
    return sorted(bad)


def eval_terms(name, imports, terms, timeout=300, prelude=""):
    """Evaluate each term (any type) and return Coq's printed output (debugging / replays)."""
    d = os.path.join(BUILD, "cases", name)
    os.makedirs(d, exist_ok=True)
    path = os.path.join(d, "dbg.v")
    with open(path, "w") as fh:
        fh.write(HEADER.format(imports=imports))
        fh.write(prelude)
        for t in terms:
            fh.write(f"Eval vm_compute in ({t}).\n")
    cmd = ["timeout", str(timeout), "coqc", "-Q", os.path.join(COQ_DIR, "theories"), "Valida", "-w", "none", path]
    p = subprocess.run(cmd, capture_output=True, text=True, cwd=d, preexec_fn=_big_stack)
    if p.returncode != 0:
        raise CoqEvalError(p.stdout[-2000:] + p.stderr[-4000:])
    return p.stdout
