"""Generators shared by the nested-argument correspondences (C09 / C10 / C11 / C13 / C14 / C16): conditions of one-parameter callables
whose argument is a list / tuple with data paths among its items or a mapping with data paths among its values."""
import copy

from .terms import Leaf, Bin
from .specgen import normalise_path

LITS = [1, "s", None, 2.5, True, {"path": 1}, {"a": [1]}, [1, "x"], {"path": ["a"], "b": 2}, []]
NESTED_IMPORTS = ("Py Lang Defs Cond Dsl Check DocSem PathSpec Path Cast RuleDefs RuleSpec Rule Inst Run RunRule RuleTerms NestedArgs "
                  "SpecDefs Spec SpecIO Eq NestedIO NestedRuleIO NestedSpell RunNestedEq RunNestedRule")


def nested_item(g, pg, doc, path_p=0.5):
    from .props.c10 import limit_parts
    if g.r.random() < path_p:
        pa = normalise_path(limit_parts(pg.path(doc, max_len=2, mods_p=0.4)))
        # under a data-type class every argument is read as a type name (known finding D12, exercised by C09's main pass): keep the
        # conditions inside the parts of a nested path within what both the API and the spec language can say
        from .props.c10 import types_under_dtype
        for part in pa.parts:
            for ca in (getattr(part, "kw", None) or {}).values():
                if ca is not None and not ca.is_lit:
                    types_under_dtype(ca.cond)
        return pa
    return copy.deepcopy(g.r.choice(LITS))


def nested_leaf(g, pg, doc, tuple_p=0.0, classes=("Value", "Value", "Key", "Index")):
    if g.r.random() < 0.65:
        arg = [nested_item(g, pg, doc) for _ in range(g.r.randint(1, 4))]
        if g.r.random() < tuple_p:
            arg = tuple(arg)
    else:
        arg = {kk: nested_item(g, pg, doc) for kk in g.r.sample(["k", "j", "a", "n"], g.r.randint(1, 3))}
    m = g.r.choice(["in_", "not_in", "equal_to", "not_equal_to"]) if not isinstance(arg, dict) else g.r.choice(["equal_to", "not_equal_to"])
    return Leaf(g.r.choice(list(classes)), m, [arg])


def nested_tree(g, pg, doc, tuple_p=0.0, classes=("Value", "Value", "Key", "Index"), evaluated=False):
    """evaluated: the condition will be FILTERED on documents - then no range bound is given as a path (a bound picked up in a document
    can be astronomically large, and `x in range(lo, hi)` scans the range for a non-integer x: I.10)."""
    t = nested_leaf(g, pg, doc, tuple_p, classes)
    if g.r.random() < 0.35:
        b = nested_leaf(g, pg, doc, tuple_p, classes) if g.r.random() < 0.6 else \
            Leaf("Value", "in_range", [], {"lower": nested_item(g, pg, doc) if (g.r.random() < 0.5 and not evaluated) else 1, "upper": 5})
        t = Bin(g.r.choice(["and", "or", "xor"]), t, b)
        if {l.cls for l in t.leaves()} >= {"Key", "Index"}:
            for l in t.leaves():
                l.cls = "Value"
    return t
