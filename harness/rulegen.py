"""Generators of rules and schemas guided by the document."""
from .pathgen import PathGen
from .pathterms import PathT, Prim
from .ruleterms import RuleT
from .terms import Leaf, Null, Bin
from .valgen import copy_value

VALUE_CLASSES = ["Value", "Value", "ValueLength", "ValueDataType"]


class RuleGen:
    def __init__(self, cg):
        self.cg, self.g, self.r = cg, cg.g, cg.r
        self.pg = PathGen(cg)

    def selected(self, pt, doc):
        try:
            out = pt.build().get_data(doc)
        except Exception:
            return []
        if out is None:
            return []
        return out if isinstance(out, list) and any(p.explicit for p in pt.parts) else [out]

    def rule(self, doc, cast_p=0.0, depth=2, path_args_p=0.0):
        pt = self.pg.path(doc, max_len=3, mods_p=0.0)
        if self.r.random() < 0.1 and not (isinstance(doc, dict) and "_mixed" in doc):
            # graft a sub-document with sibling mappings and lists, reached by ONE map-or-list part with its own conditions
            sub, pt2 = self.pg.mixed_doc_and_path()
            if isinstance(doc, dict):
                doc["_mixed"] = sub
                pt = PathT([Prim("_mixed")] + pt2.parts, [])
            else:
                doc.append(sub)
                pt = PathT([Prim(len(doc) - 1)] + pt2.parts, [])
        sel = self.selected(pt, doc)
        probe = [x for x in sel] or [1, "a"]
        if sel and self.r.random() < 0.4:
            # a condition that is meaningful for (and mostly true of) one of the selected nodes
            cond = self.cg.sensible_leaf(self.r.choice(sel))
            if self.r.random() < 0.3:
                other = self.cg.sensible_leaf(self.r.choice(sel)) if self.r.random() < 0.6 else self.cg.leaf(probe, cls="Value")
                cond = Bin(self.r.choice(["and", "or", "xor"]), cond, other) if self.r.random() < 0.5 else \
                    Bin(self.r.choice(["and", "or", "xor"]), other, cond)
        else:
            cond = self.cg.tree(probe, depth=self.r.choice([0, 1, 1, 2, depth]), classes=VALUE_CLASSES, null_p=0.08)
        if path_args_p and self.r.random() < path_args_p:
            cond = self.with_path_arg(cond, doc)
        cast = []
        if self.r.random() < cast_p:
            cast = [self.r.choice(["bool", "int"])]
        return RuleT(pt, cond, cast)

    def with_path_arg(self, cond, doc):
        """Replace one literal argument of one leaf by a data path into the document."""
        leaves = [l for l in cond.leaves() if (l.args or l.kwargs)]
        if not leaves:
            return cond
        # a path as an ITEM of a list argument / a VALUE of a mapping argument (resolved like a whole argument)
        nested = [(l, i) for l in leaves for i, a in enumerate(l.args) if isinstance(a, (list, tuple, dict)) and a
                  and not (isinstance(a, list) and any(isinstance(x, type) for x in a))]
        if nested and self.r.random() < 0.35:
            l, i = self.r.choice(nested)
            a = l.args[i]
            k = self.r.randrange(len(a)) if isinstance(a, (list, tuple)) else self.r.choice(list(a))
            lit = a[k]
            if self.plantable(lit):
                if isinstance(doc, dict):
                    key = "_item" if "_item" not in doc else "_item2"
                    doc[key] = copy_value(lit)
                    p = PathT([Prim(key)])
                else:
                    doc.append(copy_value(lit))
                    p = PathT([Prim(len(doc) - 1)])
                # (a list argument is sometimes given as the equal TUPLE instead: it then compares unequal to every list in the document,
                # before and after its path items are resolved)
                was_tuple = isinstance(a, tuple) or (isinstance(a, list) and self.r.random() < 0.25)
                a = list(copy_value(a)) if not isinstance(a, dict) else dict(a)
                a[k] = p
                if was_tuple:
                    a = tuple(a)        # a tuple argument stays a tuple when its path items are resolved
                l.args[i] = a
                return cond
        l = self.r.choice(leaves)
        p = self.pg.path(doc, max_len=3, mods_p=0.6)
        pos = bool(l.args and (not l.kwargs or self.r.random() < 0.6))
        i = self.r.randrange(len(l.args)) if pos else self.r.choice(list(l.kwargs))
        lit = l.args[i] if pos else l.kwargs[i]
        ranged = l.method in ("in_range", "not_in_range")
        if ranged and (not self.plantable(lit) or not isinstance(doc, dict)):
            return cond      # (in a list document the planted position could exist, with any value, in the other documents a check uses)
        # (a range bound is always the planted, small literal: `x in range(lo, hi)` scans the whole range for a non-integer x, so a
        # bound picked up anywhere in a document, such as -(2**63 - 1), would make the implementation run for hours)
        if (ranged or self.r.random() < 0.6) and self.plantable(lit):
            # plant the literal in the document and point the path at it: the argument then resolves to the value the
            # leaf generator chose (related to the selected data), so that true verdicts are as frequent as for literals
            if isinstance(doc, dict):
                key = "_arg" if "_arg" not in doc else "_arg2"
                doc[key] = copy_value(lit)
                p = PathT([Prim(key)])
            else:
                doc.append(copy_value(lit))
                p = PathT([Prim(len(doc) - 1)])
        if pos:
            l.args[i] = p
        else:
            l.kwargs[i] = p
        return cond

    def plantable(self, v):
        if isinstance(v, (list, tuple)):
            return not isinstance(v, tuple) and all(self.plantable(x) for x in v)
        if isinstance(v, dict):
            return all(self.plantable(x) for x in v.values())
        return v is None or isinstance(v, (bool, int, float, str))

    def sibling(self, rt, doc, cast_p=0.0):
        """A rule whose path is that of `rt` (or the same path with one key / index replaced by an equal value of
        another type: 1 / 1.0 / True): rules of one schema must be judged independently even when their paths
        are equal or hash-equal."""
        parts = list(rt.path.parts)
        prims = [i for i, p in enumerate(parts) if isinstance(p, Prim)]
        if prims and self.r.random() < 0.7:
            i = self.r.choice(prims)
            new = self.g.twin(parts[i].v)
            for _ in range(4):          # prefer an equal value of ANOTHER type (1 / 1.0 / True)
                if type(new) is not type(parts[i].v):
                    break
                new = self.g.twin(parts[i].v)
            if isinstance(new, (str, int, float)):
                parts[i] = Prim(new)
        pt = PathT(parts, list(rt.path.mods))
        sel = self.selected(pt, doc)
        cond = self.cg.tree([x for x in sel] or [1, "a"], depth=self.r.choice([0, 1]), classes=VALUE_CLASSES, null_p=0.05)
        cast = [self.r.choice(["bool", "int"])] if self.r.random() < cast_p else []
        return RuleT(pt, cond, cast)

    def schema(self, doc, n_rules, cast_p=0.0, path_args_p=0.0):
        rules = [self.rule(doc, cast_p=cast_p, path_args_p=path_args_p) for _ in range(n_rules)]
        if rules and self.r.random() < 0.3:
            rules.insert(self.r.randint(0, len(rules)), self.sibling(self.r.choice(rules), doc, cast_p))
        if rules and self.r.random() < 0.1:
            # the same rule twice (or with the operands of its top combination commuted: equal, yet another object)
            import copy as _copy
            dup = _copy.deepcopy(self.r.choice(rules))
            if isinstance(dup.cond, Bin) and self.r.random() < 0.5:
                dup.cond.a, dup.cond.b = dup.cond.b, dup.cond.a
            rules.insert(self.r.randint(0, len(rules)), dup)
        return rules
