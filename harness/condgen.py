"""Generators of condition terms: leaves of every class x constructor with mostly well-typed
arguments drawn from the document under test, and and/or/xor trees with null operands."""
import copy
from .terms import Leaf, Null, Bin, dsl_methods, COND_CLASSES
from .valgen import Gen, TYPES, STRS, KEYSTRS

NUMERIC = {"less_than", "greater_than", "less_than_or_equal_to", "greater_than_or_equal_to", "lt", "gt", "lte", "gte"}
ALIASES = {"eq": "equal_to", "lt": "less_than", "gt": "greater_than", "lte": "less_than_or_equal_to",
           "gte": "greater_than_or_equal_to"}


class CondGen:
    def __init__(self, g: Gen):
        self.g = g
        self.r = g.r
        self.methods = {c: dsl_methods(c) for c in COND_CLASSES}

    # ---- argument values ----------------------------------------------------
    def from_doc(self, pool, pre):
        """A value related to what the document contains (so that equality / boundary cases are hit)."""
        v = self.r.choice(pool)
        if pre == "len":
            try:
                return len(v)
            except TypeError:
                return self.r.choice([0, 1, 2, 3])
        if pre == "type":
            return type(v)
        return v

    def any_arg(self, pool, pre, wrong=0.1):
        k = self.r.random()
        if pool and k < 0.6:
            return self.from_doc(pool, pre)
        if k < 1 - wrong:
            if pre == "len":
                return self.r.choice([0, 1, 2, 3, 4, 5])
            if pre == "type":
                return self.r.choice(TYPES)
            return self.g.scalar() if self.r.random() < 0.7 else self.g.value(2, 3)
        return self.g.value(2, 3)  # deliberately unrelated / wrong type

    def num_arg(self, pool, pre):
        nums = [x for x in pool if isinstance(x, (int, float)) and not isinstance(x, bool)]
        k = self.r.random()
        if pre == "len":
            return self.r.choice([0, 1, 2, 3, 4]) if k < 0.9 else self.r.choice([1.5, "a", None])
        if nums and k < 0.55:
            return self.r.choice(nums)
        if k < 0.9:
            return self.r.choice([0, 1, 2, 3, -1, 7, 2.5, 0.0, 1.0, 10, 2 ** 53])
        return self.r.choice(["a", None, [1], True])

    def container_arg(self, pool, pre):
        k = self.r.random()
        n = self.r.randint(0, 4)
        if k < 0.7:
            items = [self.any_arg(pool, pre, wrong=0.05) for _ in range(n)]
            return items if self.r.random() < 0.8 else tuple(items)
        if k < 0.8:
            return self.r.choice(STRS)
        if k < 0.9:
            return {self.g.key(): self.g.scalar() for _ in range(n)}
        return self.g.scalar()

    def key_arg(self, pool):
        keys = []
        for x in pool:
            if isinstance(x, dict):
                keys.extend(x.keys())
        k = self.r.random()
        if keys and k < 0.6:
            return self.r.choice(keys)
        if k < 0.92:
            return self.g.key()
        return self.r.choice([[1], {}, 2 ** 53])  # unhashable / odd

    def type_arg(self):
        k = self.r.random()
        if k < 0.9:
            return self.r.choice(TYPES)
        return self.r.choice([type(None), 1, "int"])

    def args_for(self, method, pk, va, kw, pool, pre):
        """(args, kwargs) for a DSL constructor, by what the constructor is about."""
        m = ALIASES.get(method, method)
        pk_names = [p for p, _ in pk]
        if m in ("is_instance", "keys_is_instance"):
            return [self.type_arg() for _ in range(self.r.randint(0, 3))], {}
        if m == "items_contain":
            dicts = [x for x in pool if isinstance(x, dict) and x]
            out = {}
            for _ in range(self.r.randint(0, 3)):
                if dicts and self.r.random() < 0.6:
                    d = self.r.choice(dicts)
                    k = self.r.choice(list(d.keys()))
                    if isinstance(k, str) and k.isidentifier() or isinstance(k, str):
                        out[k] = d[k] if self.r.random() < 0.7 else self.g.scalar()
                        continue
                out[self.r.choice(KEYSTRS)] = self.g.scalar()
            return [], out
        if va is not None and m.startswith(("keys_", "allowed_", "required_", "forbidden_")):
            return [self.key_arg(pool) for _ in range(self.r.randint(0, 4))], {}
        if m in ("keys_contain",):
            return [self.key_arg(pool)], {}
        if "N_of" in m:
            n = self.r.choice([0, 1, 2, 3]) if self.r.random() < 0.9 else self.r.choice(["a", None, 1.0])
            keys = [self.key_arg(pool) for _ in range(self.r.randint(0, 4))]
            if self.r.random() < 0.1:
                keys = self.r.choice(["ab", None, 3])
            return ([n, keys], {}) if self.r.random() < 0.5 else ([], {"N": n, "keys": keys})
        if m in ("keys_contain_at_least_one_of", "keys_contain_at_most_one_of"):
            keys = [self.key_arg(pool) for _ in range(self.r.randint(0, 4))]
            if self.r.random() < 0.1:
                keys = self.r.choice(["ab", None, 3])
            return [keys], {}
        if m in ("in_", "not_in"):
            return [self.container_arg(pool, pre)], {}
        if m in ("in_range", "not_in_range"):
            vals = []
            for _ in pk_names:
                k = self.r.random()
                vals.append(self.r.choice([0, 1, 2, 3, 5, -2, 10, True]) if k < 0.9 else self.r.choice([2.0, None, "a"]))
            if len(vals) == 2 and self.r.random() < 0.7:
                vals.sort(key=lambda x: x if isinstance(x, int) else 0)
            return (vals, {}) if self.r.random() < 0.6 else ([], dict(zip(pk_names, vals)))
        if m == "equal_to_approx":
            v = self.num_arg(pool, pre)
            if self.r.random() < 0.5:
                return [v], {}
            tol = self.r.choice([1e-8, 0.5, 1.0, 0.0, 2, 1e-9]) if self.r.random() < 0.9 else self.r.choice(["a", None])
            return ([v, tol], {}) if self.r.random() < 0.5 else ([v], {"tolerance": tol})
        if m in ("factor_of", "has_factor"):
            k = self.r.random()
            if k < 0.75:
                v = self.r.choice([0, 1, 2, 3, 4, 6, -2, 12, 7])
            elif k < 0.9:
                v = self.r.choice([2.0, 0.5, 0.0, 2.5, 1e-8])
            else:
                v = self.r.choice(["%d", "a", None, [1], "%z", True])
            return [v], {}
        if m in NUMERIC:
            k = self.r.random()
            v = self.num_arg(pool, pre) if k < 0.6 else self.any_arg(pool, pre)
            return [v], {}
        if not pk and va is None and kw is None:
            return [], {}
        # equal_to, not_equal_to and anything new with plain parameters
        vals = [self.any_arg(pool, pre) for _ in pk_names]
        if self.r.random() < 0.8:
            return vals, {}
        return [], dict(zip(pk_names, vals))

    # ---- terms ---------------------------------------------------------------
    def leaf(self, doc, cls=None, method=None, wrong_arity=0.02):
        cls = cls or self.r.choice(COND_CLASSES)
        pre = {"ValueLength": "len", "KeyLength": "len", "ValueDataType": "type", "KeyDataType": "type"}.get(cls)
        ms = self.methods[cls]
        if method is None:
            name, pk, va, kw = self.r.choice(ms)
        else:
            name, pk, va, kw = [m for m in ms if m[0] == method][0]
        pool = self.g.harvest(doc)
        if cls.startswith("Key") and isinstance(doc, dict):
            pool = list(doc.keys()) + pool[:3]
        elif cls == "Index" and isinstance(doc, list):
            pool = list(range(len(doc))) + [len(doc)]
        elif isinstance(doc, dict):
            pool = list(doc.values()) + pool
        elif isinstance(doc, list):
            pool = list(doc) + pool
        args, kwargs = self.args_for(name, pk, va, kw, pool, pre)
        if self.r.random() < wrong_arity:
            if args and self.r.random() < 0.5:
                args = args[:-1]
            else:
                args = args + [self.g.scalar()]
        if self.r.random() < 0.05 and name in ("equal_to", "less_than", "greater_than", "less_than_or_equal_to",
                                               "greater_than_or_equal_to") and cls in ("Value", "Key", "Index"):
            name = {v: k for k, v in ALIASES.items()}[name]
        return Leaf(cls, name, args, kwargs)

    def sensible_leaf(self, datum):
        """A Value-class leaf that is meaningful for this datum (right kind of callable for its type) and, four times
        in five, TRUE of it: random class / callable / argument combinations are mostly degenerate (always false or
        always an error), which hides defects that flip a true verdict."""
        r = self.r
        true = r.random() < 0.8
        d = datum
        if isinstance(d, bool) or d is None:
            opts = [("Value", "equal_to", [d if true else 5]), ("Value", "in_", [[d, "zz"] if true else ["zz"]]),
                    ("Value", "is_instance", [type(d) if true and d is not None else str])]
        elif isinstance(d, int) and abs(d) < 2 ** 40:
            k = r.choice([1, 2, 3])
            opts = [("Value", "equal_to", [d if true else d + 1]), ("Value", "less_than", [d + 1 if true else d]),
                    ("Value", "greater_than_or_equal_to", [d if true else d + 1]),
                    ("Value", "in_range", [d - 1, d + 2] if true else [d + 1, d + 3]),
                    ("Value", "in_", [[d, d + 5] if true else [d + 5]]), ("Value", "not_in", [[d + 7] if true else [d]]),
                    ("Value", "factor_of", [d * k if true and d else d * k + 1]), ("Value", "is_instance", [int if true else str])]
            if d:
                divs = [x for x in (1, 2, 3, 5, 7) if d % x == 0]
                opts.append(("Value", "has_factor", [r.choice(divs) if true else abs(d) + 1]))
        elif isinstance(d, float):
            opts = [("Value", "equal_to", [d if true else d + 1.0]), ("Value", "less_than", [d + 1.0 if true else d]),
                    ("Value", "equal_to_approx", [d if true else d + 1.0]), ("Value", "is_instance", [float if true else int])]
        elif isinstance(d, str):
            opts = [("Value", "equal_to", [d if true else d + "x"]), ("Value", "in_", [[d, "q"] if true else ["q" + d]]),
                    ("ValueLength", "equal_to", [len(d) if true else len(d) + 1]),
                    ("ValueLength", "less_than", [len(d) + 1 if true else len(d)]), ("Value", "is_instance", [str if true else int])]
        elif isinstance(d, list):
            opts = [("ValueLength", "equal_to", [len(d) if true else len(d) + 1]),
                    ("ValueLength", "greater_than_or_equal_to", [len(d) if true else len(d) + 1]),
                    ("ValueLength", "in_", [[len(d), 99] if true else [99]]), ("Value", "is_instance", [list if true else dict])]
            if len(d):
                opts.append(("ValueLength", "has_factor", [len(d) if true else len(d) + 1]))
        elif isinstance(d, dict):
            keys = [k for k in d if isinstance(k, str)]
            opts = [("ValueLength", "equal_to", [len(d) if true else len(d) + 1]), ("Value", "is_instance", [dict if true else list])]
            if keys:
                k1 = r.choice(keys)
                opts += [("Value", "required_keys", [k1] if true else [k1 + "_missing"]),
                         ("Value", "keys_contain_any_of", [k1, "zz"] if true else ["zz"]),
                         ("Value", "keys_contain", [k1 if true else k1 + "_missing"]),
                         ("Value", "keys_contain_all_of", keys[:2] if true else keys[:1] + ["zz"]),
                         ("Value", "keys_contain_one_of", [k1, "zz"] if true else ["zz", "yy"]),
                         ("Value", "forbidden_keys", ["zz"] if true else [k1])]
                if len(keys) == len(d):
                    opts += [("Value", "allowed_keys", (keys + ["extra"]) if true else keys[1:] + ["extra"]),
                             ("Value", "keys_equal_to", list(keys) if true else list(keys) + ["zz"])]
        else:
            return self.leaf([d], cls="Value")
        cls, m, args = r.choice(opts)
        return Leaf(cls, m, list(args), {})

    def tree(self, doc, depth=3, classes=None, null_p=0.15):
        if depth <= 0 or self.r.random() < 0.35:
            if self.r.random() < null_p:
                return Null()
            return self.leaf(doc, cls=self.r.choice(classes) if classes else None)
        op = self.r.choice(["and", "or", "xor"])
        a = self.tree(doc, depth - 1, classes, null_p)
        # one combination in twelve repeats an operand (a xor a is false everywhere; a and a is a, but not the same object)
        if self.r.random() < 0.08:
            b = copy.deepcopy(a)
            if self.r.random() < 0.5:
                # ... or an operand that is == to it but need not behave alike (1 / 1.0 / True as arguments)
                for l in b.leaves():
                    l.args = [self.g.twin(x) if isinstance(x, (bool, int, float)) else x for x in l.args]
        else:
            b = self.tree(doc, depth - 1, classes, null_p)
        return Bin(op, a, b)
