"""Generators of condition terms: leaves of every class x constructor with mostly well-typed
arguments drawn from the document under test, and and/or/xor trees with null operands."""
from .terms import Leaf, Null, Bin, dsl_methods, COND_CLASSES
from .valgen import Gen, TYPES, STRS, KEYSTRS

NUMERIC = {"less_than", "greater_than", "less_than_or_equal_to", "greater_than_or_equal_to", "lt", "gt", "lte", "gte"}
ALIASES = {"eq": "equal_to", "lt": "less_than", "gt": "greater_than", "lte": "less_than_or_equal_to",
           "gte": "greater_than_or_equal_to"}


class CondGen:
    def __init__(self, g: Gen):
        self.g = g
        self.r = g.r
        self.methods = {c: dsl_methods(c) for c in COND_CLASSES}

    # ---- argument values ----------------------------------------------------
    def from_doc(self, pool, pre):
        """A value related to what the document contains (so that equality / boundary cases are hit)."""
        v = self.r.choice(pool)
        if pre == "len":
            try:
                return len(v)
            except TypeError:
                return self.r.choice([0, 1, 2, 3])
        if pre == "type":
            return type(v)
        return v

    def any_arg(self, pool, pre, wrong=0.1):
        k = self.r.random()
        if pool and k < 0.6:
            return self.from_doc(pool, pre)
        if k < 1 - wrong:
            if pre == "len":
                return self.r.choice([0, 1, 2, 3, 4, 5])
            if pre == "type":
                return self.r.choice(TYPES)
            return self.g.scalar() if self.r.random() < 0.7 else self.g.value(2, 3)
        return self.g.value(2, 3)  # deliberately unrelated / wrong type

    def num_arg(self, pool, pre):
        nums = [x for x in pool if isinstance(x, (int, float)) and not isinstance(x, bool)]
        k = self.r.random()
        if pre == "len":
            return self.r.choice([0, 1, 2, 3, 4]) if k < 0.9 else self.r.choice([1.5, "a", None])
        if nums and k < 0.55:
            return self.r.choice(nums)
        if k < 0.9:
            return self.r.choice([0, 1, 2, 3, -1, 7, 2.5, 0.0, 1.0, 10, 2 ** 53])
        return self.r.choice(["a", None, [1], True])

    def container_arg(self, pool, pre):
        k = self.r.random()
        n = self.r.randint(0, 4)
        if k < 0.7:
            items = [self.any_arg(pool, pre, wrong=0.05) for _ in range(n)]
            return items if self.r.random() < 0.8 else tuple(items)
        if k < 0.8:
            return self.r.choice(STRS)
        if k < 0.9:
            return {self.g.key(): self.g.scalar() for _ in range(n)}
        return self.g.scalar()

    def key_arg(self, pool):
        keys = []
        for x in pool:
            if isinstance(x, dict):
                keys.extend(x.keys())
        k = self.r.random()
        if keys and k < 0.6:
            return self.r.choice(keys)
        if k < 0.92:
            return self.g.key()
        return self.r.choice([[1], {}, 2 ** 53])  # unhashable / odd

    def type_arg(self):
        k = self.r.random()
        if k < 0.9:
            return self.r.choice(TYPES)
        return self.r.choice([type(None), 1, "int"])

    def args_for(self, method, pk, va, kw, pool, pre):
        """(args, kwargs) for a DSL constructor, by what the constructor is about."""
        m = ALIASES.get(method, method)
        pk_names = [p for p, _ in pk]
        if m in ("is_instance", "keys_is_instance"):
            return [self.type_arg() for _ in range(self.r.randint(0, 3))], {}
        if m == "items_contain":
            dicts = [x for x in pool if isinstance(x, dict) and x]
            out = {}
            for _ in range(self.r.randint(0, 3)):
                if dicts and self.r.random() < 0.6:
                    d = self.r.choice(dicts)
                    k = self.r.choice(list(d.keys()))
                    if isinstance(k, str) and k.isidentifier() or isinstance(k, str):
                        out[k] = d[k] if self.r.random() < 0.7 else self.g.scalar()
                        continue
                out[self.r.choice(KEYSTRS)] = self.g.scalar()
            return [], out
        if va is not None and m.startswith(("keys_", "allowed_", "required_", "forbidden_")):
            return [self.key_arg(pool) for _ in range(self.r.randint(0, 4))], {}
        if m in ("keys_contain",):
            return [self.key_arg(pool)], {}
        if "N_of" in m:
            n = self.r.choice([0, 1, 2, 3]) if self.r.random() < 0.9 else self.r.choice(["a", None, 1.0])
            keys = [self.key_arg(pool) for _ in range(self.r.randint(0, 4))]
            if self.r.random() < 0.1:
                keys = self.r.choice(["ab", None, 3])
            return ([n, keys], {}) if self.r.random() < 0.5 else ([], {"N": n, "keys": keys})
        if m in ("keys_contain_at_least_one_of", "keys_contain_at_most_one_of"):
            keys = [self.key_arg(pool) for _ in range(self.r.randint(0, 4))]
            if self.r.random() < 0.1:
                keys = self.r.choice(["ab", None, 3])
            return [keys], {}
        if m in ("in_", "not_in"):
            return [self.container_arg(pool, pre)], {}
        if m in ("in_range", "not_in_range"):
            vals = []
            for _ in pk_names:
                k = self.r.random()
                vals.append(self.r.choice([0, 1, 2, 3, 5, -2, 10, True]) if k < 0.9 else self.r.choice([2.0, None, "a"]))
            if len(vals) == 2 and self.r.random() < 0.7:
                vals.sort(key=lambda x: x if isinstance(x, int) else 0)
            return (vals, {}) if self.r.random() < 0.6 else ([], dict(zip(pk_names, vals)))
        if m == "equal_to_approx":
            v = self.num_arg(pool, pre)
            if self.r.random() < 0.5:
                return [v], {}
            tol = self.r.choice([1e-8, 0.5, 1.0, 0.0, 2, 1e-9]) if self.r.random() < 0.9 else self.r.choice(["a", None])
            return ([v, tol], {}) if self.r.random() < 0.5 else ([v], {"tolerance": tol})
        if m in ("factor_of", "has_factor"):
            k = self.r.random()
            if k < 0.75:
                v = self.r.choice([0, 1, 2, 3, 4, 6, -2, 12, 7])
            elif k < 0.9:
                v = self.r.choice([2.0, 0.5, 0.0, 2.5, 1e-8])
            else:
                v = self.r.choice(["%d", "a", None, [1], "%z", True])
            return [v], {}
        if m in NUMERIC:
            k = self.r.random()
            v = self.num_arg(pool, pre) if k < 0.6 else self.any_arg(pool, pre)
            return [v], {}
        if not pk and va is None and kw is None:
            return [], {}
        # equal_to, not_equal_to and anything new with plain parameters
        vals = [self.any_arg(pool, pre) for _ in pk_names]
        if self.r.random() < 0.8:
            return vals, {}
        return [], dict(zip(pk_names, vals))

    # ---- terms ---------------------------------------------------------------
    def leaf(self, doc, cls=None, method=None, wrong_arity=0.02):
        cls = cls or self.r.choice(COND_CLASSES)
        pre = {"ValueLength": "len", "KeyLength": "len", "ValueDataType": "type", "KeyDataType": "type"}.get(cls)
        ms = self.methods[cls]
        if method is None:
            name, pk, va, kw = self.r.choice(ms)
        else:
            name, pk, va, kw = [m for m in ms if m[0] == method][0]
        pool = self.g.harvest(doc)
        if cls.startswith("Key") and isinstance(doc, dict):
            pool = list(doc.keys()) + pool[:3]
        elif cls == "Index" and isinstance(doc, list):
            pool = list(range(len(doc))) + [len(doc)]
        elif isinstance(doc, dict):
            pool = list(doc.values()) + pool
        elif isinstance(doc, list):
            pool = list(doc) + pool
        args, kwargs = self.args_for(name, pk, va, kw, pool, pre)
        if self.r.random() < wrong_arity:
            if args and self.r.random() < 0.5:
                args = args[:-1]
            else:
                args = args + [self.g.scalar()]
        if self.r.random() < 0.05 and name in ("equal_to", "less_than", "greater_than", "less_than_or_equal_to",
                                               "greater_than_or_equal_to") and cls in ("Value", "Key", "Index"):
            name = {v: k for k, v in ALIASES.items()}[name]
        return Leaf(cls, name, args, kwargs)

    def tree(self, doc, depth=3, classes=None, null_p=0.15):
        if depth <= 0 or self.r.random() < 0.35:
            if self.r.random() < null_p:
                return Null()
            return self.leaf(doc, cls=self.r.choice(classes) if classes else None)
        op = self.r.choice(["and", "or", "xor"])
        return Bin(op, self.tree(doc, depth - 1, classes, null_p), self.tree(doc, depth - 1, classes, null_p))
