"""DSL terms: one description, instantiated both as real valida objects and as Gallina terms."""
import inspect
import os
import sys

REPO = os.environ.get("VALIDA_REPO", "/repo")
if REPO not in sys.path:
    sys.path.insert(0, REPO)

from . import coqenc as E  # noqa: E402

OPS = {"and": "BoAnd", "or": "BoOr", "xor": "BoXor"}


def valida():
    import valida.conditions  # noqa: F401
    import valida.datapath  # noqa: F401
    import valida.data  # noqa: F401
    import valida.rules  # noqa: F401
    import valida.schema  # noqa: F401
    import valida
    return valida


class Term:
    pass


class Leaf(Term):
    def __init__(self, cls, method, args=(), kwargs=None):
        self.cls, self.method, self.args, self.kwargs = cls, method, list(args), dict(kwargs or {})

    def build(self):
        v = valida()
        c = getattr(v.conditions, self.cls)
        return getattr(c, self.method)(*[build_arg(a) for a in self.args],
                                       **{k: build_arg(a) for k, a in self.kwargs.items()})

    def coq(self, enc=None):
        enc = enc or E.enc_val
        args = "[" + "; ".join(enc(a) for a in self.args) + "]"
        kws = "[" + "; ".join(f"({E.enc_str(k)}, {enc(a)})" for k, a in self.kwargs.items()) + "]"
        return f"(DLeaf {E.enc_str(self.cls)} {E.enc_str(self.method)} {args} {kws})"

    def descr(self):
        a = [repr(x) for x in self.args] + [f"{k}={x!r}" for k, x in self.kwargs.items()]
        return f"{self.cls}.{self.method}({', '.join(a)})"

    def leaves(self):
        return [self]

    def size(self):
        return 1


class Null(Term):
    def build(self):
        return valida().conditions.NullCondition()

    def coq(self, enc=None):
        return "DNull"

    def descr(self):
        return "Null"

    def leaves(self):
        return []

    def size(self):
        return 1


class Bin(Term):
    def __init__(self, op, a, b):
        self.op, self.a, self.b = op, a, b

    def build(self):
        a, b = self.a.build(), self.b.build()
        return {"and": lambda: a & b, "or": lambda: a | b, "xor": lambda: a ^ b}[self.op]()

    def coq(self, enc=None):
        return f"(DBin {OPS[self.op]} {self.a.coq(enc)} {self.b.coq(enc)})"

    def descr(self):
        return f"({self.a.descr()} {self.op} {self.b.descr()})"

    def leaves(self):
        return self.a.leaves() + self.b.leaves()

    def size(self):
        return 1 + self.a.size() + self.b.size()


def build_arg(a):
    if hasattr(a, "build_path"):
        return a.build_path()
    if isinstance(a, list) and any(hasattr(x, "build_path") for x in a):      # a path as an item of a list argument
        return [x.build_path() if hasattr(x, "build_path") else x for x in a]
    if isinstance(a, tuple) and any(hasattr(x, "build_path") for x in a):     # ... of a tuple argument (stays a tuple)
        return tuple(x.build_path() if hasattr(x, "build_path") else x for x in a)
    if isinstance(a, dict) and any(hasattr(x, "build_path") for x in a.values()):
        return {k: (x.build_path() if hasattr(x, "build_path") else x) for k, x in a.items()}
    return a


# ------------------------------------------------------------------------------------
# the DSL as the implementation currently defines it (drives the generators)

COND_CLASSES = ["Value", "ValueLength", "ValueDataType", "Key", "KeyLength", "KeyDataType", "Index"]


def dsl_methods(cls_name):
    """[(method, [positional-or-keyword names], vararg or None, kwarg or None)] for a condition class."""
    v = valida()
    c = getattr(v.conditions, cls_name)
    out = []
    for klass in (v.conditions.GeneralCallables, v.conditions.MapCallables):
        if not issubclass(c, klass):
            continue
        for name, attr in vars(klass).items():
            if not isinstance(attr, classmethod):
                continue
            sig = inspect.signature(getattr(c, name))
            pk, va, kw = [], None, None
            for p in sig.parameters.values():
                if p.kind is p.POSITIONAL_OR_KEYWORD:
                    pk.append((p.name, p.default is not p.empty))
                elif p.kind is p.VAR_POSITIONAL:
                    va = p.name
                elif p.kind is p.VAR_KEYWORD:
                    kw = p.name
            out.append((name, pk, va, kw))
    return out
