(* Model of valida/datapath.py: path parts, DataPath construction, part filtering, get_data. *)
From Coq Require Import ZArith NArith List Bool String Lia.
From Valida Require Import Py Lang Defs Cond Dsl.
Import ListNotations.
Local Open Scope string_scope.
Local Open Scope list_scope.
Local Open Scope Z_scope.

Inductive datum_type := DtNone | DtDtype | DtLength | DtMapKeys | DtMapValues.
Inductive multi_type := MtNone | MtFirst | MtLast | MtSingle | MtAll | MtAny.

Definition datum_type_eqb (a b : datum_type) : bool :=
  match a, b with DtNone, DtNone | DtDtype, DtDtype | DtLength, DtLength | DtMapKeys, DtMapKeys | DtMapValues, DtMapValues => true | _, _ => false end.
Definition multi_type_eqb (a b : multi_type) : bool :=
  match a, b with MtNone, MtNone | MtFirst, MtFirst | MtLast, MtLast | MtSingle, MtSingle | MtAll, MtAll | MtAny, MtAny => true | _, _ => false end.

Section Parts.
  Variable A : Type.

  Inductive part :=
  | PMap (c : cond A) (label : option pyval)
  | PList (c : cond A) (label : option pyval)
  | PMol (c lc mc : cond A) (label : option pyval).

  Record dpath := {
    p_parts : list part;
    p_concrete : bool;
    p_dt : datum_type;
    p_mt : multi_type;
    p_src : option pyval
  }.

End Parts.
Arguments PMap {A}. Arguments PList {A}. Arguments PMol {A}.
Arguments p_parts {A}. Arguments p_concrete {A}. Arguments p_dt {A}. Arguments p_mt {A}. Arguments p_src {A}.
Arguments Build_dpath {A}.

Section PathModel.
  Variable T : tables.
  Variable A : Type.
  Variable lit : pyval -> A.
  Variable resolve : A -> res pyval.

  (* an argument given as None is an argument not given *)
  Definition norm_arg (a : option (carg A)) : option (carg A) :=
    match a with Some (KLit VNone) => None | _ => a end.

  (* get_container_value_condition *)
  Definition gcvc (condition datum : option (carg A)) (cls : string) (kind : dkind) : res (cond A) :=
    let condition := norm_arg condition in
    let datum := norm_arg datum in
    let* c := match condition with
              | None => Ok CNull
              | Some (KCond t) => build T lit t
              | Some (KLit _) => Err TypeError
              end in
    match datum with
    | None => Ok c
    | Some d =>
        let* dc := match d with
                   | KCond t => build T lit t
                   | KLit v => build T lit (DLeaf cls "equal_to" [lit v] [])
                   end in
        if is_null dc then mk_bin BoAnd c dc
        else if is_like kind dc then mk_bin BoAnd c dc else Err TypeError
    end.

  (* evaluate the constructor arguments (left to right) before the constructor body *)
  Definition pre_build (a : option (carg A)) : res (option (carg A)) :=
    match a with
    | Some (KCond t) => let* _ := build T lit t in Ok a
    | _ => Ok a
    end.

  Definition mk_part (t : pterm A) : res (part A * bool) :=   (* the part, and whether it was given explicitly *)
    match t with
    | PtPrim v =>
        match v with
        | VStr _ | VFloat _ _ _ =>
            let* c := gcvc None (Some (KLit v)) "Key" DKey in
            Ok (PMap c None, false)
        | VInt _ | VBool _ =>
            let* lc := gcvc None (Some (KLit v)) "Index" DIndex in
            let* mc := gcvc None (Some (KLit v)) "Key" DKey in
            Ok (PMol CNull lc mc None, false)
        | _ => Err TypeError
        end
    | PtMap key value cnd label =>
        let* _ := pre_build key in let* _ := pre_build value in let* _ := pre_build cnd in
        let* c1 := gcvc cnd key "Key" DKey in
        let* c2 := match norm_arg value with
                   | None => Ok c1
                   | Some d =>
                       let* dc := match d with KCond t => build T lit t | KLit v => build T lit (DLeaf "Value" "equal_to" [lit v] []) end in
                       if is_null dc then mk_bin BoAnd c1 dc
                       else if is_like DValue dc then mk_bin BoAnd c1 dc else Err TypeError
                   end in
        Ok (PMap c2 label, true)
    | PtList index value cnd label =>
        let* _ := pre_build index in let* _ := pre_build value in let* _ := pre_build cnd in
        let* c1 := gcvc cnd index "Index" DIndex in
        let* c2 := match norm_arg value with
                   | None => Ok c1
                   | Some d =>
                       let* dc := match d with KCond t => build T lit t | KLit v => build T lit (DLeaf "Value" "equal_to" [lit v] []) end in
                       if is_null dc then mk_bin BoAnd c1 dc
                       else if is_like DValue dc then mk_bin BoAnd c1 dc else Err TypeError
                   end in
        Ok (PList c2 label, true)
    | PtMol key index value lcnd mcnd cnd label =>
        let* _ := pre_build key in let* _ := pre_build index in let* _ := pre_build value in
        let* _ := pre_build lcnd in let* _ := pre_build mcnd in let* _ := pre_build cnd in
        let* lc := gcvc lcnd index "Index" DIndex in
        let* mc := gcvc mcnd key "Key" DKey in
        let* c := gcvc cnd value "Value" DValue in
        Ok (PMol c lc mc label, true)
    end.

  Definition dt_of_name (m : string) : option datum_type :=
    if String.eqb m "dtype" then Some DtDtype else if String.eqb m "length" then Some DtLength
    else if String.eqb m "map_keys" then Some DtMapKeys else if String.eqb m "map_values" then Some DtMapValues else None.
  Definition mt_of_name (m : string) : option multi_type :=
    if String.eqb m "first" then Some MtFirst else if String.eqb m "last" then Some MtLast
    else if String.eqb m "single" then Some MtSingle else if String.eqb m "all" then Some MtAll
    else if String.eqb m "any" then Some MtAny else None.

  (* path.<modifier>() : a copy with the modifier set *)
  Definition apply_mod (p : dpath A) (m : string) : res (dpath A) :=
    match dt_of_name m with
    | Some dt =>
        match p_dt p with
        | DtNone => Ok (Build_dpath (p_parts p) (p_concrete p) dt (p_mt p) (p_src p))
        | _ => Err ValueError
        end
    | None =>
        match mt_of_name m with
        | Some mt =>
            match p_mt p with
            | MtNone => if p_concrete p then Err ValueError
                        else Ok (Build_dpath (p_parts p) (p_concrete p) (p_dt p) mt (p_src p))
            | _ => Err ValueError
            end
        | None => Err AttributeError
        end
    end.

  Fixpoint mk_parts (ts : list (pterm A)) : res (list (part A) * bool) :=
    match ts with
    | [] => Ok ([], true)
    | t :: r =>
        let* (p, explicit) := mk_part t in
        let* (ps, conc) := mk_parts r in
        Ok (p :: ps, negb explicit && conc)
    end.

  Fixpoint apply_mods (p : dpath A) (ms : list string) : res (dpath A) :=
    match ms with [] => Ok p | m :: r => let* p' := apply_mod p m in apply_mods p' r end.

  Definition mk_path (t : pathterm A) : res (dpath A) :=
    let* (ps, conc) := mk_parts (pt_parts t) in
    apply_mods (Build_dpath ps conc DtNone MtNone (pt_src t)) (pt_mods t).

  (* ---- part.filter(node): the (key, value) pairs of node's children that satisfy the part ---- *)

  Definition cond_filter_sel (c : cond A) (node : pyval) : res (list (pyval * pyval)) :=
    let* _ := entry_check c node in
    let* d := mk_data node in
    let* f := filter_tree T resolve c d in
    Ok (select (combine (d_keys d) (d_vals d)) (fr_result f)).

  Definition part_filter (p : part A) (node : pyval) : res (list (pyval * pyval)) :=
    let* d := mk_data node in
    match p with
    | PMap c _ => if d_is_list d then Err TypeError else cond_filter_sel c node
    | PList c _ => if d_is_list d then cond_filter_sel c node else Err TypeError
    | PMol c lc mc _ =>
        let* c' := mk_bin BoAnd (if d_is_list d then lc else mc) c in
        cond_filter_sel c' node
    end.

  (* ---- DataPath.get_data: level by level, data frontier and concrete paths in lock-step ---- *)

  Fixpoint level (p : part A) (data : list pyval) (paths : list (list pyval)) (first : bool) (idx : nat)
    (all_paths : list (list pyval)) : res (list pyval * list (list pyval)) :=
    match data with
    | [] => Ok ([], [])
    | datum :: rest =>
        match part_filter p datum with
        | Err TypeError => level p rest paths first (S idx) all_paths
        | Err e => Err e
        | Ok sel =>
            let* (d', p') := level p rest paths first (S idx) all_paths in
            let here := if first then map (fun kv => [fst kv]) sel
                        else map (fun kv => nth idx all_paths [] ++ [fst kv]) sel in
            Ok (map snd sel ++ d', here ++ p')
        end
    end.

  Fixpoint walk_parts (ps : list (part A)) (first : bool) (data : list pyval) (paths : list (list pyval))
    : res (list pyval * list (list pyval)) :=
    match ps with
    | [] => Ok (data, paths)
    | p :: r =>
        let* (d', p') := level p data paths first 0 paths in
        walk_parts r false d' p'
    end.

  Definition extract_dt (dt : datum_type) (v : pyval) : res pyval :=
    match dt with
    | DtNone => Ok v
    | DtDtype => Ok (VType (py_type v))
    | DtLength => py_len v
    | DtMapKeys => match v with VDict d => Ok (VList (map fst d)) | _ => Err AttributeError end
    | DtMapValues => match v with VDict d => Ok (VList (map snd d)) | _ => Err AttributeError end
    end.

  Definition last_opt {X} (l : list X) : option X := match rev l with x :: _ => Some x | [] => None end.

  Definition match_multi (p : dpath A) (out : list pyval) : res pyval :=
    match p_mt p with
    | MtFirst => match out with x :: _ => Ok x | [] => Err IndexError end
    | MtLast => match last_opt out with Some x => Ok x | None => Err IndexError end
    | MtSingle => match out with [x] => Ok x | [] => Err IndexError | _ => Err ValueError end
    | MtAll | MtAny => Ok (VList out)
    | MtNone => if p_concrete p then match out with x :: _ => Ok x | [] => Err IndexError end else Ok (VList out)
    end.

  (* data: the raw document (a Data wrapper is modelled by the value it wraps) *)
  Definition get_data (p : dpath A) (data : option pyval) (return_paths : bool) : res pyval :=
    let* doc := match p_src p with
                | Some s => if py_truthy s then Ok s
                            else match data with Some d => if py_truthy d then Ok d else Err ValueError | None => Err ValueError end
                | None => match data with Some d => if py_truthy d then Ok d else Err ValueError | None => Err ValueError end
                end in
    match p_parts p with
    | [] =>
        let* v := extract_dt (p_dt p) doc in
        Ok (if return_paths then VTuple [v; VTuple []] else v)
    | _ :: _ =>
        let* (nodes, paths) := walk_parts (p_parts p) true [doc] [] in
        match nodes with
        | [] => Ok (if p_concrete p then VNone else VList [])
        | _ :: _ =>
            let* vals := mapM (extract_dt (p_dt p)) nodes in
            let out := if return_paths
                       then map (fun vp => VTuple [fst vp; VTuple (snd vp)]) (combine vals paths)
                       else vals in
            match_multi p out
        end
    end.

End PathModel.

Arguments mk_part T {A}.
Arguments mk_parts T {A}.
Arguments mk_path T {A}.
Arguments part_filter T {A}.
Arguments walk_parts T {A}.
Arguments level T {A}.
Arguments get_data T {A}.
Arguments gcvc T {A}.
Arguments apply_mod {A}.
Arguments apply_mods {A}.
Arguments cond_filter_sel T {A}.
