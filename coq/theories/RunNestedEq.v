(* Entry points for the C14 / C16 correspondence on conditions with NESTED data-path arguments (NestedArgs.narg):
   == of two conditions written with the API, and from_spec twice on one spec.
   The theorems about them are in Proofs/C14NestedProof.v (C14N_*, C16N_reparse_cond, run_*_spec). *)
From Coq Require Import ZArith NArith List Bool String.
From Valida Require Import Py Lang Defs Cond Dsl Path Cast Str SpecDefs RuleDefs Rule Spec SpecIO Eq Inst RunSpec
  NestedArgs NestedIO.
Import ListNotations.
Local Open Scope string_scope.

(* a == b for two conditions written with the API (built left to right: a, then b; a constructor that raises is
   reported as the error) *)
Definition run_condn_eq (a b : dslc narg) : res pyval :=
  let* ca := build_n a in
  let* cb := build_n b in
  Ok (VBool (condn_eqb ca cb)).

(* ConditionLike.from_spec(s) == ConditionLike.from_spec(s), nested paths kept
   (the second parse reads the same spec: the ownership analysis of Properties/C16.v shows the first parse leaves it
   alone) *)
Definition run_reparse_condn (spec : pyval) : res pyval :=
  let* r1 := condn_from_spec spec in
  let* r2 := condn_from_spec spec in
  Ok (VBool (condn_eqb (snd r2) (snd r1))).

(* ------------------------------------------------------------------ *)
(* examples                                                             *)

Definition pa (tag : N) : arg1 := APath tag (ex_key_path "a").
Definition pb (tag : N) : arg1 := APath tag (ex_key_path "b").

(* Value.in_([DataPath("a"), 1]) *)
Definition ex_in_list_c : dslc narg := DLeaf "Value" "in_" [NItems false [pa 1%N; ALit (VInt 1)]] [].
(* Value.in_((DataPath("a"), 1)) *)
Definition ex_in_tuple_c : dslc narg := DLeaf "Value" "in_" [NItems true [pa 2%N; ALit (VInt 1)]] [].
(* Value.equal_to({"x": DataPath("a"), "y": 2}) and the same display with the entries swapped *)
Definition ex_eq_dict_c : dslc narg :=
  DLeaf "Value" "equal_to" [NDict [(VStr "x", pa 3%N); (VStr "y", ALit (VInt 2))]] [].
Definition ex_eq_dict_swapped_c : dslc narg :=
  DLeaf "Value" "equal_to" [NDict [(VStr "y", ALit (VInt 2)); (VStr "x", pa 4%N)]] [].

(* a list display and the equal tuple display are NOT == (list.__eq__(tuple) is False) ... *)
Example ex_list_vs_tuple : run_condn_eq ex_in_list_c ex_in_tuple_c = Ok (VBool false).
Proof. vm_compute. reflexivity. Qed.
Example ex_tuple_vs_list : run_condn_eq ex_in_tuple_c ex_in_list_c = Ok (VBool false).
Proof. vm_compute. reflexivity. Qed.
(* ... although both resolve to containers with the same items (NestedArgs.ex_in_list_resolved / ex_in_tuple_resolved) *)

(* separately written copies are == : the identity of the DataPath objects (the tags) does not matter *)
Example ex_list_copy :
  run_condn_eq ex_in_list_c (DLeaf "Value" "in_" [NItems false [pa 9%N; ALit (VInt 1)]] []) = Ok (VBool true).
Proof. vm_compute. reflexivity. Qed.

(* 1 == 1.0 == True inside a display *)
Example ex_list_num :
  run_condn_eq ex_in_list_c (DLeaf "Value" "in_" [NItems false [pa 9%N; ALit (VBool true)]] []) = Ok (VBool true).
Proof. vm_compute. reflexivity. Qed.

(* another path in the display: not == *)
Example ex_list_other_path :
  run_condn_eq ex_in_list_c (DLeaf "Value" "in_" [NItems false [pb 9%N; ALit (VInt 1)]] []) = Ok (VBool false).
Proof. vm_compute. reflexivity. Qed.

(* the order of the items of a list display matters *)
Example ex_list_order :
  run_condn_eq ex_in_list_c (DLeaf "Value" "in_" [NItems false [ALit (VInt 1); pa 9%N]] []) = Ok (VBool false).
Proof. vm_compute. reflexivity. Qed.

(* the order of the entries of a mapping display does not *)
Example ex_dict_order : run_condn_eq ex_eq_dict_c ex_eq_dict_swapped_c = Ok (VBool true).
Proof. vm_compute. reflexivity. Qed.
Example ex_dict_other_value :
  run_condn_eq ex_eq_dict_c (DLeaf "Value" "equal_to" [NDict [(VStr "x", pa 3%N); (VStr "y", ALit (VInt 3))]] [])
  = Ok (VBool false).
Proof. vm_compute. reflexivity. Qed.

(* a display without data paths is the literal container *)
Example ex_display_is_literal :
  run_condn_eq (DLeaf "Value" "in_" [NItems false [ALit (VInt 1); ALit (VInt 2)]] [])
               (DLeaf "Value" "in_" [NA (ALit (VList [VInt 1; VInt 2]))] []) = Ok (VBool true).
Proof. vm_compute. reflexivity. Qed.

(* positional or keyword: the same stored argument *)
Example ex_kw_form :
  run_condn_eq ex_in_list_c (DLeaf "Value" "in_" [] [("value", NItems false [pa 1%N; ALit (VInt 1)])]) = Ok (VBool true).
Proof. vm_compute. reflexivity. Qed.

(* the operands of a combination commute, at every depth *)
Example ex_commute :
  run_condn_eq (DBin BoAnd ex_in_list_c (DBin BoOr ex_eq_dict_c ex_in_tuple_c))
               (DBin BoAnd (DBin BoOr ex_in_tuple_c ex_eq_dict_swapped_c) ex_in_list_c) = Ok (VBool true).
Proof. vm_compute. reflexivity. Qed.
Example ex_not_commute_across_ops :
  run_condn_eq (DBin BoAnd ex_in_list_c ex_eq_dict_c) (DBin BoOr ex_eq_dict_c ex_in_list_c) = Ok (VBool false).
Proof. vm_compute. reflexivity. Qed.

(* a nested path that cannot be built is reported when the condition is written *)
Example ex_bad_nested :
  run_condn_eq ex_in_list_c
    (DLeaf "Value" "in_" [NItems false [APath 1%N {| pt_parts := [PtPrim (VStr "a")]; pt_mods := ["length"; "length"]; pt_src := None |}]] [])
  = Err ValueError.
Proof. vm_compute. reflexivity. Qed.

(* from_spec twice: nested paths in a list argument and in a mapping argument *)
Definition ex_spec_nested : pyval :=
  VDict [(VStr "or", VList [
    VDict [(VStr "value.in", VList [VDict [(VStr "path", VList [VStr "a"])]; VInt 1])];
    VDict [(VStr "value.equal_to", VDict [(VStr "x", VDict [(VStr "path.length", VList [VStr "b"])]); (VStr "y", VInt 2)])];
    VDict [(VStr "value.equal_to", VDict [(VStr "path", VList [VStr "a"; VInt 1])])] ])].
Example ex_reparse_nested : run_reparse_condn ex_spec_nested = Ok (VBool true).
Proof. vm_compute. reflexivity. Qed.

(* the parsed list argument is == to the one written with the API *)
Example ex_parse_vs_api :
  (let* r := condn_from_spec (VDict [(VStr "value.in", VList [VDict [(VStr "path", VList [VStr "a"])]; VInt 1])]) in
   let* c := build_n ex_in_list_c in Ok (condn_eqb (snd r) c)) = Ok true.
Proof. vm_compute. reflexivity. Qed.

(* a malformed spec is an error of the first parse *)
Example ex_reparse_malformed : run_reparse_condn (VDict [(VStr "value.nope", VInt 1)]) = Err MalformedCond.
Proof. vm_compute. reflexivity. Qed.
