(* Entry point of the correspondence for the report text: the implementation supplies, for every rule test of a validated
   document, is_valid, tested and for every failure repr(path), repr(value) and its reason lines; the model assembles
   ValidatedData.get_failures_string() and every RuleTest.get_failures_string() from them. *)
From Coq Require Import List Bool String.
From Valida Require Import Py Report.
Import ListNotations.

Definition mk_f (x : string * string * list string) : ftext :=
  {| ft_path := fst (fst x); ft_value := snd (fst x); ft_reasons := snd x |}.
Definition mk_r (x : bool * bool * list (string * string * list string)) : rtext :=
  {| rx_valid := fst (fst x); rx_tested := snd (fst x); rx_fails := map mk_f (snd x) |}.
Definition run_report (rs : list (bool * bool * list (string * string * list string))) : res pyval :=
  Ok (VTuple [VStr (schema_report (map mk_r rs)); VList (map (fun r => VStr (rule_report (mk_r r))) rs)]).

(* RuleTest.get_failures_string() of one rule test *)
Definition run_rule_report (r : bool * bool * list (string * string * list string)) : res pyval :=
  Ok (VStr (rule_report (mk_r r))).
