(* Model of valida/conditions.py + valida/data.py: DSL constructors, the per-item filter loop,
   binary combinations, FilteredData views.  Parametric in the generated tables [T]. *)
From Coq Require Import ZArith NArith List Bool String Lia.
From Valida Require Import Py Lang Defs.
Import ListNotations.
Local Open Scope string_scope.
Local Open Scope list_scope.
Local Open Scope Z_scope.

(* ------------------------------------------------------------------ *)
(* Data(x): keys / values view of a non-empty list or dict              *)

Record data := { d_is_list : bool; d_keys : list pyval; d_vals : list pyval }.

Fixpoint zrange_from (i : Z) (n : nat) : list pyval :=
  match n with O => [] | S m => VInt i :: zrange_from (i + 1) m end.

Definition mk_data (v : pyval) : res data :=
  match v with
  | VList (x :: r) => Ok {| d_is_list := true; d_keys := zrange_from 0 (List.length (x :: r)); d_vals := x :: r |}
  | VDict (kv :: r) => Ok {| d_is_list := false; d_keys := map fst (kv :: r); d_vals := map snd (kv :: r) |}
  | _ => Err TypeError
  end.

(* ------------------------------------------------------------------ *)
(* DSL constructors: cls.method( args ) -> stored (args, kwargs)        *)

Section Ctor.
  Variable A : Type.
  Variable lit : pyval -> A.       (* literal defaults *)

  Fixpoint aget (x : string) (e : list (string * A)) : option A :=
    match e with [] => None | (y, v) :: r => if String.eqb x y then Some v else aget x r end.

  (* bind positional arguments to the constructor's own parameters *)
  Fixpoint cbind_pos (params : list (string * option pyval)) (pos : list A)
    : list (string * A) * list (string * option pyval) * list A :=
    match params with
    | [] => ([], [], pos)
    | (p, d) :: ps =>
        match pos with
        | [] => ([], params, [])
        | v :: vs => let '(e, rest, extra) := cbind_pos ps vs in ((p, v) :: e, rest, extra)
        end
    end.

  Fixpoint cbind_kw (params : list string) (missing : list (string * option pyval)) (has_kwarg : bool)
    (kw : list (string * A)) (e : list (string * A)) (extra : list (string * A))
    : res (list (string * A) * list (string * option pyval) * list (string * A)) :=
    match kw with
    | [] => Ok (e, missing, extra)
    | (k, v) :: r =>
        if existsb (fun m => String.eqb k (fst m)) missing then
          cbind_kw params (filter (fun m => negb (String.eqb k (fst m))) missing) has_kwarg r ((k, v) :: e) extra
        else if existsb (String.eqb k) params then Err TypeError
        else if has_kwarg then cbind_kw params missing has_kwarg r e (extra ++ [(k, v)])
        else Err TypeError
    end.

  Fixpoint fill_defaults (missing : list (string * option pyval)) (e : list (string * A)) : res (list (string * A)) :=
    match missing with
    | [] => Ok e
    | (p, Some d) :: r => fill_defaults r ((p, lit d) :: e)
    | (p, None) :: r => Err TypeError
    end.

  Definition apply_ctor (c : ctor) (pos : list A) (kw : list (string * A)) : res (list A * list (string * A)) :=
    let '(e0, missing, extra_pos) := cbind_pos (c_params c) pos in
    let* _ := match c_vararg c, extra_pos with
              | None, _ :: _ => Err TypeError
              | _, _ => Ok tt
              end in
    let* (e1, missing', extra_kw) :=
      cbind_kw (map fst (c_params c)) missing (match c_kwarg c with Some _ => true | None => false end) kw e0 [] in
    let* e2 := fill_defaults missing' e1 in
    (fix go (st : list store) (args : list A) (kws : list (string * A)) : res (list A * list (string * A)) :=
       match st with
       | [] => Ok (args, kws)
       | StPos p :: r => match aget p e2 with Some v => go r (args ++ [v]) kws | None => Err OtherExc end
       | StKw k p :: r => match aget p e2 with Some v => go r args (kws ++ [(k, v)]) | None => Err OtherExc end
       | StStar _ :: r => go r (args ++ extra_pos) kws
       | StDStar _ :: r => go r args (kws ++ extra_kw)
       end) (c_store c) [] [].
End Ctor.
Arguments apply_ctor {A}.

Section Model.
  Variable T : tables.

  Fixpoint find_class (l : list cclass) (name : string) : option cclass :=
    match l with [] => None | k :: r => if String.eqb (k_name k) name then Some k else find_class r name end.
  Fixpoint find_ctor_in (l : list ctor) (name : string) : option ctor :=
    match l with [] => None | c :: r => if String.eqb (c_name c) name then Some c else find_ctor_in r name end.
  Fixpoint alias_of (l : list (string * string)) (name : string) : string :=
    match l with [] => name | (a, b) :: r => if String.eqb a name then b else alias_of r name end.

  (* getattr(cls, name) restricted to DSL constructors *)
  Definition find_ctor (k : cclass) (name : string) : option ctor :=
    let g := if k_general k then find_ctor_in (t_general T) (alias_of (t_aliases T) name) else None in
    match g with
    | Some c => Some c
    | None => if k_map k then find_ctor_in (t_map T) name else None
    end.

  Section WithArgs.
    Variable A : Type.
    Variable lit : pyval -> A.

    (* cls.method( pos, kw ) *)
    Definition build_leaf (cls method : string) (pos : list A) (kw : list (string * A)) : res (leaf A) :=
      match find_class (t_classes T) cls with
      | None => Err AttributeError
      | Some k =>
          match find_ctor k method with
          | None => Err AttributeError
          | Some c =>
              let* (args, kws) := apply_ctor lit c pos kw in
              Ok {| l_cls := k_name k; l_kind := k_kind k; l_pre := k_pre k; l_call := c_target c;
                    l_args := args; l_kwargs := kws |}
          end
      end.

    (* ---------------------------------------------------------------- *)
    (* Condition._filter on one item                                      *)

    Variable resolve : A -> res pyval.    (* data-path arguments are resolved per evaluation *)

    Definition pre_apply (p : preproc) (v : pyval) : res pyval :=
      match p with PNone => Ok v | PLen => py_len v | PType => Ok (VType (py_type v)) end.

    Fixpoint resolve_kw (kw : list (string * A)) : res (list (string * pyval)) :=
      match kw with
      | [] => Ok []
      | (k, a) :: r => let* v := resolve a in let* vs := resolve_kw r in Ok ((k, v) :: vs)
      end.

    Definition call_leaf (l : leaf A) (processed : pyval) : res pyval :=
      let* args := mapM resolve (l_args l) in
      let* kws := resolve_kw (l_kwargs l) in
      call_def call_fuel (t_defs T) (l_call l) (processed :: args) kws.

    (* (pre_processor_error, callable_error, callable_false) *)
    Definition flags := (bool * bool * bool)%type.
    Definition flags_result (f : flags) : bool :=
      let '(i, j, k) := f in if i then false else if j then false else if k then false else true.

    Definition eval_item (l : leaf A) (datum : pyval) : res flags :=
      match pre_apply (l_pre l) datum with
      | Err e => if catches (t_caught_pre T) e then Ok (true, false, false) else Err e
      | Ok v =>
          let r := match call_leaf l v with
                   | Ok (VBool b) => Ok b
                   | Ok _ => Err InvalidCallable
                   | Err e => Err e
                   end in
          match r with
          | Ok b => Ok (false, false, negb b)
          | Err e => if catches (t_caught_call T) e then Ok (false, true, false) else Err e
          end
      end.

    Definition datums (k : dkind) (d : data) : list pyval :=
      match k with DValue => d_vals d | DKey | DIndex => d_keys d end.

    (* truth-table entries, in the order the implementation concatenates them *)
    Inductive tt_entry :=
    | TTLeaf (fl : list flags)
    | TTOp (o : bop) (pre cerr cfalse : list bool).

    Record fres := {
      fr_pre : list bool;
      fr_cerr : list bool;
      fr_cfalse : list bool;
      fr_result : list bool;
      fr_tt : list tt_entry
    }.

    Definition filter_leaf (l : leaf A) (d : data) : res fres :=
      let* fl := mapM (eval_item l) (datums (l_kind l) d) in
      Ok {| fr_pre := map (fun f => fst (fst f)) fl;
            fr_cerr := map (fun f => snd (fst f)) fl;
            fr_cfalse := map (fun f => snd f) fl;
            fr_result := map flags_result fl;
            fr_tt := [TTLeaf fl] |}.

    Definition bop_apply (o : bop) (x y : bool) : bool :=
      match o with BoAnd => andb x y | BoOr => orb x y | BoXor => xorb x y end.

    Fixpoint zip_with {X Y Z} (f : X -> Y -> Z) (a : list X) (b : list Y) : list Z :=
      match a, b with x :: xs, y :: ys => f x y :: zip_with f xs ys | _, _ => [] end.

    Definition combine_fres (o : bop) (a b : fres) : fres :=
      let result := zip_with (bop_apply o) (fr_result a) (fr_result b) in
      let pre := zip_with orb (fr_pre a) (fr_pre b) in
      let cerr := zip_with orb (fr_cerr a) (fr_cerr b) in
      let cfalse := map negb result in
      {| fr_pre := pre; fr_cerr := cerr; fr_cfalse := cfalse; fr_result := result;
         fr_tt := fr_tt a ++ fr_tt b ++ [TTOp o pre cerr cfalse] |}.

    Fixpoint filter_tree (c : cond A) (d : data) : res fres :=
      match c with
      | CLeaf l => filter_leaf l d
      | CBin o a b =>
          let* fa := filter_tree a d in
          let* fb := filter_tree b d in
          Ok (combine_fres o fa fb)
      end.

    (* ConditionLike.filter(raw): KeyLike / IndexLike leaves refuse the wrong container *)
    Definition entry_check (c : cond A) (raw : pyval) : res unit :=
      match c with
      | CLeaf l =>
          match l_kind l, raw with
          | DKey, VDict _ => Ok tt
          | DKey, _ => Err TypeError
          | DIndex, VList _ => Ok tt
          | DIndex, _ => Err TypeError
          | DValue, _ => Ok tt
          end
      | CBin _ _ _ => Ok tt
      end.

    Definition cond_filter (c : cond A) (raw : pyval) : res fres :=
      let* _ := entry_check c raw in
      let* d := mk_data raw in
      filter_tree c d.

    (* views of FilteredDataLike *)
    Fixpoint select {X} (l : list X) (r : list bool) : list X :=
      match l, r with x :: xs, b :: bs => if b then x :: select xs bs else select xs bs | _, _ => [] end.
    Fixpoint false_indices (i : Z) (r : list bool) : list pyval :=
      match r with [] => [] | b :: bs => if b then false_indices (i + 1) bs else VInt i :: false_indices (i + 1) bs end.

    (* number of failure reasons reported for item idx *)
    Definition nth_b (l : list bool) (i : nat) : bool := nth i l false.
    Definition entry_reason (e : tt_entry) (i : nat) : bool :=
      match e with
      | TTLeaf fl => match nth_error fl i with
                     | Some (p, c, f) => p || c || f
                     | None => false
                     end
      | TTOp BoXor pre cerr cfalse => nth_b pre i || nth_b cerr i || nth_b cfalse i
      | TTOp _ _ _ _ => false
      end.
    Definition num_reasons (f : fres) (i : nat) : nat :=
      List.length (filter (fun e => entry_reason e i) (fr_tt f)).

  End WithArgs.

  (* ConditionBinaryOp(a, b): the null short-circuit of __new__, then the Key/Index check of __init__ *)
  Section Combine.
    Variable A : Type.
    Fixpoint leaves (c : cond A) : list (leaf A) :=
      match c with CLeaf l => [l] | CBin _ a b => leaves a ++ leaves b end.
    Definition has_kind (k : dkind) (c : cond A) : bool :=
      existsb (fun l => dkind_eqb (l_kind l) k) (leaves c).
    Definition mk_bin (o : bop) (a b : cond A) : res (cond A) :=
      if is_null b then Ok a
      else if is_null a then Ok b
      else if (has_kind DKey a || has_kind DKey b) && (has_kind DIndex a || has_kind DIndex b)
           then Err TypeError
           else Ok (CBin o a b).
    Definition is_like (k : dkind) (c : cond A) : bool :=
      forallb (fun l => dkind_eqb (l_kind l) k) (leaves c).
  End Combine.

End Model.

Arguments build_leaf T {A}.
Arguments filter_tree T {A}.
Arguments filter_leaf T {A}.
Arguments cond_filter T {A}.
Arguments eval_item T {A}.
Arguments call_leaf T {A}.
Arguments mk_bin {A}.
Arguments leaves {A}.
Arguments is_like {A}.
Arguments has_kind {A}.
Arguments entry_check {A}.

(* the observable of C01/C02: (result, data, keys, failure_indices) *)
Definition obs_filter (d : data) (f : fres) : pyval :=
  VTuple [ VList (map VBool (fr_result f));
           VList (select (d_vals d) (fr_result f));
           VList (select (d_keys d) (fr_result f));
           VList (false_indices 0 (fr_result f)) ].
