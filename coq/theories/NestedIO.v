(* JSON-like round trip of conditions whose ONE-parameter callable receives a list / tuple / mapping argument with data
   paths one level inside (NestedArgs.narg: NItems / NDict).

   Parser side: Spec.cond_from_spec instantiated with A := narg.  For a one-parameter callable from_spec keeps a list /
   mapping argument as ONE value in which the coerced items are DataPath objects (Spec.coerced_val); the instance
   cond1_from_spec loses them (inert0).  Here a nested path is kept in the value as a MARKER [inert_n p] -- a tuple
   headed by the object VObj 1 (genuine spec values never contain objects) that carries a structural encoding of the
   path term -- and [lit_n] decodes a value with markers one level down into NItems / NDict.

   Serialiser side: valida/conditions.py, _arg_to_json_like, on an argument that is a list / tuple / mapping display with
   DataPath objects one level inside; Section CondIO of SpecIO.v instantiated with A := narg.

   No proofs here except that the encoding of path terms is decodable (needed to trust lit_n); the theorems are in
   Proofs/C11NestedProof.v.
   NOTE: this file defines its own [lit_n] (the decoding one); NestedArgs.lit_n (= fun v => NA (ALit v)) is shadowed
   for files importing NestedIO after NestedArgs. *)
From Coq Require Import ZArith NArith List Bool String Ascii.
From Valida Require Import Py Lang Defs Cond Dsl Path Cast Str SpecDefs RuleDefs Rule Spec SpecIO Eq Inst RunSpec NestedArgs.
Import ListNotations.
Local Open Scope string_scope.
Local Open Scope list_scope.

(* ------------------------------------------------------------------ *)
(* 1. path terms as values (structural, decodable)                      *)

Fixpoint omap {A B} (f : A -> option B) (l : list A) : option (list B) :=
  match l with
  | [] => Some []
  | x :: r => match f x, omap f r with Some y, Some ys => Some (y :: ys) | _, _ => None end
  end.

Definition enc_opt {A} (f : A -> pyval) (o : option A) : pyval :=
  match o with None => VTuple [] | Some x => VTuple [f x] end.
Definition dec_opt {A} (f : pyval -> option A) (v : pyval) : option (option A) :=
  match v with
  | VTuple [] => Some None
  | VTuple [x] => match f x with Some y => Some (Some y) | None => None end
  | _ => None
  end.

Definition enc_bop (o : bop) : pyval := VInt (match o with BoAnd => 0 | BoOr => 1 | BoXor => 2 end)%Z.
Definition dec_bop (v : pyval) : option bop :=
  match v with VInt 0%Z => Some BoAnd | VInt 1%Z => Some BoOr | VInt 2%Z => Some BoXor | _ => None end.

Definition dec_str (v : pyval) : option string := match v with VStr s => Some s | _ => None end.
Definition enc_kw (kv : string * pyval) : pyval := VTuple [VStr (fst kv); snd kv].
Definition dec_kw (v : pyval) : option (string * pyval) :=
  match v with VTuple [VStr k; x] => Some (k, x) | _ => None end.

Fixpoint enc_dslc (t : dslc pyval) : pyval :=
  match t with
  | DLeaf cls m pos kw => VTuple [VInt 0%Z; VStr cls; VStr m; VList pos; VList (map enc_kw kw)]
  | DNull => VTuple [VInt 1%Z]
  | DBin o a b => VTuple [VInt 2%Z; enc_bop o; enc_dslc a; enc_dslc b]
  end.

Fixpoint dec_dslc (v : pyval) : option (dslc pyval) :=
  match v with
  | VTuple [VInt 0%Z; VStr cls; VStr m; VList pos; VList kw] =>
      match omap dec_kw kw with Some kw' => Some (DLeaf cls m pos kw') | None => None end
  | VTuple [VInt 1%Z] => Some DNull
  | VTuple [VInt 2%Z; o; a; b] =>
      match dec_bop o, dec_dslc a, dec_dslc b with
      | Some o', Some a', Some b' => Some (DBin o' a' b')
      | _, _, _ => None
      end
  | _ => None
  end.

Definition enc_carg (c : carg pyval) : pyval :=
  match c with KLit v => VTuple [VInt 0%Z; v] | KCond t => VTuple [VInt 1%Z; enc_dslc t] end.
Definition dec_carg (v : pyval) : option (carg pyval) :=
  match v with
  | VTuple [VInt 0%Z; x] => Some (KLit x)
  | VTuple [VInt 1%Z; t] => match dec_dslc t with Some t' => Some (KCond t') | None => None end
  | _ => None
  end.

Definition enc_lab (l : option pyval) : pyval := enc_opt (fun v => v) l.
Definition dec_lab (v : pyval) : option (option pyval) := dec_opt (fun v => Some v) v.
Definition enc_oc (c : option (carg pyval)) : pyval := enc_opt enc_carg c.
Definition dec_oc (v : pyval) : option (option (carg pyval)) := dec_opt dec_carg v.

Definition enc_pterm (p : pterm pyval) : pyval :=
  match p with
  | PtPrim v => VTuple [VInt 0%Z; v]
  | PtMap k v c l => VTuple [VInt 1%Z; enc_oc k; enc_oc v; enc_oc c; enc_lab l]
  | PtList i v c l => VTuple [VInt 2%Z; enc_oc i; enc_oc v; enc_oc c; enc_lab l]
  | PtMol k i v lc mc c l => VTuple [VInt 3%Z; enc_oc k; enc_oc i; enc_oc v; enc_oc lc; enc_oc mc; enc_oc c; enc_lab l]
  end.
Definition dec_pterm (v : pyval) : option (pterm pyval) :=
  match v with
  | VTuple [VInt 0%Z; x] => Some (PtPrim x)
  | VTuple [VInt 1%Z; k; x; c; l] =>
      match dec_oc k, dec_oc x, dec_oc c, dec_lab l with
      | Some k', Some x', Some c', Some l' => Some (PtMap k' x' c' l') | _, _, _, _ => None end
  | VTuple [VInt 2%Z; i; x; c; l] =>
      match dec_oc i, dec_oc x, dec_oc c, dec_lab l with
      | Some i', Some x', Some c', Some l' => Some (PtList i' x' c' l') | _, _, _, _ => None end
  | VTuple [VInt 3%Z; k; i; x; lc; mc; c; l] =>
      match dec_oc k, dec_oc i, dec_oc x, dec_oc lc with
      | Some k', Some i', Some x', Some lc' =>
          match dec_oc mc, dec_oc c, dec_lab l with
          | Some mc', Some c', Some l' => Some (PtMol k' i' x' lc' mc' c' l') | _, _, _ => None end
      | _, _, _, _ => None
      end
  | _ => None
  end.

Definition enc_path (p : pathterm pyval) : pyval :=
  VTuple [VList (map enc_pterm (pt_parts p)); VList (map VStr (pt_mods p)); enc_lab (pt_src p)].
Definition dec_path (v : pyval) : option (pathterm pyval) :=
  match v with
  | VTuple [VList ps; VList ms; s] =>
      match omap dec_pterm ps, omap dec_str ms, dec_lab s with
      | Some ps', Some ms', Some s' => Some {| pt_parts := ps'; pt_mods := ms'; pt_src := s' |}
      | _, _, _ => None
      end
  | _ => None
  end.

Lemma omap_map {A B} (f : A -> B) (g : B -> option A) l : (forall x, g (f x) = Some x) -> omap g (map f l) = Some l.
Proof.
  intros H. induction l as [|x l IH]; cbn [map omap]; [reflexivity|]. rewrite H, IH. reflexivity.
Qed.

Lemma dec_enc_bop o : dec_bop (enc_bop o) = Some o.
Proof. destruct o; reflexivity. Qed.

Lemma dec_enc_dslc t : dec_dslc (enc_dslc t) = Some t.
Proof.
  induction t as [cls m pos kw| |o a IHa b IHb]; cbn [enc_dslc dec_dslc].
  - rewrite (omap_map enc_kw dec_kw); [reflexivity|]. intros [k x]. reflexivity.
  - reflexivity.
  - rewrite dec_enc_bop, IHa, IHb. reflexivity.
Qed.

Lemma dec_enc_carg c : dec_carg (enc_carg c) = Some c.
Proof. destruct c as [v|t]; cbn [enc_carg dec_carg]; [reflexivity|]. rewrite dec_enc_dslc. reflexivity. Qed.

Lemma dec_enc_oc c : dec_oc (enc_oc c) = Some c.
Proof. destruct c as [c|]; cbn; [|reflexivity]. rewrite dec_enc_carg. reflexivity. Qed.

Lemma dec_enc_lab l : dec_lab (enc_lab l) = Some l.
Proof. destruct l; reflexivity. Qed.

Lemma dec_enc_pterm p : dec_pterm (enc_pterm p) = Some p.
Proof. destruct p; cbn [enc_pterm dec_pterm]; rewrite ?dec_enc_oc, ?dec_enc_lab; reflexivity. Qed.

(* the encoding loses nothing *)
Lemma dec_enc_path p : dec_path (enc_path p) = Some p.
Proof.
  destruct p as [ps ms s]. cbn [enc_path dec_path pt_parts pt_mods pt_src].
  rewrite (omap_map enc_pterm dec_pterm _ dec_enc_pterm), (omap_map VStr dec_str), dec_enc_lab; [reflexivity|].
  intros x. reflexivity.
Qed.

(* ------------------------------------------------------------------ *)
(* 2. the parser with nested paths kept                                  *)

(* a DataPath object inside a list / mapping value *)
Definition inert_n (p : pathterm pyval) : pyval := VTuple [VObj 1%N; enc_path p].

Definition dec_marker (v : pyval) : option (pathterm pyval) :=
  match v with
  | VTuple [VObj tag; e] => if N.eqb tag 1%N then dec_path e else None
  | _ => None
  end.
Definition has_marker (v : pyval) : bool := match dec_marker v with Some _ => true | None => false end.

Lemma dec_marker_inert p : dec_marker (inert_n p) = Some p.
Proof. unfold dec_marker, inert_n. cbn [N.eqb Pos.eqb]. apply dec_enc_path. Qed.

(* an item of a list argument / a value of a mapping argument *)
Definition item_of (v : pyval) : arg1 := match dec_marker v with Some p => APath 0%N p | None => ALit v end.

(* a literal value with DataPath objects one level down is a list / tuple / mapping display of paths and literals;
   without any, it is the literal itself *)
Definition lit_n (v : pyval) : narg :=
  match v with
  | VList l => if existsb has_marker l then NItems false (map item_of l) else NA (ALit v)
  | VTuple l => if existsb has_marker l then NItems true (map item_of l) else NA (ALit v)
  | VDict d => if existsb (fun kv => has_marker (snd kv)) d
               then NDict (map (fun kv => (fst kv, item_of (snd kv))) d) else NA (ALit v)
  | _ => NA (ALit v)
  end.

Definition mkpath_n (p : pathterm pyval) : narg := NA (APath 0%N p).

(* ConditionLike.from_spec with nested paths kept *)
Definition condn_from_spec (spec : pyval) : res (dslc narg * cond narg) :=
  cond_from_spec T X narg lit_n mkpath_n inert_n (path_from_spec T X) spec_fuel spec.

(* ------------------------------------------------------------------ *)
(* 3. the serialiser: _arg_to_json_like on narg                          *)

(* the argument as the Python object it is: a nested DataPath is an object *)
Definition raw1 (a : arg1) : pyval := match a with ALit v => v | APath tag _ => VObj tag end.

Definition narg_raw (n : narg) : res pyval :=
  match n with
  | NA a => arg1_raw a
  | NItems tup items => Ok ((if tup then VTuple else VList) (map raw1 items))
  | NDict kvs => Ok (VDict (map (fun kv => (fst kv, raw1 (snd kv))) kvs))
  end.

(* check_plain on a value of a mapping argument that has a "path" key: a DataPath raises TypeError *)
Definition plain1 (a : arg1) : bool := match a with ALit v => deep_plain v | APath _ _ => false end.

(* _arg_to_json_like(arg, cast_types) (as_item = False):
   - the argument itself: a DataPath -> to_spec(), a literal -> val_to_json       (arg1_to_json)
   - a list / tuple: [item(i) for i in arg]: a DataPath item -> to_spec(), a literal item -> item_to_json; a list results
   - a mapping with "path" in a str key: check_plain(values) (TypeError on a DataPath), then escaped as a whole
   - any other mapping: {k: item(v)} *)
Definition narg_to_json (cast_types : bool) (n : narg) : res pyval :=
  match n with
  | NA a => arg1_to_json T X cast_types a
  | NItems _ items =>
      let* l := mapM (arg_item X arg1 (arg1_to_json T X) arg1_raw cast_types) items in Ok (VList l)
  | NDict kvs =>
      if has_path_key (map (fun kv => (fst kv, VNone)) kvs) then
        (if forallb (fun kv => plain1 (snd kv)) kvs
         then Ok (escape_map (map (fun kv => (fst kv, raw1 (snd kv))) kvs)) else Err TypeError)
      else
        let* d := mapM (fun kv => let* x := arg_item X arg1 (arg1_to_json T X) arg1_raw cast_types (snd kv) in
                                  Ok (fst kv, x)) kvs in
        Ok (VDict d)
  end.

Definition leafn_to_json := leaf_to_json T X narg narg_to_json narg_raw.
Definition condn_to_json := cond_to_json T X narg narg_to_json narg_raw.

(* ------------------------------------------------------------------ *)
(* 4. == on narg                                                        *)

Definition is_lit1 (a : arg1) : bool := match a with ALit _ => true | APath _ _ => false end.

(* a display without data paths IS the literal container (NestedArgs: "may be written either way") *)
Definition norm_n (n : narg) : narg :=
  match n with
  | NA _ => n
  | NItems tup items =>
      if forallb is_lit1 items then NA (ALit ((if tup then VTuple else VList) (map raw1 items))) else n
  | NDict kvs =>
      if forallb (fun kv => is_lit1 (snd kv)) kvs then NA (ALit (VDict (map (fun kv => (fst kv, raw1 (snd kv))) kvs))) else n
  end.

Fixpoint nd_look (k : pyval) (d : list (pyval * arg1)) : option arg1 :=
  match d with [] => None | (k2, a) :: r => if py_eq k k2 then Some a else nd_look k r end.

(* list == list: item by item; dict == dict: same size, every entry of the left found on the right; a list is never
   equal to a tuple; items: literals by py_eq, DataPath objects by DataPath.__eq__ (Eq.arg1_eqb) *)
Definition narg_eqb (a b : narg) : bool :=
  match norm_n a, norm_n b with
  | NA x, NA y => arg1_eqb T x y
  | NItems t1 i1, NItems t2 i2 => Bool.eqb t1 t2 && list_eqb (arg1_eqb T) i1 i2
  | NDict k1, NDict k2 =>
      Nat.eqb (List.length k1) (List.length k2)
      && forallb (fun kv => match nd_look (fst kv) k2 with Some a' => arg1_eqb T (snd kv) a' | None => false end) k1
  | _, _ => false
  end.

Definition leafn_eqb := leaf_eqb narg narg_eqb.
Definition condn_eqb := cond_eqb narg narg_eqb.

(* ------------------------------------------------------------------ *)
(* 5. entry points for a harness                                         *)

(* cond.to_json_like(), then from_spec on it: (json, json is pure, rebuilt == original) *)
Definition nested_roundtrip (c : cond narg) : res pyval :=
  let* j := condn_to_json c in
  let* tc := condn_from_spec j in
  Ok (VTuple [j; VBool (json_pure j); VBool (condn_eqb (snd tc) c)]).

(* the same for a condition written with the API (NestedArgs.build_n) *)
Definition run_nested_roundtrip (t : dslc narg) : res pyval :=
  let* c := build_n t in nested_roundtrip c.
