(* Comparison of model outcomes with implementation outcomes inside Coq (correspondence check). *)
From Coq Require Import ZArith NArith List Bool String.
From Valida Require Import Py.
Import ListNotations.

(* model outcome vs implementation outcome; the model's StrFormat stands for every
   outcome `str % v` can have in CPython *)
Definition res_match (model impl : res pyval) : bool :=
  match model, impl with
  | Ok x, Ok y => pyval_eqb x y
  | Err StrFormat, Ok (VStr _) => true
  | Err StrFormat, Err e => match e with TypeError | ValueError | OverflowError | KeyError => true | _ => false end
  | Err e, Err f => exc_eqb e f
  | _, _ => false
  end.

Fixpoint mismatches_from (i : nat) (l : list (res pyval * res pyval)) : list nat :=
  match l with
  | [] => []
  | (m, x) :: r => if res_match m x then mismatches_from (S i) r else i :: mismatches_from (S i) r
  end.
Definition mismatches := mismatches_from 0.

Definition vb (b : bool) : pyval := VBool b.
Definition okb (r : res bool) : res pyval := match r with Ok b => Ok (VBool b) | Err e => Err e end.
Definition vnat (n : nat) : pyval := VInt (Z.of_nat n).
Definition vopt (o : option pyval) : pyval := match o with Some v => v | None => VNone end.

(* oracle pass: None = the specification gives no verdict on this case *)
Definition oracle_pair (o : option (res pyval)) (impl : res pyval) : res pyval * res pyval :=
  match o with Some r => (r, impl) | None => (impl, impl) end.
