(* Entry points for rules and schemas evaluated by the correspondence check. *)
From Coq Require Import ZArith NArith List Bool String.
From Valida Require Import Py Lang Defs Cond Dsl Check Path Cast RuleDefs Rule Inst.
Import ListNotations.
Local Open Scope string_scope.
Local Open Scope list_scope.
Local Open Scope Z_scope.

Definition obs_failure (f : failure) : pyval :=
  VTuple [VInt (f_index f); f_value f; f_path f; VBool (0 <? Z.of_nat (f_reasons f))].
Definition obs_rtest (t : rtest) : pyval :=
  VTuple [VBool (rt_valid t); VBool (rt_tested t); VInt (Z.of_nat (List.length (rt_failures t)));
          VList (map obs_failure (rt_failures t))].

(* Rule(path, condition, cast).test(doc) -> (verdict observables, the document judged on) *)
Definition run_rule_test (rt : ruleterm) (doc : pyval) : res pyval :=
  let* r := mk_rule T rt in
  let* (t, _) := rule_test T r doc None in
  Ok (VTuple [obs_rtest t; rt_data t]).

(* Schema(rules).validate(doc) *)
Definition run_validate (rts : list ruleterm) (doc : pyval) : res pyval :=
  let* rs := mk_rules T rts in
  let* v := validate T rs doc in
  Ok (VTuple [VBool (v_valid v); VInt (Z.of_nat (v_num_failures v)); VInt (Z.of_nat (v_num_tested v));
              VList (map obs_rtest (v_tests v)); v_cast_data v]).
