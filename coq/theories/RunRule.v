(* Entry points for rules and schemas evaluated by the correspondence check. *)
From Coq Require Import ZArith NArith List Bool String.
From Valida Require Import Py Lang Defs Cond Dsl Check Path Cast RuleDefs Rule Inst.
Import ListNotations.
Local Open Scope string_scope.
Local Open Scope list_scope.
Local Open Scope Z_scope.

Definition obs_failure (f : failure) : pyval :=
  VTuple [VInt (f_index f); f_value f; f_path f; VBool (0 <? Z.of_nat (f_reasons f))].
Definition obs_rtest (t : rtest) : pyval :=
  VTuple [VBool (rt_valid t); VBool (rt_tested t); VInt (Z.of_nat (List.length (rt_failures t)));
          VList (map obs_failure (rt_failures t))].

(* Rule(path, condition, cast).test(doc) -> (verdict observables, the document judged on) *)
Definition run_rule_test (rt : ruleterm) (doc : pyval) : res pyval :=
  let* r := mk_rule T rt in
  let* (t, _) := rule_test T r doc None in
  Ok (VTuple [obs_rtest t; rt_data t]).

(* Schema(rules).validate(doc) *)
Definition run_validate (rts : list ruleterm) (doc : pyval) : res pyval :=
  let* rs := mk_rules T rts in
  let* v := validate T rs doc in
  Ok (VTuple [VBool (v_valid v); VInt (Z.of_nat (v_num_failures v)); VInt (Z.of_nat (v_num_tested v));
              VList (map obs_rtest (v_tests v)); v_cast_data v]).

(* Schema.add_schema(T, root): re-rooted copies of T's rules are added, then re-sorted *)
Definition reroot (R : dpath pyval) (r : rule) : rule :=
  let parts := p_parts R ++ p_parts (r_path r) in
  {| r_path := {| p_parts := parts; p_concrete := match parts with [] => true | _ => false end;
                  p_dt := DtNone; p_mt := MtNone; p_src := None |};
     r_cond := r_cond r; r_cast := r_cast r |}.

Definition add_schema (S Tr : list rule) (R : dpath pyval) : list rule :=
  sort_rules (sort_rules S ++ map (reroot R) (sort_rules Tr)).

Definition obs_vresult (v : vresult) : pyval :=
  VTuple [VBool (v_valid v); VInt (Z.of_nat (v_num_failures v)); VInt (Z.of_nat (v_num_tested v));
          VList (map obs_rtest (v_tests v)); v_cast_data v].

(* S.add_schema(T, R) for each (T, R) in order; then S.validate(doc) *)
Definition run_add_validate (S : list ruleterm) (adds : list (list ruleterm * pathterm pyval)) (doc : pyval) : res pyval :=
  let* s0 := mk_rules T S in
  let* s :=
    (fix go (adds : list (list ruleterm * pathterm pyval)) (acc : list rule) : res (list rule) :=
       match adds with
       | [] => Ok acc
       | (tr, rt) :: rest =>
           let* t := mk_rules T tr in
           let* r := mk_path T idlit rt in
           go rest (add_schema acc t r)
       end) adds (sort_rules s0) in
  let* v := validate T s doc in Ok (obs_vresult v).
