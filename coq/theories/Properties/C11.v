(* C11 -- conditions survive the JSON-like round trip. *)
From Coq Require Import ZArith NArith List Bool String.
From Valida Require Import Py Lang Defs Cond Dsl Check DocSem Path Cast Str SpecDefs RuleDefs RuleTerms Rule Spec SpecIO SpecSpell Eq Inst RunSpec.
Import ListNotations.
Local Open Scope string_scope.
From Valida.Proofs Require Import Tie C02Proof RuleProof C09Proof C11Proof C11EscProof C12Proof C11PathProof.

(* For every and/or/xor tree of typed DSL leaves in the fragment [tree_in_c11] (all 7 classes x 32
   constructors; JSON-pure well-formed arguments, or types where the class / callable asks for types;
   mappings and items_contain names without "path" in a key, see the counterexamples in C11Proof.v
   and known finding D40): the model of to_json_like -- running on the tables translated from the
   current source -- returns JSON-pure data; the model of from_spec rebuilds from that data EXACTLY
   the condition that was serialised (hence one that filters identically on every document and is
   == to it), and serialising the rebuilt condition gives the same data again. *)
Theorem C11_tree : forall t c,
  tree_in_c11 t = true -> build_expect (qnorm t) = Ok c ->
  let c1 := cond_map pyval arg1 ALit c in
  cond1_to_json T X c1 = Ok (tree_json (qnorm t)) /\ json_pure (tree_json (qnorm t)) = true /\
  (exists tm, cond1_from_spec T X (tree_json (qnorm t)) = Ok (tm, c1)) /\
  cond1_eqb T c1 c1 = true.
Proof. exact C11_roundtrip_eq. Qed.
Print Assumptions C11_tree.

(* the statement in the property's own words: data j, rebuilt condition c2 == c1, same data again *)
Theorem C11_again : forall t c,
  tree_in_c11 t = true -> build_expect (qnorm t) = Ok c ->
  let c1 := cond_map pyval arg1 ALit c in
  exists j, cond1_to_json T X c1 = Ok j /\ json_pure j = true /\
    exists tm c2, cond1_from_spec T X j = Ok (tm, c2) /\ cond1_eqb T c2 c1 = true /\ cond1_to_json T X c2 = Ok j.
Proof. exact C11_roundtrip. Qed.
Print Assumptions C11_again.

(* single leaves, with the data spelled out *)
Theorem C11_single_leaf : forall c q,
  leaf_in_c11 c q = true ->
  let c1 := cond_map pyval arg1 ALit (CLeaf (expected_leaf c q)) in
  cond1_to_json T X c1 = Ok (leaf_json c q) /\ json_pure (leaf_json c q) = true /\
  (exists tm, cond1_from_spec T X (leaf_json c q) = Ok (tm, c1)) /\
  cond1_eqb T c1 c1 = true.
Proof. exact C11_leaf. Qed.
Print Assumptions C11_single_leaf.

(* the fragment is inhabited by a nested tree with a mapping argument *)
Theorem C11_fragment_inhabited : tree_in_c11 ex11_tree = true.
Proof. exact ex11_in. Qed.

(* The same round trip on the larger fragment [tree_in_c11e], which admits literal mapping arguments (and items_contain
   names) with "path" in their keys: the serialiser escapes them, the parser un-escapes them in place, and the rebuilt
   condition is again EXACTLY the one serialised.  [tree_in_c11] is included, with the same written data. *)
Theorem C11_tree_with_escaped_mappings : forall (t : qtree) (c : cond pyval),
  tree_in_c11e t = true -> C02Proof.build_expect (qnorm t) = Ok c ->
  let c1 := cmapL c in
  cond1_to_json T X c1 = Ok (tree_json_e (qnorm t)) /\
  json_pure (tree_json_e (qnorm t)) = true /\
  (exists tm : dslc arg1, cond1_from_spec T X (tree_json_e (qnorm t)) = Ok (tm, c1)) /\
  cond1_eqb T c1 c1 = true.
Proof. exact C11E_roundtrip_eq. Qed.
Theorem C11_fragment_included : forall t : qtree, tree_in_c11 t = true -> tree_in_c11e t = true /\ tree_json_e t = tree_json t.
Proof. exact tree_c11_in_c11e. Qed.
Print Assumptions C11_tree_with_escaped_mappings. Print Assumptions C11_fragment_included.

(* ---- conditions with DATA-PATH arguments ----
   [sts] are the paths (typed path terms of the C12 fragment, no source data; any datum / multiplicity modifiers); in the
   typed tree [t] an argument [VObj n] stands for the n-th of them; [cond_p sts t] is the condition the API builds from that
   (C11_with_paths_is_what_the_api_builds).  The written data is pure JSON, it parses back to a condition == to the original,
   and that condition serialises to EXACTLY the same data.  Positions: the argument of a one-parameter callable, any of the
   arguments of a multi-parameter / var-positional callable, values of items_contain.  Excluded (counterexamples proved in
   Proofs/C11PathProof.v, same root cause as known finding D12): a path where a TYPE is expected (dtype classes, is_instance). *)
Theorem C11_roundtrip_with_paths : forall sts t,
  tree_in_c11p sts t = true ->
  exists j tm c2,
    cond1_to_json T X (cond_p sts t) = Ok j /\ json_pure j = true /\
    cond1_from_spec T X j = Ok (tm, c2) /\ cond1_eqb T c2 (cond_p sts t) = true /\
    cond1_to_json T X c2 = Ok j.
Proof. exact C11P_roundtrip. Qed.

Theorem C11_with_paths_is_what_the_api_builds : forall sts t,
  tree_in_c11p sts t = true ->
  build1 T (dslc_map (sub (pterms sts)) (qterm t)) = Ok (cond_p sts t).
Proof. exact C11P_cond_is_built. Qed.

(* the literal fragment is the special case without paths, with the same written data *)
Theorem C11_with_paths_includes_literals : forall t, tree_in_c11e t = true ->
  tree_in_c11p [] t = true /\ tree_js [] t = tree_json_e t /\ cond_p [] t = cmapL (cond_of (qnorm t)).
Proof. exact C11P_includes_c11e. Qed.
Print Assumptions C11_roundtrip_with_paths. Print Assumptions C11_with_paths_is_what_the_api_builds.
Print Assumptions C11_with_paths_includes_literals.

(* ---- data paths NESTED one level inside the argument of a one-parameter callable ----
   (NestedIO.v: the parser of Spec.v instantiated with an injective marker for a nested path, so that the list / mapping literal it
   builds can be decoded back into NestedArgs.narg; the serialiser mirrors _arg_to_json_like.)  For Value.in_([DataPath(..), 1, {..}]),
   Value.equal_to({"k": DataPath(..).length(), "j": [1]}) and the like: the written JSON is pure, from_spec rebuilds the condition,
   the rebuilt condition is == to the original and is written to the same JSON again.  Fragment: list displays (a tuple is written
   as a list and does NOT come back equal: C11_nested_tuple_not_equal), mapping displays whose keys do not contain "path" (with such
   a key the serialiser refuses: C11_nested_path_key_refused), literal items of the C11 item fragment, paths of the C12 fragment. *)
From Valida Require Import NestedArgs NestedIO.
From Valida.Proofs Require Import C11NestedProof.

Theorem C11_nested_leaf_roundtrip : forall nas c q,
  leaf_in_c11n nas c q ->
  let l := nleaf nas c q in
  let l' := nleaf (backs_n nas) c q in
  let j := leaf_js_n nas c q in
  leafn_to_json l = Ok j /\ json_pure j = true /\
  (exists tm, condn_from_spec j = Ok (tm, CLeaf l')) /\
  leafn_eqb l' l = true /\ leafn_to_json l' = Ok j.
Proof. exact C11N_leaf_roundtrip. Qed.

Theorem C11_nested_list_roundtrip : forall c q items,
  class_ok c q = true -> casts c q = false -> q_form q = FOne (VObj 0%N) ->
  Forall item_ok1 items ->
  let l := nleaf [NItems false items] c q in
  let l' := nleaf [back_n (NItems false items)] c q in
  let j := VDict [(VStr (leaf_key c q), VList (map wj1 items))] in
  leafn_to_json l = Ok j /\ json_pure j = true /\
  (exists tm, condn_from_spec j = Ok (tm, CLeaf l')) /\
  leafn_eqb l' l = true /\ leafn_to_json l' = Ok j.
Proof. exact C11N_list_roundtrip. Qed.

Theorem C11_nested_mapping_roundtrip : forall c q kvs,
  class_ok c q = true -> casts c q = false -> q_form q = FOne (VObj 0%N) ->
  dkeys_ok kvs = true -> Forall item_ok1 (map snd kvs) ->
  let l := nleaf [NDict kvs] c q in
  let l' := nleaf [back_n (NDict kvs)] c q in
  let j := VDict [(VStr (leaf_key c q), VDict (vmap wj1 kvs))] in
  leafn_to_json l = Ok j /\ json_pure j = true /\
  (exists tm, condn_from_spec j = Ok (tm, CLeaf l')) /\
  leafn_eqb l' l = true /\ leafn_to_json l' = Ok j.
Proof. exact C11N_dict_roundtrip. Qed.

Theorem C11_nested_path_key_refused : forall c q kvs k tag t,
  q_form q = FOne (VObj 0%N) ->
  has_path_key (map (fun kv : pyval * arg1 => (fst kv, VNone)) kvs) = true -> In (k, APath tag t) kvs ->
  leafn_to_json (nleaf [NDict kvs] c q) = Err TypeError.
Proof. exact C11N_dict_path_key_refused. Qed.

(* and/or/xor trees of such leaves (null operands, depth <= 40, no Key / Index mix); partial: leaves of the other fragments
   (plain literals, several parameters) are not yet proved inside the same narg tree *)
Theorem C11_nested_tree_roundtrip_partial : forall nas t,
  tree_in_c11n nas t ->
  exists j tm c2,
    condn_to_json (cmapN nas (cond_of (qnorm t))) = Ok j /\ json_pure j = true /\
    condn_from_spec j = Ok (tm, c2) /\ condn_eqb c2 (cmapN nas (cond_of (qnorm t))) = true /\
    condn_to_json c2 = Ok j.
Proof. exact C11N_roundtrip_partial. Qed.

Print Assumptions C11_nested_leaf_roundtrip. Print Assumptions C11_nested_list_roundtrip. Print Assumptions C11_nested_mapping_roundtrip.
Print Assumptions C11_nested_path_key_refused. Print Assumptions C11_nested_tree_roundtrip_partial.

(* ---- the full tree theorem: ONE tree may mix leaves of every fragment -- plain literals (tree_in_c11e), data-path arguments of
   callables with several parameters / *args / **kwargs (tree_in_c11p) and nested paths in the argument of a one-parameter callable
   (leaf_in_c11n).  Proved by simulating the arg1 instance of the parser by the narg instance on arguments of the form NA a
   (Proofs/C11NestedFullProof.v). *)
From Valida.Proofs Require Import C11NestedFullProof.

Theorem C11_nested_tree_roundtrip : forall nas t,
  tree_in_c11n_full nas t ->
  exists j tm c2,
    condn_to_json (cmapN nas (cond_of (qnorm t))) = Ok j /\ json_pure j = true /\
    condn_from_spec j = Ok (tm, c2) /\ condn_eqb c2 (cmapN nas (cond_of (qnorm t))) = true /\
    condn_to_json c2 = Ok j.
Proof. exact C11N_roundtrip. Qed.

(* the full fragment contains the earlier ones *)
Theorem C11_nested_fragment_includes_the_others :
  (forall nas t, tree_in_c11n nas t -> tree_in_c11n_full nas t) /\
  (forall sts t, tree_in_c11p sts t = true -> tree_in_c11n_full (embp (pterms sts)) t).
Proof. split; [ exact C11N_includes_partial | exact C11N_includes_c11p ]. Qed.

Print Assumptions C11_nested_tree_roundtrip. Print Assumptions C11_nested_fragment_includes_the_others.
