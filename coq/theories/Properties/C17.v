(* C17 -- a data-path argument means the value at that path in the validated document. *)
From Coq Require Import ZArith NArith List Bool String.
From Valida Require Import Py Lang Defs Cond Dsl Check DocSem PathSpec Path Cast Str SpecDefs RuleDefs RuleSpec RuleTerms Rule Spec SpecIO Eq SpecSpell Inst Run RunRule RunSpec.
Import ListNotations.
Local Open Scope string_scope.
From Valida Require Import C17Defs NestedArgs.
From Valida.Proofs Require Import C17Proof C17NestedProof.

(* Replacing every data-path argument of a rule's condition by what the path selects in the document
   (None if absent, [] for a non-concrete path, datum / multiplicity modifiers applied) changes
   nothing: for every condition tree, every argument position (positional, keyword), every document. *)
Theorem C17_subst : forall doc (c : cond arg1) d,
  filter_tree T (resolve1 T (Some doc)) (subst_cond doc c) d = filter_tree T (resolve1 T (Some doc)) c d.
Proof. exact C17_subst_filter. Qed.
Print Assumptions C17_subst.

Theorem C17_rule_verdict : forall r doc, r_cast r = [] ->
  rule_test T (subst_rule doc r) doc None = rule_test T r doc None.
Proof. exact C17_subst_rule_test_nocast. Qed.
Print Assumptions C17_rule_verdict.

(* a rule that casts is judged on the copy holding the casts made so far (its own included): there, a data-path argument
   means the value at that path IN THAT COPY *)
Theorem C17_rule_verdict_with_casts : forall r doc copy sel cp1,
  r_cast r <> [] ->
  selection T (r_path r) doc = Ok sel ->
  cast_loop (r_cast r) sel (match copy with Some c => c | None => doc end) = Ok cp1 ->
  rule_test T (subst_rule cp1 r) doc copy = rule_test T r doc copy.
Proof. exact C17_subst_rule_test_cast. Qed.
Print Assumptions C17_rule_verdict_with_casts.

(* an argument that cannot be resolved on this document fails the item instead of aborting *)
Theorem C17_unresolvable_fails : forall doc (l : leaf arg1) datum v e,
  pre_apply (l_pre l) datum = Ok v -> catches (t_caught_call T) e = true ->
  ( mapM (resolve1 T (Some doc)) (l_args l) = Err e
    \/ (exists args, mapM (resolve1 T (Some doc)) (l_args l) = Ok args
                     /\ resolve_kw arg1 (resolve1 T (Some doc)) (l_kwargs l) = Err e) ) ->
  eval_item T (resolve1 T (Some doc)) l datum = Ok (false, true, false).
Proof. exact C17_unresolvable. Qed.
Print Assumptions C17_unresolvable_fails.

(* the error classes path resolution raises on documents are all caught by the generated except clause *)
Theorem C17_resolution_caught : forall e,
  In e [TypeError; AttributeError; ValueError; IndexError; KeyError; ZeroDivisionError; OverflowError] ->
  catches (t_caught_call T) e = true.
Proof. exact C17_resolution_errors_caught. Qed.
Print Assumptions C17_resolution_caught.

(* ---- data paths INSIDE list / tuple / mapping arguments (NestedArgs.v: _resolve_data_paths looks exactly one level down) ----
   [narg]: an argument is a literal or a path (NA), a list / tuple whose items are literals or paths (NItems), or a mapping whose
   values are literals or paths (NDict).  [rule_test_n] is Rule.test with such arguments; on rules without nested paths it IS
   [rule_test] (C17_nested_extends), so everything proved about rule_test carries over. *)
Theorem C17_nested_extends : forall (r : rule) doc copy,
  rule_test_n (emb_rule r) doc copy = rule_test T r doc copy.
Proof. exact rule_test_emb. Qed.

(* the nested resolver: items left to right, the container kind and the mapping keys kept *)
Theorem C17_nested_resolution : forall src n,
  resolve_n src n = let* vs := mapM (resolve1 T src) (nitems n) in Ok (pack_n n vs).
Proof. exact resolve_n_mapM. Qed.

(* replacing every path, nested ones included, by what it selects in the document changes nothing *)
Theorem C17_nested_subst : forall doc (c : cond narg) d,
  filter_tree T (resolve_n (Some doc)) (subst_cond_n doc c) d = filter_tree T (resolve_n (Some doc)) c d.
Proof. exact C17N_subst_filter. Qed.

Theorem C17_nested_rule_verdict : forall r doc, rn_cast r = [] ->
  rule_test_n (subst_rule_n doc r) doc None = rule_test_n r doc None.
Proof. exact C17N_subst_rule_test_nocast. Qed.

Theorem C17_nested_rule_verdict_with_casts : forall r doc copy sel cp1,
  rn_cast r <> [] ->
  selection T (rn_path r) doc = Ok sel ->
  cast_loop (rn_cast r) sel (match copy with Some c => c | None => doc end) = Ok cp1 ->
  rule_test_n (subst_rule_n cp1 r) doc copy = rule_test_n r doc copy.
Proof. exact C17N_subst_rule_test_cast. Qed.

(* a nested path that cannot be resolved on this document fails the item instead of aborting *)
Theorem C17_nested_unresolvable_fails : forall doc (l : leaf narg) datum v n a e,
  pre_apply (l_pre l) datum = Ok v ->
  In n (l_args l ++ map snd (l_kwargs l)) ->
  In a (nitems n) ->
  resolve1 T (Some doc) a = Err e ->
  (forall n' a' e', In n' (l_args l ++ map snd (l_kwargs l)) -> In a' (nitems n') ->
                    resolve1 T (Some doc) a' = Err e' ->
                    In e' [TypeError; AttributeError; ValueError; IndexError; KeyError; ZeroDivisionError; OverflowError]) ->
  eval_item T (resolve_n (Some doc)) l datum = Ok (false, true, false).
Proof. exact C17N_unresolvable_fails_listed. Qed.

Print Assumptions C17_nested_extends. Print Assumptions C17_nested_resolution. Print Assumptions C17_nested_subst.
Print Assumptions C17_nested_rule_verdict. Print Assumptions C17_nested_rule_verdict_with_casts.
Print Assumptions C17_nested_unresolvable_fails.
