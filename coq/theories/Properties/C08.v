(* C08 -- validation is read-only: inputs and schema unchanged, results repeatable. *)
From Coq Require Import List Bool String Arith.
From Valida Require Import Taint.
From Valida.Gen Require Import ReadOnlyGen.
From Valida.Proofs Require Import TaintProof C08Proof.
Import ListNotations.
Local Open Scope string_scope.
Local Open Scope list_scope.

(* what is analysed: the entry points (calls and result accessors), the one exemption (the Data wrapper's own
   list, which the property's anchor allows path extraction to rebind), the private output buffer of Rule.test,
   and no reachable function left without a summary *)
Theorem C08_inventory :
  ro_entries =
  [ "conditions.ConditionLike.filter"; "conditions.KeyLike.filter"; "conditions.IndexLike.filter";
    "conditions.ConditionLike.test"; "conditions.KeyLike.test"; "conditions.IndexLike.test"; "conditions.ConditionLike.test_all";
    "data.Data.filter"; "data.Data.get"; "datapath.DataPath.get_data";
    "datapath.MapValue.filter"; "datapath.ListValue.filter"; "datapath.MapOrListValue.filter";
    "rules.Rule.test"; "schema.Schema.validate";
    "rules.RuleTest.is_valid"; "rules.RuleTest.tested"; "rules.RuleTest.num_failures"; "rules.RuleTest.failures";
    "rules.RuleTest.get_failures_string"; "schema.ValidatedData.is_valid"; "schema.ValidatedData.num_failures";
    "schema.ValidatedData.num_rules_tested"; "schema.ValidatedData.frac_rules_tested"; "schema.ValidatedData.get_failures_string";
    "data.FilteredDataLike.data"; "data.FilteredDataLike.keys"; "data.FilteredDataLike.failure_indices";
    "data.FilteredDataLike.get_all_failures"; "data.FilteredDataLike.get_failure_by_index" ]
  /\ ro_exempt = ["data.Data.extract_paths"] /\ ro_private_out = ["_data_copy"] /\ ro_unsummarised = [].
Proof. repeat split; reflexivity. Qed.

(* every function a validation call can reach (by-name call graph of the current source, all non-constructor special
   methods included) meets the summary the translator proposes for it; closed computation on Gen/ReadOnlyGen.v *)
Theorem C08_summaries_checked : forallb safe_s ro_funs = true.
Proof. exact all_summaries_checked. Qed.

(* every entry point has the summary: writes nothing it was given (the private buffer excepted) *)
Theorem C08_entries_summarised_read_only : forallb (entry_ok ro_funs ro_private_out) ro_entries = true.
Proof. exact all_entries_ok. Qed.

(* soundness of the analysis under a summary, for every function, heap, binding and run *)
Theorem C08_analysis_sound : forall s h e0 h' e' w,
  safe_s s = true ->
  (forall l o, nth_error h l = Some o -> forall k, In k (kids o) -> k < List.length h) ->
  (forall x r, cget x e0 = Some (Some r) ->
     r < List.length h /\
     (aget x (senv s) = Deep -> forall k, reach h r k -> owned_at h k = false) /\
     (aget x (senv s) = Shal -> owned_at h r = false)) ->
  crun (af_body (sf_fun s)) h e0 h' e' w ->
  Forall (fun l => owned_at h' l = false) w.
Proof. exact safe_s_sound_spelled. Qed.

(* hence: no run of an entry point (any heap, any document / schema / rule / condition / path objects bound to
   its parameters, compound statements in any order any number of times) writes to an object its caller owns;
   since shared objects are only read, interleaved or repeated validations cannot influence one another *)
Theorem C08_entry_points_read_only : forall s e,
  In s ro_funs -> In e ro_entries -> is_variant_of e (af_name (sf_fun s)) = true ->
  forall h e0 h' e' w,
  (forall l o, nth_error h l = Some o -> forall k, In k (kids o) -> k < List.length h) ->
  (forall x r, cget x e0 = Some (Some r) -> r < List.length h) ->
  (forall x r, In x ro_private_out -> cget x e0 = Some (Some r) -> forall k, reach h r k -> owned_at h k = false) ->
  crun (af_body (sf_fun s)) h e0 h' e' w ->
  Forall (fun l => owned_at h' l = false) w.
Proof. exact entry_read_only. Qed.

(* the functions that do write something they are given, and what: only these three *)
Theorem C08_writers :
  map (fun s => (af_name (sf_fun s), sf_levels s)) (filter (fun s => negb (forallb lvl_is_ext (sf_levels s))) ro_funs)
  = [("data.set_datum", [Deep; Ext; Ext]); ("rules.Rule.test", [Ext; Ext; Deep]); ("rules.RuleTest._test", [Shal])].
Proof. exact writers. Qed.

Print Assumptions C08_inventory. Print Assumptions C08_summaries_checked. Print Assumptions C08_entries_summarised_read_only.
Print Assumptions C08_analysis_sound. Print Assumptions C08_entry_points_read_only. Print Assumptions C08_writers.
