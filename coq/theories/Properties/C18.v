(* C18 -- add_schema adds re-rooted rules and leaves the added schema intact. *)
From Coq Require Import ZArith NArith List Bool String Sorting.Permutation Sorting.Sorted.
From Valida Require Import Py Lang Defs DocSem PathSpec Cast RuleDefs RuleSpec SchemaHeap.
From Valida.Gen Require Import ProtoGen.
From Valida.Proofs Require Import C04Proof C18Proof.
Import ListNotations.
Local Open Scope list_scope.

(* the shape of Schema.add_schema read from the current source: it appends NEW Rule objects *)
Lemma source_add_schema_copies : as_copies add_schema_proto = true.
Proof. reflexivity. Qed.

(* S.add_schema(T, R) writes to no existing object except S itself: T's schema object, every rule
   object of T and of S, and their paths, are what they were *)
Theorem C18_frame : forall s t root h h',
  add_schema_h add_schema_proto s t root h = Some h' ->
  forall l, l < List.length h -> l <> s -> nth_error h' l = nth_error h l.
Proof. intros s t root h h' H. exact (add_schema_frame add_schema_proto s t root h h' source_add_schema_copies H). Qed.
Print Assumptions C18_frame.

(* T is unchanged by ANY history of additions in which it is not the receiving schema: the same T
   under several roots, into several schemas, each addition independent *)
Theorem C18_history : forall ops h t,
  wf_heap h -> (forall op, In op ops -> fst (fst op) <> t) ->
  schema_rules (run_adds add_schema_proto ops h) t = schema_rules h t.
Proof. intros ops h t Hw Hn. exact (add_history_T_unchanged add_schema_proto ops h t source_add_schema_copies Hw Hn). Qed.
Print Assumptions C18_history.

(* S afterwards = its previous rules plus each rule of T re-rooted at R, shortest path first, ties in order *)
Theorem C18_rules : forall s t root h h',
  add_schema_h add_schema_proto s t root h = Some h' -> wf_heap h ->
  exists old trules new,
    schema_rules h s = Some old /\ schema_rules h t = Some trules /\ schema_rules h' s = Some new /\
    Permutation new (old ++ map (fun pb => (root ++ fst pb, snd pb)) trules) /\
    StronglySorted (fun a b => (List.length (fst a) <= List.length (fst b))%nat) new.
Proof.
  intros s t root h h' H Hw.
  destruct (add_schema_S_rules add_schema_proto s t root h h' source_add_schema_copies H Hw)
    as [old [trules [new [A [B [C [D [E _]]]]]]]].
  exists old, trules, new. repeat split; try assumption.
  - replace (map (fun pb : list nat * nat => (root ++ fst pb, snd pb)) trules)
      with (map (fun '(p, b) => (root ++ p, b)) trules); [exact D|].
    apply map_ext. intros [p b]. reflexivity.
Qed.
Print Assumptions C18_rules.

(* a re-rooted path selects exactly what T's path selects below each node that R selects *)
Theorem C18_concat : forall R P d,
  walk (R ++ P) [] d =
  flat_map (fun cn => map (fun pv => (fst cn ++ fst pv, snd pv)) (walk P [] (snd cn))) (walk R [] d).
Proof. exact C18_selection. Qed.
Print Assumptions C18_concat.

(* ... so the re-rooted rule is valid iff T's rule is valid on everything that lies at R, its failures
   are the sum of T's, and it is tested iff T's rule is tested somewhere *)
Theorem C18_judgement : forall R P d t, value_only t = true ->
  verdict_valid (spec_verdict (walk (R ++ P) [] d) t)
  = forallb (fun cn => verdict_valid (spec_verdict (walk P [] (snd cn)) t)) (walk R [] d).
Proof. exact C18_valid_iff. Qed.
Print Assumptions C18_judgement.

(* the rebinding form of add_schema (the defect repaired by ffe7577) violates the statement *)
Theorem C18_rebinding_refuted : exists h s t root h',
  add_schema_h rebinding s t root h = Some h' /\ s <> t /\ schema_rules h' t <> schema_rules h t.
Proof. exact add_schema_rebinding_refuted. Qed.
