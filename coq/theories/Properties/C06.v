(* C06 -- schema verdict is the order-independent conjunction of its rules' verdicts. *)
From Coq Require Import ZArith NArith List Bool String Sorting.Permutation Sorting.Sorted.
From Valida Require Import Py Lang Defs Cond Dsl Check DocSem PathSpec Path Cast RuleDefs RuleSpec RuleTerms Rule Inst Run RunRule.
From Valida.Proofs Require Import C04Proof RuleProof SchemaSpecProof.
Import ListNotations.
Local Open Scope string_scope.

(* model = specification for Schema(rules).validate(doc), every schema of typed rules (casts or not),
   every well-formed document: rules sorted stably by path length, each judged, aggregates read off *)
Theorem C06_model_is_spec : forall (rs : list srule) (doc : pyval) x,
  forallb srule_ok rs = true -> wf_val doc = true ->
  spec_validate rs doc = Some x -> run_validate (map srule_term rs) doc = x.
Proof. exact schema_model_meets_spec_partial. Qed.
Print Assumptions C06_model_is_spec.

(* is_valid = conjunction, num_failures = sum, num_rules_tested = count of tested rules *)
Theorem C06_conj : forall rs doc r, spec_validate rs doc = Some (Ok r) ->
  exists vs copy,
    r = VTuple [VBool (forallb verdict_valid vs);
                VInt (fold_right (fun v n => (verdict_nfail v + n)%Z) 0%Z vs);
                VInt (Z.of_nat (List.length (filter verdict_tested vs)));
                VList vs; copy].
Proof. exact C06_conjunction_gen. Qed.
Print Assumptions C06_conj.

(* rules are applied shortest path first, ties in the given order *)
Theorem C06_sorted : forall rs,
  Permutation (ssort_rules rs) rs /\
  StronglySorted (fun a b => (List.length (sp_parts (fst a)) <= List.length (sp_parts (fst b)))%nat) (ssort_rules rs) /\
  Sorted (fun a b => (List.length (sp_parts (fst a)) <= List.length (sp_parts (fst b)))%nat) (ssort_rules rs) /\
  (forall n, filter (fun x => Nat.eqb (List.length (sp_parts (fst x))) n) (ssort_rules rs)
             = filter (fun x => Nat.eqb (List.length (sp_parts (fst x))) n) rs).
Proof. exact C06_sorted_stable. Qed.
Print Assumptions C06_sorted.

(* every permutation of a cast-free rule list gives the same validity, failure count, tested count
   and the same multiset of per-rule verdicts -- hence of (rule, failing path) pairs *)
Theorem C06_perm : forall prs prs' doc,
  cast_free prs -> Permutation prs prs' ->
  let vs := fst (spec_run_rules (ssort_rules prs) doc doc) in
  let vs' := fst (spec_run_rules (ssort_rules prs') doc doc) in
  Permutation vs vs' /\
  forallb verdict_valid vs = forallb verdict_valid vs' /\
  fold_right (fun v n => (verdict_nfail v + n)%Z) 0%Z vs = fold_right (fun v n => (verdict_nfail v + n)%Z) 0%Z vs' /\
  List.length (filter verdict_tested vs) = List.length (filter verdict_tested vs').
Proof. intros prs prs' doc H1 H2. destruct (C06_order_independent prs prs' doc H1 H2) as [A [B [C [D _]]]]. auto. Qed.
Print Assumptions C06_perm.
