(* C06 -- schema verdict is the order-independent conjunction of its rules' verdicts. *)
From Coq Require Import ZArith NArith List Bool String Sorting.Permutation Sorting.Sorted.
From Valida Require Import Py Lang Defs Cond Dsl Check DocSem PathSpec Path Cast RuleDefs RuleSpec RuleTerms Rule Inst Run RunRule.
From Valida.Proofs Require Import C04Proof RuleProof SchemaSpecProof.
Import ListNotations.
Local Open Scope string_scope.

(* model = specification for Schema(rules).validate(doc), every schema of typed rules (casts or not),
   every well-formed document: rules sorted stably by path length, each judged, aggregates read off *)
Theorem C06_model_is_spec : forall (rs : list srule) (doc : pyval) x,
  forallb srule_ok rs = true -> wf_val doc = true ->
  spec_validate rs doc = Some x -> run_validate (map srule_term rs) doc = x.
Proof. exact schema_model_meets_spec_partial. Qed.
Print Assumptions C06_model_is_spec.

(* is_valid = conjunction, num_failures = sum, num_rules_tested = count of tested rules *)
Theorem C06_conj : forall rs doc r, spec_validate rs doc = Some (Ok r) ->
  exists vs copy,
    r = VTuple [VBool (forallb verdict_valid vs);
                VInt (fold_right (fun v n => (verdict_nfail v + n)%Z) 0%Z vs);
                VInt (Z.of_nat (List.length (filter verdict_tested vs)));
                VList vs; copy].
Proof. exact C06_conjunction_gen. Qed.
Print Assumptions C06_conj.

(* rules are applied shortest path first, ties in the given order *)
Theorem C06_sorted : forall rs,
  Permutation (ssort_rules rs) rs /\
  StronglySorted (fun a b => (List.length (sp_parts (fst a)) <= List.length (sp_parts (fst b)))%nat) (ssort_rules rs) /\
  Sorted (fun a b => (List.length (sp_parts (fst a)) <= List.length (sp_parts (fst b)))%nat) (ssort_rules rs) /\
  (forall n, filter (fun x => Nat.eqb (List.length (sp_parts (fst x))) n) (ssort_rules rs)
             = filter (fun x => Nat.eqb (List.length (sp_parts (fst x))) n) rs).
Proof. exact C06_sorted_stable. Qed.
Print Assumptions C06_sorted.

(* every permutation of a cast-free rule list gives the same validity, failure count, tested count
   and the same multiset of per-rule verdicts -- hence of (rule, failing path) pairs *)
Theorem C06_perm : forall prs prs' doc,
  cast_free prs -> Permutation prs prs' ->
  let vs := fst (spec_run_rules (ssort_rules prs) doc doc) in
  let vs' := fst (spec_run_rules (ssort_rules prs') doc doc) in
  Permutation vs vs' /\
  forallb verdict_valid vs = forallb verdict_valid vs' /\
  fold_right (fun v n => (verdict_nfail v + n)%Z) 0%Z vs = fold_right (fun v n => (verdict_nfail v + n)%Z) 0%Z vs' /\
  List.length (filter verdict_tested vs) = List.length (filter verdict_tested vs').
Proof. intros prs prs' doc H1 H2. destruct (C06_order_independent prs prs' doc H1 H2) as [A [B [C [D _]]]]. auto. Qed.
Print Assumptions C06_perm.

(* ---- the textual failure report (ValidatedData.get_failures_string) ----
   Report.v models its ASSEMBLY; repr() of a path / a value and the reason lines of a failure are parameters (any functions).
   For every schema, document and verdict of the model's validate: the report names every failing path of every rule test
   ("Path: <repr>" + newline), and its head line states the verdict's own counts. *)
From Valida Require Import Report.
From Valida.Proofs Require Import ReportProof.

Theorem C06_report_names_every_failing_path :
  forall (reprP reprV : pyval -> string) (reasons : failure -> list string) rules doc v k t f,
  validate T rules doc = Ok v -> nth_error (v_tests v) k = Some t -> In f (rt_failures t) ->
  infix_of ("Path: " ++ reprP (f_path f) ++ nl) (report_of reprP reprV reasons v).
Proof. exact (validated_report_names_every_failing_path T). Qed.

Theorem C06_report_when_valid :
  forall (reprP reprV : pyval -> string) (reasons : failure -> list string) rules doc v,
  validate T rules doc = Ok v -> v_valid v = true ->
  report_of reprP reprV reasons v =
    "Data is valid. " ++ dec (v_num_tested v) ++ "/" ++ dec (List.length rules) ++ " rules were tested." ++ nl.
Proof. exact (validated_report_when_valid T). Qed.

Theorem C06_report_when_invalid :
  forall (reprP reprV : pyval -> string) (reasons : failure -> list string) rules doc v,
  validate T rules doc = Ok v -> v_valid v = false ->
  exists rest, report_of reprP reprV reasons v =
    dec (v_num_failures v) ++ " rule" ++ (if Nat.ltb 1 (v_num_failures v) then "s" else "") ++ " failed validation. "
    ++ dec (v_num_tested v) ++ "/" ++ dec (List.length rules) ++ " rules were tested." ++ nl ++ nl ++ rest.
Proof. exact (validated_report_when_invalid T). Qed.

(* the assembly itself, for any rule tests: the block of the k-th rule test (headed "Rule #k+1") is in the report iff that test is
   not valid (a valid one contributes nothing), with each failure's path line and reason lines *)
Theorem C06_report_blocks : forall rs k r, nth_error rs k = Some r ->
  (rx_valid r = false -> infix_of (rule_block (S k) r) (schema_report rs) /\
                         exists rest, rule_block (S k) r = "Rule #" ++ dec (S k) ++ nl ++ rest) /\
  (rx_valid r = true -> rule_block (S k) r = "").
Proof.
  intros rs k r H. split.
  - intros Hv. split; [ exact (report_has_block rs k r H Hv) | exact (report_block_head k r Hv) ].
  - exact (report_valid_rule_silent (S k) r).
Qed.

Theorem C06_report_gives_every_reason : forall rs k r f x, nth_error rs k = Some r -> rx_valid r = false -> In f (rx_fails r) ->
  In x (ft_reasons f) -> infix_of (" " ++ x ++ nl) (schema_report rs).
Proof. exact report_gives_every_reason. Qed.

Print Assumptions C06_report_names_every_failing_path. Print Assumptions C06_report_when_valid.
Print Assumptions C06_report_when_invalid. Print Assumptions C06_report_blocks. Print Assumptions C06_report_gives_every_reason.
