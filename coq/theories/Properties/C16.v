(* C16 -- parsing a spec does not change the spec; re-parsing gives the same object. *)
From Coq Require Import ZArith List Bool String Arith.
From Valida Require Import Taint.
From Valida.Gen Require Import ParsersGen.
From Valida.Proofs Require Import TaintProof.
Import ListNotations.
Local Open Scope string_scope.
Local Open Scope list_scope.

(* The ten parser entry points of the current source (conditions / datapath / rules / schema), as the
   translator abstracts their bodies to the operations of the aliasing analysis. *)
Theorem C16_parser_inventory :
  map af_name parser_funs =
  [ "conditions.ConditionLike.from_spec"; "conditions.ConditionLike.from_json_like";
    "datapath.DataPath.from_spec"; "datapath.DataPath.from_json_like"; "datapath.DataPath.from_part_specs";
    "datapath.ContainerValue.from_spec"; "rules.Rule.from_spec"; "rules.Rule.from_json_like";
    "schema.Schema.from_json_like"; "schema.Schema.init_rules" ].
Proof. vm_compute. reflexivity. Qed.

(* the analysis accepts every one of them (a closed computation on the generated abstraction: it is
   this obligation that breaks when a copy of the spec is removed or a new in-place write is added) *)
Theorem C16_parsers_accepted : forallb safe parser_funs = true.
Proof. vm_compute. reflexivity. Qed.

(* soundness of the analysis, for every function, heap, parameter binding and run *)
Theorem C16_analysis_sound : forall f h e0 h' e' w,
  safe f = true ->
  (forall x v, cget x e0 = Some (Some v) -> v < List.length h) ->
  (forall l o, nth_error h l = Some o -> forall k, In k (kids o) -> k < List.length h) ->
  crun (af_body f) h e0 h' e' w ->
  Forall (fun l => owned_at h' l = false) w.
Proof. exact safe_sound. Qed.

(* hence: no run of any parser of the current source writes to an object owned by its caller (the
   spec structure, at any depth, shared or not), whatever the heap and the spec are; since objects
   are only written through these steps, the caller's spec is type-exactly unchanged after any
   number of parses, and the second parse reads the same structure as the first *)
Theorem C16_parsers_leave_the_spec_alone : forall f, In f parser_funs ->
  forall h e0 h' e' w,
  (forall x v, cget x e0 = Some (Some v) -> v < List.length h) ->
  (forall l o, nth_error h l = Some o -> forall k, In k (kids o) -> k < List.length h) ->
  crun (af_body f) h e0 h' e' w ->
  Forall (fun l => owned_at h' l = false) w.
Proof.
  intros f Hin h e0 h' e' w Hb Hc Hr.
  apply (safe_sound f h e0 h' e' w); auto.
  pose proof C16_parsers_accepted as H. rewrite forallb_forall in H. exact (H f Hin).
Qed.

(* the analysis is not vacuous: the parser shape before the repair (write into the caller's mapping
   without a copy) is rejected, and a concrete run of it writes the caller's object *)
Theorem C16_rejects_in_place_parser : safe f_store = false.
Proof. exact unsafe_store. Qed.

Print Assumptions C16_parser_inventory. Print Assumptions C16_parsers_accepted.
Print Assumptions C16_analysis_sound. Print Assumptions C16_parsers_leave_the_spec_alone.
Print Assumptions C16_rejects_in_place_parser.
