(* C16 -- parsing a spec does not change the spec; re-parsing gives the same object. *)
From Coq Require Import ZArith List Bool String Arith.
From Valida Require Import Taint.
From Valida.Gen Require Import ParsersGen.
From Valida.Proofs Require Import TaintProof.
From Valida Require Import Py Lang Defs Cond Dsl Path Cast Str SpecDefs RuleDefs Rule Spec SpecIO Eq Inst RunSpec SchemaSpec.
From Coq Require Import Sorting.Permutation Sorting.Sorted.
From Valida.Proofs Require Import C14Proof C16ReparseProof C16SchemaProof.
Import ListNotations.
Local Open Scope string_scope.
Local Open Scope list_scope.

(* The ten parser entry points of the current source (conditions / datapath / rules / schema), as the
   translator abstracts their bodies to the operations of the aliasing analysis. *)
Theorem C16_parser_inventory :
  map af_name parser_funs =
  [ "conditions.ConditionLike.from_spec"; "conditions.ConditionLike.from_json_like";
    "datapath.DataPath.from_spec"; "datapath.DataPath.from_json_like"; "datapath.DataPath.from_part_specs";
    "datapath.ContainerValue.from_spec"; "rules.Rule.from_spec"; "rules.Rule.from_json_like";
    "schema.Schema.from_json_like"; "schema.Schema.init_rules" ].
Proof. vm_compute. reflexivity. Qed.

(* the analysis accepts every one of them (a closed computation on the generated abstraction: it is
   this obligation that breaks when a copy of the spec is removed or a new in-place write is added) *)
Theorem C16_parsers_accepted : forallb safe parser_funs = true.
Proof. vm_compute. reflexivity. Qed.

(* soundness of the analysis, for every function, heap, parameter binding and run *)
Theorem C16_analysis_sound : forall f h e0 h' e' w,
  safe f = true ->
  (forall x v, cget x e0 = Some (Some v) -> v < List.length h) ->
  (forall l o, nth_error h l = Some o -> forall k, In k (kids o) -> k < List.length h) ->
  crun (af_body f) h e0 h' e' w ->
  Forall (fun l => owned_at h' l = false) w.
Proof. exact safe_sound. Qed.

(* hence: no run of any parser of the current source writes to an object owned by its caller (the
   spec structure, at any depth, shared or not), whatever the heap and the spec are; since objects
   are only written through these steps, the caller's spec is type-exactly unchanged after any
   number of parses, and the second parse reads the same structure as the first *)
Theorem C16_parsers_leave_the_spec_alone : forall f, In f parser_funs ->
  forall h e0 h' e' w,
  (forall x v, cget x e0 = Some (Some v) -> v < List.length h) ->
  (forall l o, nth_error h l = Some o -> forall k, In k (kids o) -> k < List.length h) ->
  crun (af_body f) h e0 h' e' w ->
  Forall (fun l => owned_at h' l = false) w.
Proof.
  intros f Hin h e0 h' e' w Hb Hc Hr.
  apply (safe_sound f h e0 h' e' w); auto.
  pose proof C16_parsers_accepted as H. rewrite forallb_forall in H. exact (H f Hin).
Qed.

(* the analysis is not vacuous: the parser shape before the repair (write into the caller's mapping
   without a copy) is rejected, and a concrete run of it writes the caller's object *)
Theorem C16_rejects_in_place_parser : safe f_store = false.
Proof. exact unsafe_store. Qed.

Print Assumptions C16_parser_inventory. Print Assumptions C16_parsers_accepted.
Print Assumptions C16_analysis_sound. Print Assumptions C16_parsers_leave_the_spec_alone.
Print Assumptions C16_rejects_in_place_parser.

(* ---- re-parsing gives an equal object ----
   The parsers are functions of the spec (which, by the theorems above, the first parse left as it was); what has to be shown
   is that the object they build is == to itself under the library's __eq__ (Eq.v), which holds because parsing a
   well-formed spec (mapping keys pairwise distinct, as in every Python dict) yields well-formed objects whose data-path
   arguments can be built.  Without well-formedness it is false on the model (C16ReparseProof.C16_reparse_cond_counterexample:
   a "dict" with the keys 1 and True), which no Python program can construct. *)
Theorem C16_reparse_condition : forall spec tm c tm' c', wf_val spec = true ->
  cond1_from_spec T X spec = Ok (tm, c) -> cond1_from_spec T X spec = Ok (tm', c') ->
  cond1_eqb T c' c = true.
Proof. exact C16_reparse_cond. Qed.

Theorem C16_reparse_part_spec : forall spec d t p b d' t' p' b', wf_val spec = true ->
  dict_of_val spec = Ok d -> part_spec_parse T X d = Ok t -> mk_part T idlit t = Ok (p, b) ->
  dict_of_val spec = Ok d' -> part_spec_parse T X d' = Ok t' -> mk_part T idlit t' = Ok (p', b') ->
  part_eqb p' p = true.
Proof. exact C16_reparse_part_entry. Qed.

Theorem C16_reparse_path_spec : forall spec t p t' p', wf_val spec = true ->
  path_from_spec T X spec = Ok (inl t) -> mk_path T idlit t = Ok p ->
  path_from_spec T X spec = Ok (inl t') -> mk_path T idlit t' = Ok p' ->
  path_eqb p' p = true.
Proof. exact C16_reparse_path. Qed.

Theorem C16_reparse_part_spec_list : forall l t p t' p', wf_val (VList l) = true ->
  from_part_specs T X l = Ok t -> mk_path T idlit t = Ok p ->
  from_part_specs T X l = Ok t' -> mk_path T idlit t' = Ok p' ->
  path_eqb p' p = true.
Proof. exact C16_reparse_part_specs. Qed.

Theorem C16_reparse_rule_spec : forall spec rt ex r rt' ex' r', wf_val spec = true ->
  rule_from_spec T X spec = Ok (rt, ex) -> mk_rule T rt = Ok r ->
  rule_from_spec T X spec = Ok (rt', ex') -> mk_rule T rt' = Ok r' ->
  rule_eqb T r' r (rx_cast_given ex') (rx_cast_given ex) = true.
Proof. exact C16_reparse_rule. Qed.

(* schema lists: Schema.from_json_like(l) / Schema(Schema.init_rules(l)) parsed twice are == (Schema.__eq__: the sorted
   rule lists element-wise), for every list of rule specs *)
Theorem C16_reparse_schema_spec_list : forall l s s', wf_val (VList l) = true ->
  schema_of_specs l = Ok s -> schema_of_specs l = Ok s' -> schema_objs_eqb s' s = true.
Proof. exact C16_reparse_schema_list. Qed.

(* ... and the schema holds exactly the parsed rules, in order of path length, rules of one length in spec order;
   sorting again (validate, add_schema) changes nothing *)
Theorem C16_schema_rules_order : forall l s, schema_of_specs l = Ok s ->
  exists rs, mapM robj_from_spec l = Ok rs /\ Permutation s rs /\ StronglySorted ple s /\
             forall n, filter (fun y => Nat.eqb (plen y) n) s = filter (fun y => Nat.eqb (plen y) n) rs.
Proof. exact C16_schema_list_order. Qed.
Theorem C16_schema_sort_idempotent : forall l, sort_rules (sort_rules l) = sort_rules l.
Proof. exact sort_rules_idempotent. Qed.

(* parsing preserves well-formedness (what the above rests on) *)
Theorem C16_parsed_condition_well_formed : forall spec tm c, wf_val spec = true ->
  cond1_from_spec T X spec = Ok (tm, c) -> cond1_ok wf_val T c /\ path_args_buildable T c.
Proof. exact cond_from_spec_ok. Qed.

Print Assumptions C16_reparse_condition. Print Assumptions C16_reparse_part_spec. Print Assumptions C16_reparse_path_spec.
Print Assumptions C16_reparse_part_spec_list. Print Assumptions C16_reparse_rule_spec. Print Assumptions C16_parsed_condition_well_formed.
Print Assumptions C16_reparse_schema_spec_list. Print Assumptions C16_schema_rules_order. Print Assumptions C16_schema_sort_idempotent.

(* ---- re-parsing a condition spec with NESTED data-path specs (the parser instance NestedIO.condn_from_spec that keeps them):
   two parses are == .  [no_obj spec]: the spec holds no foreign object (true of every JSON / YAML-like spec: C16N json_pure_no_obj);
   it rules out a forged copy of the marker the MODEL uses for a nested path (counterexample C16N_forged_marker_counterexample: an
   artefact of the model, not an input a caller can write). *)
From Valida Require Import NestedArgs NestedIO.
From Valida.Proofs Require Import C14NestedProof.

Theorem C16_reparse_condition_nested : forall spec tm c tm' c', wf_val spec = true -> no_obj spec = true ->
  condn_from_spec spec = Ok (tm, c) -> condn_from_spec spec = Ok (tm', c') ->
  condn_eqb c' c = true.
Proof. exact C16N_reparse_cond. Qed.
Print Assumptions C16_reparse_condition_nested.
