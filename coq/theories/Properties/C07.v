(* C07 -- validation never raises because of what the document contains. *)
From Coq Require Import ZArith NArith List Bool String Sorting.Permutation Sorting.Sorted.
From Valida Require Import Py Lang Defs Cond Dsl Check DocSem PathSpec Path Cast RuleDefs RuleSpec RuleTerms Rule Inst Run RunRule.
From Valida.Proofs Require Import C04Proof RuleProof SchemaSpecProof.
Import ListNotations.
Local Open Scope string_scope.

(* For every schema of rules in the rule domain (API-built plain paths, buildable value-kind
   condition trees over the full callable set, with or without casts) and EVERY well-formed
   non-empty document, the model of Schema.validate returns a result: no exception.  The model
   runs the callable bodies and the except clauses translated from the current source. *)
Theorem C07_total : forall rs doc,
  forallb srule_ok rs = true -> wf_val doc = true -> nonempty_container doc = true ->
  (exists prs, spaths_of rs = Ok prs /\ forallb (fun pr => rule_in_domain (fst pr) (snd pr)) prs = true) ->
  exists v, run_validate (map srule_term rs) doc = Ok v.
Proof. exact validate_total_partial. Qed.
Print Assumptions C07_total.

(* a single rule likewise *)
Theorem C07_rule_total : forall r doc sp,
  srule_ok r = true -> wf_val doc = true -> nonempty_container doc = true ->
  spath_of (sr_path r) = Ok sp -> rule_in_domain sp r = true -> buildable (sr_cond r) = true ->
  exists v, run_rule_test (srule_term r) doc = Ok v.
Proof.
  intros r doc sp Hok Hwf Hne Hsp Hdom Hb.
  assert (Hx : exists y, spec_rule_test r doc = Some (Ok y)).
  { unfold spec_rule_test. rewrite Hne. cbn [negb]. rewrite Hsp.
    unfold rule_in_domain in Hdom.
    destruct (sp_dt sp); try discriminate Hdom. destruct (sp_mt sp); try discriminate Hdom.
    destruct (sp_src sp); try discriminate Hdom.
    rewrite Hb, Hdom. cbn [negb]. eexists; reflexivity. }
  destruct Hx as [y Hy]. exists y. exact (rule_model_meets_spec_partial r doc (Ok y) Hok Hwf Hne Hy).
Qed.
Print Assumptions C07_rule_total.
