(* C15 -- casts replace exactly the castable selected nodes in a private copy. *)
From Coq Require Import ZArith NArith List Bool String Sorting.Permutation Sorting.Sorted.
From Valida Require Import Py Lang Defs Cond Dsl Check DocSem PathSpec Path Cast RuleDefs RuleSpec RuleTerms Rule Inst Run RunRule.
From Valida.Proofs Require Import C04Proof RuleProof SchemaSpecProof.
Import ListNotations.
Local Open Scope string_scope.

(* model = specification, casts included (single rule and schema) *)
Theorem C15_rule_model_is_spec : forall (r : srule) (doc : pyval) x,
  srule_ok r = true -> wf_val doc = true -> nonempty_container doc = true ->
  spec_rule_test r doc = Some x -> run_rule_test (srule_term r) doc = x.
Proof. exact rule_model_meets_spec_partial. Qed.
Print Assumptions C15_rule_model_is_spec.

Theorem C15_schema_model_is_spec : forall (rs : list srule) (doc : pyval) x,
  forallb srule_ok rs = true -> wf_val doc = true ->
  spec_validate rs doc = Some x -> run_validate (map srule_term rs) doc = x.
Proof. exact schema_model_meets_spec_partial. Qed.
Print Assumptions C15_schema_model_is_spec.

(* in the document the rule is judged on (the private copy with its casts): a selected node whose
   type has a declared cast that succeeds holds the cast value ... *)
Theorem C15_cast_applied : forall casts ps doc cp v v', wf_val doc = true ->
  In (cp, v) (walk ps [] doc) -> cp <> [] -> spec_first_cast casts v = Some v' ->
  get_at (cast_doc casts (walk ps [] doc) doc) cp = Some v'.
Proof. exact C15_cast_nodes. Qed.
Print Assumptions C15_cast_applied.

(* ... a selected node with no applicable / successful cast is left as it is ... *)
Theorem C15_uncastable_left : forall casts ps doc cp v, wf_val doc = true ->
  In (cp, v) (walk ps [] doc) -> spec_first_cast casts v = None ->
  get_at (cast_doc casts (walk ps [] doc) doc) cp = Some v.
Proof. exact C15_uncastable_kept. Qed.
Print Assumptions C15_uncastable_left.

(* ... and every position that is neither a cast node nor above one reads type-exactly as in the input *)
Theorem C15_everywhere_else : forall casts ps doc, wf_val doc = true -> forall cq,
  (forall cp v, In (cp, v) (walk ps [] doc) -> cp <> [] -> spec_first_cast casts v <> None -> diverge doc cp cq) ->
  get_at (cast_doc casts (walk ps [] doc) doc) cq = get_at doc cq.
Proof. exact C15_elsewhere. Qed.
Print Assumptions C15_everywhere_else.

(* the schema's cast data is the fold of the rules' casts, in application order, selections taken
   on the original document *)
Theorem C15_schema_cast_data : forall prs doc copy,
  snd (spec_run_rules prs doc copy) =
  fold_left (fun acc pr => cast_doc (sr_cast (snd pr)) (walk (sp_parts (fst pr)) [] doc) acc) prs copy.
Proof. exact C15_schema_fold. Qed.
Print Assumptions C15_schema_cast_data.
