(* C05 -- a rule is valid iff every node its path selects satisfies its condition. *)
From Coq Require Import ZArith NArith List Bool String Sorting.Permutation Sorting.Sorted.
From Valida Require Import Py Lang Defs Cond Dsl Check DocSem PathSpec Path Cast RuleDefs RuleSpec RuleTerms Rule Inst Run RunRule.
From Valida.Proofs Require Import C04Proof RuleProof SchemaSpecProof.
Import ListNotations.
Local Open Scope string_scope.

(* For every rule whose path is built through the API from typed parts and whose condition is a
   value-kind and/or/xor tree of DSL leaves (casts allowed), and every well-formed non-empty
   document: the model of Rule(...).test(doc) equals the specification -- valid exactly when every
   node selected by the part-by-part walk satisfies the condition tree, not tested (and valid) when
   nothing is selected, the failure list = the selected nodes that do not satisfy it, in
   selection order, each with its index, value, concrete path and a non-empty reason list. *)
Theorem C05_verdict : forall (r : srule) (doc : pyval) x,
  srule_ok r = true -> wf_val doc = true -> nonempty_container doc = true ->
  spec_rule_test r doc = Some x -> run_rule_test (srule_term r) doc = x.
Proof. exact rule_model_meets_spec_partial. Qed.
Print Assumptions C05_verdict.

(* what the specification's verdict is: count = length of the failure list, valid iff it is empty,
   tested iff something was selected *)
Theorem C05_failures_exact : forall sel t v tested n fs,
  spec_verdict sel t = VTuple [VBool v; VBool tested; VInt n; VList fs] ->
  n = Z.of_nat (List.length fs) /\ (v = true <-> fs = []) /\
  tested = negb (match sel with [] => true | _ => false end).
Proof. intros sel t v tested n fs H. destruct (spec_verdict_sane sel t v tested n fs H) as [A [B [C _]]]. auto. Qed.
Print Assumptions C05_failures_exact.

(* at least one textual reason for every failing item, whatever the condition tree (model level:
   this is about the truth tables the implementation assembles) *)
Theorem C05_reason : forall (A : Type) (resolve : A -> res pyval) (c : cond A) (d : data) (f : fres),
  filter_tree T resolve c d = Ok f ->
  forall i, nth_error (fr_result f) i = Some false -> (1 <= num_reasons f i)%nat.
Proof. intros A resolve c d f. exact (reasons_nonempty T A resolve c d f). Qed.
Print Assumptions C05_reason.

(* the reported paths are truthful (C04) *)
Theorem C05_paths_true : forall ps doc cp v,
  wf_val doc = true -> In (cp, v) (walk ps [] doc) -> index_along doc cp = Some v.
Proof. exact C04_truthful. Qed.
Print Assumptions C05_paths_true.

(* ---- the textual report of one rule test (RuleTest.get_failures_string; assembly modelled in Report.v, repr() and the reason
   lines are inputs): a test without failures says so; otherwise one text per failure, in the order of the failure list, each
   naming its path and giving every reason *)
From Valida Require Import Report.
From Valida.Proofs Require Import ReportProof.

Theorem C05_rule_report : forall r,
  (rx_fails r = [] -> rule_report r = "Rule test is valid." ++ nl) /\
  (rx_fails r <> [] -> rule_report r = cat (map failure_text (rx_fails r))) /\
  (forall f, In f (rx_fails r) -> infix_of ("Path: " ++ ft_path f ++ nl) (rule_report r) /\
                                 forall x, In x (ft_reasons f) -> infix_of (" " ++ x ++ nl) (rule_report r)).
Proof.
  intros r. split; [ exact (rule_report_valid r) | ]. split; [ exact (rule_report_failures r) | ].
  intros f Hf. split.
  - apply (infix_trans _ (failure_text f)); [ apply path_line_in_failure_text | apply failure_in_rule_report; exact Hf ].
  - intros x Hx. apply (infix_trans _ (failure_text f)); [ apply reason_in_failure_text; exact Hx | apply failure_in_rule_report; exact Hf ].
Qed.
Print Assumptions C05_rule_report.
