(* C20 -- documentation tree is structurally faithful; its HTML well-formed and escaped.
   PARTIAL: the HTML writer is modelled (byte-for-byte correspondence with write_tree_html) and proved;
   the assembly of the tree (Schema.to_tree), which is keyed by str() of path parts, is checked by the
   model-free structural oracle of the harness only. *)
From Coq Require Import ZArith NArith List Bool String.
From Valida Require Import Html.
From Valida.Proofs Require Import C20Proof.
Import ListNotations.
Local Open Scope string_scope.

(* every tag is closed, in order: for every nested tree, anchor, heading level and flag *)
Theorem C20_html_balanced : forall anchor start show nodes,
  balanced (tree_toks anchor start show nodes) = true.
Proof. exact C20_balanced. Qed.
Print Assumptions C20_html_balanced.

(* html.escape leaves no angle bracket or double quote in its output *)
Theorem C20_escape_clean : forall s, no_raw_meta (html_escape s) = true.
Proof. exact html_escape_clean. Qed.
Print Assumptions C20_escape_clean.

(* whatever strings the tree carries (keys, type descriptions, condition text, doc paragraphs,
   examples, path text), every text token of the output is free of angle brackets and double quotes
   and every attribute text free of angle brackets: schema-supplied text reaches the output only through html_escape.  The anchor root
   is caller-supplied id text, inserted as it is (hypothesis). *)
Theorem C20_html_escaped : forall anchor start show nodes,
  (match anchor with Some a => no_raw_meta a = true | None => True end) ->
  Forall tok_clean (tree_toks anchor start show nodes).
Proof. exact C20_escaped. Qed.
Print Assumptions C20_html_escaped.

(* the back-tick substitution only ever emits matched <code>...</code> around clean text *)
Theorem C20_code_clean : forall s, no_raw_meta s = true ->
  Forall (fun t => match t with TText x => no_raw_meta x = true | _ => True end) (code_toks s).
Proof. exact code_toks_clean. Qed.
Print Assumptions C20_code_clean.
