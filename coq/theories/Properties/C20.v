(* C20 -- documentation tree is structurally faithful; its HTML well-formed and escaped.
   The HTML writer is modelled (byte-for-byte correspondence with write_tree_html) and proved.
   The assembly of the tree (Schema.to_tree) is modelled in Tree.v over per-rule facts computed by the library's
   own helpers (strings of the path parts, always-applicable key / type conditions and their text) and compared with
   to_tree on every generated schema (flat, nested, sub-tree root); the theorems at the end are about that model. *)
From Coq Require Import ZArith NArith List Bool String Permutation.
From Valida Require Import Py Defs Cond Html Tree TreeCond.
From Valida.Proofs Require Import C20Proof TreeProof TreeCondProof.
Import ListNotations.
Local Open Scope string_scope.

(* every tag is closed, in order: for every nested tree, anchor, heading level and flag *)
Theorem C20_html_balanced : forall anchor start show nodes,
  balanced (tree_toks anchor start show nodes) = true.
Proof. exact C20_balanced. Qed.
Print Assumptions C20_html_balanced.

(* html.escape leaves no angle bracket or double quote in its output *)
Theorem C20_escape_clean : forall s, no_raw_meta (html_escape s) = true.
Proof. exact html_escape_clean. Qed.
Print Assumptions C20_escape_clean.

(* whatever strings the tree carries (keys, type descriptions, condition text, doc paragraphs,
   examples, path text), every text token of the output is free of angle brackets and double quotes
   and every attribute text free of angle brackets: schema-supplied text reaches the output only through html_escape.  The anchor root
   is caller-supplied id text, inserted as it is (hypothesis). *)
Theorem C20_html_escaped : forall anchor start show nodes,
  (match anchor with Some a => no_raw_meta a = true | None => True end) ->
  Forall tok_clean (tree_toks anchor start show nodes).
Proof. exact C20_escaped. Qed.
Print Assumptions C20_html_escaped.

(* the back-tick substitution only ever emits matched <code>...</code> around clean text *)
Theorem C20_code_clean : forall s, no_raw_meta s = true ->
  Forall (fun t => match t with TText x => no_raw_meta x = true | _ => True end) (code_toks s).
Proof. exact code_toks_clean. Qed.
Print Assumptions C20_code_clean.

(* ---- the assembly of the tree (Tree.v) ---- *)

(* each rule appears exactly once, with its condition and doc (rules with distinct paths) *)
Theorem C20_tree_each_rule_once : forall rs l,
  NoDup (map rf_path_str rs) ->
  flat_tree [] [] rs = Ok l ->
  forall rf, In rf rs ->
  exists i d,
    nth_error l i = Some d
    /\ dget "path_str" d = Some (VTuple (map VStr (rf_path_str rf)))
    /\ dget "condition" d = Some (rf_cond rf)
    /\ dget "doc" d = Some (rf_doc rf)
    /\ forall j d', nth_error l j = Some d' -> dget "path_str" d' = Some (VTuple (map VStr (rf_path_str rf))) -> j = i.
Proof. exact T2_each_rule_once. Qed.

(* every node's parent precedes it and is its path prefix; a node without parent is at the top *)
Theorem C20_tree_parents : forall rs l,
  flat_tree [] [] rs = Ok l ->
  forall i d, nth_error l i = Some d ->
  exists k p,
    dget "path_str" d = Some (VTuple (map VStr k))
    /\ dget "parent" d = Some (VInt p)
    /\ ((p = (-1)%Z /\ removelast k = [])
        \/ ((0 <= p < Z.of_nat i)%Z /\ removelast k <> k
            /\ exists dp, nth_error l (Z.to_nat p) = Some dp
                 /\ dget "path_str" dp = Some (VTuple (map VStr (removelast k))))).
Proof. exact T3_flat_tree_parents. Qed.

(* the flat and the nested form contain the same nodes (at any depth) *)
Theorem C20_tree_flat_nested_same_nodes : forall rs vf vn,
  run_tree [] [] false rs = Ok vf -> run_tree [] [] true rs = Ok vn ->
  Permutation (all_paths vn) (all_paths vf).
Proof. exact T4_run_tree_same_nodes. Qed.

(* a key is flagged required exactly when an always-applicable required_keys condition of the rule at its parent path
   names it, whatever else (allowed_keys, other rules, the order of the conditions) names it too *)
Theorem C20_tree_required : forall rs l,
  flat_tree [] [] rs = Ok l ->
  forall d k s, In d l -> dget "path_str" d = Some (VTuple (map VStr (k ++ [s]))) ->
    (dget "required" d = Some (VBool true) <->
       exists rf key, In rf rs /\ rf_path_str rf = k /\ In (key, Some s, true) (rf_keys rf))
    /\ (dget "required" d = None <->
       forall rf key b, In rf rs -> rf_path_str rf = k -> ~ In (key, Some s, b) (rf_keys rf)).
Proof. exact T5_flat_tree_required. Qed.

(* produced without error when the paths are prefix-closed *)
Theorem C20_tree_total : forall rs m,
  steps [] [] rs = Ok m -> prefix_closed (map fst m) -> exists l, flat_tree [] [] rs = Ok l.
Proof. exact flat_tree_total. Qed.

(* a sub-tree root: the same statement on the sub-tree *)
Theorem C20_tree_subtree : forall from_str from_simple rs l,
  NoDup (map (eff_ps from_str) (filter (pref from_str) rs)) ->
  flat_tree from_str from_simple rs = Ok l ->
  forall rf, In rf rs -> pref from_str rf = true ->
  exists i d,
    nth_error l i = Some d
    /\ dget "path_str" d = Some (VTuple (map VStr (sub_path from_str from_simple rf)))
    /\ dget "condition" d = Some (rf_cond rf)
    /\ dget "doc" d = Some (rf_doc rf)
    /\ forall j d', nth_error l j = Some d' ->
         dget "path_str" d' = Some (VTuple (map VStr (sub_path from_str from_simple rf))) -> j = i.
Proof. exact T2_each_rule_once_subtree. Qed.

Print Assumptions C20_tree_each_rule_once. Print Assumptions C20_tree_parents. Print Assumptions C20_tree_flat_nested_same_nodes.
Print Assumptions C20_tree_required. Print Assumptions C20_tree_total. Print Assumptions C20_tree_subtree.

(* ---- from the CONDITION of a rule to the facts the assembly uses (TreeCond.v: flatten and the always-applicable helpers) ---- *)

(* a condition's key conditions always apply exactly when every operator of the tree is `and` *)
Theorem C20_always_applicable_iff_all_and : forall (c : cond pyval),
  always_applicable c = all_and c /\ fst (flatten c) = leaves c.
Proof. intro c. split; [exact (always_applicable_all_and pyval c) | exact (flatten_leaves pyval c)]. Qed.

(* which (key, required?) facts a condition contributes *)
Theorem C20_key_facts : forall (c : cond pyval) k b,
  In (k, b) (key_facts c) <->
  all_and c = true /\ exists l, In l (leaves c) /\ In k (l_args l) /\
    ((l_call l = "required_keys" /\ b = true) \/ (l_call l = "allowed_keys" /\ b = false)).
Proof. exact (key_facts_spec pyval). Qed.

(* the order and association of the operands of a condition do not matter *)
Theorem C20_key_facts_order_independent : forall (c c' : cond pyval),
  reorder pyval c c' -> always_applicable c = always_applicable c' /\ Permutation (key_facts c) (key_facts c').
Proof. intros c c' H. split; [exact (reorder_always_applicable pyval c c' H) | exact (reorder_key_facts pyval c c' H)]. Qed.

(* END TO END: a key is flagged required exactly when a rule at its parent path has an all-and condition one of whose
   required_keys leaves names it; not flagged at all exactly when no always-applicable key condition names it; flagged
   "not required" exactly when only always-applicable allowed_keys conditions name it.  [kstr] is str() of the key as a
   path part (a fact supplied per case). *)
Theorem C20_tree_required_from_conditions : forall (kstr : pyval -> option string) (rcs : list (rfacts * cond pyval)) l,
  Forall (linked_fn kstr) rcs ->
  flat_tree [] [] (map fst rcs) = Ok l ->
  forall d k s, In d l -> dget "path_str" d = Some (VTuple (map VStr (k ++ [s]))) ->
    (dget "required" d = Some (VBool true) <->
       exists rf c key l0, In (rf, c) rcs /\ rf_path_str rf = k /\ all_and c = true /\ In l0 (leaves c) /\
          l_call l0 = "required_keys" /\ In key (l_args l0) /\ kstr key = Some s)
    /\ (dget "required" d = None <->
       forall rf c key l0, In (rf, c) rcs -> rf_path_str rf = k -> all_and c = true -> In l0 (leaves c) ->
          (l_call l0 = "required_keys" \/ l_call l0 = "allowed_keys") -> In key (l_args l0) -> kstr key <> Some s)
    /\ (dget "required" d = Some (VBool false) <->
       (exists rf c key l0, In (rf, c) rcs /\ rf_path_str rf = k /\ all_and c = true /\ In l0 (leaves c) /\
          l_call l0 = "allowed_keys" /\ In key (l_args l0) /\ kstr key = Some s)
       /\ ~ (exists rf c key l0, In (rf, c) rcs /\ rf_path_str rf = k /\ all_and c = true /\ In l0 (leaves c) /\
          l_call l0 = "required_keys" /\ In key (l_args l0) /\ kstr key = Some s)).
Proof. exact C20_required_from_conditions_fn. Qed.

Print Assumptions C20_always_applicable_iff_all_and. Print Assumptions C20_key_facts.
Print Assumptions C20_key_facts_order_independent. Print Assumptions C20_tree_required_from_conditions.
