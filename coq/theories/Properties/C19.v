(* C19 -- malformed specs are rejected with spec errors, never internal ones. *)
From Coq Require Import ZArith NArith List Bool String.
From Valida Require Import Py Lang Defs Cond Dsl Check DocSem PathSpec Path Cast Str SpecDefs RuleDefs RuleSpec RuleTerms Rule Spec SpecIO Eq SpecSpell Inst Run RunRule RunSpec.
Import ListNotations.
Local Open Scope string_scope.
From Valida.Proofs Require Import C19Proof.

(* For EVERY value given as a spec -- no well-formedness assumed -- the model of each parser (which
   fails the way the Python operations fail, runs on the tables translated from the current source and
   is compared with the implementation on mutated specs by the correspondence run) either accepts or
   fails with a Malformed* error, TypeError or ValueError (rules: also a KeyError for a missing 'path'
   / 'condition'); never AttributeError, IndexError, StopIteration, RuntimeError ...
   RecursionError appears in the model only when the spec is nested deeper than the model's fuel. *)
Theorem C19_condition : forall spec e, vdepth spec < spec_fuel ->
  cond1_from_spec T X spec = Err e -> spec_error e.
Proof. exact C19_cond_no_recursion. Qed.
Print Assumptions C19_condition.

Theorem C19_path : forall spec e, vdepth spec <= spec_fuel ->
  path_from_spec T X spec = Err e -> spec_error e.
Proof. exact C19_path_no_recursion. Qed.
Print Assumptions C19_path.

Theorem C19_part : forall spec e, S (vdepth spec) < spec_fuel ->
  (let* d := dict_of_val spec in part_spec_parse T X d) = Err e -> spec_error e.
Proof. exact C19_part_entry_no_recursion. Qed.
Print Assumptions C19_part.

Theorem C19_part_specs : forall l e, vdepth (VList l) <= spec_fuel ->
  from_part_specs T X l = Err e -> spec_error e.
Proof. exact C19_part_specs_no_recursion. Qed.
Print Assumptions C19_part_specs.

Theorem C19_rule : forall spec e, vdepth spec <= spec_fuel ->
  rule_from_spec T X spec = Err e -> rule_error e.
Proof. exact C19_rule_no_recursion. Qed.
Print Assumptions C19_rule.

Theorem C19_rule_keyerror_names_field : forall spec,
  rule_from_spec T X spec = Err KeyError ->
  exists d, spec = VDict d /\ (dict_look (VStr "path") d = None \/ dict_look (VStr "condition") d = None).
Proof. exact C19_rule_keyerror. Qed.
Print Assumptions C19_rule_keyerror_names_field.

(* without a depth bound: the only other outcome is the model's fuel running out *)
Theorem C19_condition_any_depth : forall spec e,
  cond1_from_spec T X spec = Err e -> spec_error e \/ e = RecursionError.
Proof. exact C19_cond_no_internal. Qed.
Print Assumptions C19_condition_any_depth.
