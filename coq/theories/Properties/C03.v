(* C03 -- path resolution selects exactly the nodes a part-by-part walk reaches. *)
From Coq Require Import ZArith NArith List Bool String.
From Valida Require Import Py Lang Defs Cond Dsl Check DocSem PathSpec Path Inst Run.
From Valida.Proofs Require Import C03Proof C04Proof.
Import ListNotations.
Local Open Scope string_scope.

(* For every path the Python API can build from typed parts (primitive str / float / int / bool parts;
   map-value, list-value and map-or-list-value parts whose key / index / value / condition arguments
   are raw values or arbitrary and/or/xor trees of DSL leaves; labels; datum and multiplicity
   modifiers in any order; bound source data), EVERY document and both values of return_paths:
   the model of DataPath(...).get_data(...) -- the code's level-by-level frontier loop with
   concrete paths kept in lock-step and TypeError meaning "this part does not apply here" --
   equals the specification: the nodes reached by the part-by-part recursive walk, in document
   order, each with its concrete path; a concrete path yields the single node or None, a
   non-concrete one a list; a part that does not apply (wrong container kind, scalar, empty
   container) matches nothing and never raises; construction errors are the specified ones. *)
Theorem C03_walk : forall (st : spathterm) (data : option pyval) (rp : bool),
  spathterm_ok st = true ->
  run_get (spathterm_term st) data rp = spec_path_get st data rp.
Proof. exact C03_model_meets_spec. Qed.
Print Assumptions C03_walk.

(* the frontier loop computes the walk: nodes and concrete paths stay aligned *)
Theorem C03_frontier_is_walk : forall sps ps doc,
  Forall2 filter_rel sps ps -> ps <> [] ->
  walk_parts T res0 ps true [doc] [] = Ok (map snd (walk sps [] doc), map fst (walk sps [] doc)).
Proof. exact walk_parts_first. Qed.
Print Assumptions C03_frontier_is_walk.

(* each selected node is reported once: concrete paths are pairwise distinct (well-formed documents) *)
Theorem C03_each_once : forall ps doc, wf_val doc = true -> NoDup (map fst (walk ps [] doc)).
Proof. exact C04_distinct. Qed.
Print Assumptions C03_each_once.

Example C03_inhabited :
  let st := {| st_parts := [SPrim (VStr "a"); STList None (Some (SCond (QLeaf SValue (Q_greater_than (VInt 1))))) None None];
               st_mods := []; st_src := None |} in
  spathterm_ok st = true /\
  spec_path_get st (Some (VDict [(VStr "a", VList [VInt 1; VInt 5; VStr "x"; VInt 7])])) true
  = Ok (VList [VTuple [VInt 5; VTuple [VStr "a"; VInt 1]]; VTuple [VInt 7; VTuple [VStr "a"; VInt 3]]]).
Proof. vm_compute. split; reflexivity. Qed.
