(* C10 -- path, part, rule and YAML specs build the same objects as the Python API. *)
From Coq Require Import ZArith NArith List Bool String Ascii.
From Valida Require Import Py Lang Defs Cond Dsl Check DocSem Path Cast Str SpecDefs RuleDefs RuleTerms Rule Spec SpecIO SpecSpell Eq FromStr Inst RunSpec.
Import ListNotations.
Local Open Scope string_scope.
Local Open Scope list_scope.
From Valida.Proofs Require Import Tie C02Proof RuleProof C09Proof C10Proof C11Proof C13Proof C10RuleProof.

(* Statements are about the models of ContainerValue.from_spec (part_spec_parse), DataPath.from_part_specs /
   from_spec / from_str running on the tables translated from the current source.  The condition
   specs inside parts are covered by C09; YAML text and rule doc / cast shapes are decided by the
   correspondence and the direct oracle (the YAML route through ruamel.yaml is outside the model). *)

(* datum-type / multiplicity suffixes of a path spec, in either order, any letter case, every name and
   alias of the generated tables, for every value (errors included) *)
Theorem C10_suffixes_commute : forall k1 k2 a b dt mt v,
  key_clean k1 = true -> key_clean k2 = true ->
  lower_tokens k1 = ["path"; a; b] -> lower_tokens k2 = ["path"; b; a] ->
  dt_spelling a = Some dt -> mt_spelling b = Some mt ->
  path_sem (path_from_spec T X (VDict [(VStr k1, v)])) = suffix_result dt mt v /\
  path_sem (path_from_spec T X (VDict [(VStr k2, v)])) = suffix_result dt mt v.
Proof. exact C10_suffix_order. Qed.
Theorem C10_suffix_alone : forall k v,
  key_clean k = true ->
  (lower_tokens k = ["path"] -> path_sem (path_from_spec T X (VDict [(VStr k, v)])) = suffix_result DtNone MtNone v) /\
  (forall a dt, lower_tokens k = ["path"; a] -> dt_spelling a = Some dt ->
     path_sem (path_from_spec T X (VDict [(VStr k, v)])) = suffix_result dt MtNone v) /\
  (forall b mt, lower_tokens k = ["path"; b] -> mt_spelling b = Some mt ->
     path_sem (path_from_spec T X (VDict [(VStr k, v)])) = suffix_result DtNone mt v).
Proof. exact C10_suffix_single. Qed.
Print Assumptions C10_suffixes_commute. Print Assumptions C10_suffix_alone.

(* a dotted shorthand entry means the long form with the corresponding condition mapping: every prefix,
   every key with that prefix, every value, every label, in all four class settings, errors included *)
Theorem C10_shorthand_is_long_form : forall pre d kind k v o,
  In (pre, (d, kind)) short_kinds -> String.prefix pre k = true ->
  (d <> "index" ->
   part_spec_parse T X ((VStr "type", VStr "map_value") :: short1 k v ++ lab_of o) =
   part_spec_parse T X ((VStr "type", VStr "map_value") :: long1 d k v ++ lab_of o)) /\
  (d <> "key" ->
   part_spec_parse T X ((VStr "type", VStr "list_value") :: short1 k v ++ lab_of o) =
   part_spec_parse T X ((VStr "type", VStr "list_value") :: long1 d k v ++ lab_of o)) /\
  part_spec_parse T X ((VStr "type", VStr "map_or_list_value") :: short1 k v ++ lab_of o) =
  part_spec_parse T X ((VStr "type", VStr "map_or_list_value") :: long1 d k v ++ lab_of o) /\
  part_spec_parse T X (short1 k v ++ lab_of o) = part_spec_parse T X (long1 d k v ++ lab_of o).
Proof. exact C10_shorthand_long. Qed.
Print Assumptions C10_shorthand_is_long_form.

(* long forms: condition / value / key (index) components, every subset, combine as ((C and V) and K) *)
Theorem C10_part_long_forms : forall oc ov ok o,
  given oc = true -> given ov = true -> given ok = true ->
  part_spec_parse T X ((VStr "type", VStr "map_value")
     :: opt_entry "condition" oc ++ opt_entry "value" ov ++ opt_entry "key" ok ++ lab_of o) =
  (let* c := long_cond cond0 oc in let* c1 := long_kind cond0 DValue c ov in let* c2 := long_kind cond0 DKey c1 ok in
   finish (PtMap None None (Some (KCond (fst c2))) o)) /\
  part_spec_parse T X ((VStr "type", VStr "list_value")
     :: opt_entry "condition" oc ++ opt_entry "value" ov ++ opt_entry "index" ok ++ lab_of o) =
  (let* c := long_cond cond0 oc in let* c1 := long_kind cond0 DValue c ov in let* c2 := long_kind cond0 DIndex c1 ok in
   finish (PtList None None (Some (KCond (fst c2))) o)).
Proof. exact C10_part_long_partial. Qed.
Print Assumptions C10_part_long_forms.

(* part-spec lists parse element-wise; the first failing element decides the error *)
Theorem C10_part_spec_lists : forall l,
  (forall ps, Forall2 (fun v p => part_of_spec v = Ok p) l ps ->
     from_part_specs T X l =
     let t := {| pt_parts := ps; pt_mods := []; pt_src := None |} in let* _ := mk_path T idlit t in Ok t) /\
  (forall l1 v l2 ps e, l = l1 ++ v :: l2 -> Forall2 (fun v p => part_of_spec v = Ok p) l1 ps ->
     part_of_spec v = Err e -> from_part_specs T X l = Err e).
Proof. exact C10_part_specs_elementwise. Qed.
Print Assumptions C10_part_spec_lists.

(* delimiter-separated path strings: split, then int / float / plain token *)
Theorem C10_path_strings : forall fo s d,
  path_from_str fo s d =
  {| pt_parts := map (str_part fo) (match s with EmptyString => [] | _ => str_split d s end);
     pt_mods := []; pt_src := None |}.
Proof. exact C10_from_str. Qed.
Theorem C10_path_string_tokens : forall fo tok,
  (int_of_str tok = None -> fo tok = None -> str_part fo tok = PtPrim (VStr tok)) /\
  (forall z, int_of_str tok = Some z ->
     str_part fo tok = PtMol (Some (KCond (DLeaf "Key" "in_" [VTuple [VStr tok; VInt z]] []))) (Some (KLit (VInt z))) None None None None None) /\
  (forall f, int_of_str tok = None -> fo tok = Some f ->
     str_part fo tok = PtMap (Some (KCond (DLeaf "Key" "in_" [VTuple [VStr tok; f]] []))) None None None).
Proof. exact C10_from_str_token. Qed.
Print Assumptions C10_path_strings. Print Assumptions C10_path_string_tokens.

(* ---- rule specs ---- *)

(* Rule.from_spec reads exactly the four fields path / condition / doc / cast, in this order of evaluation (so of errors);
   every other entry of the mapping is ignored *)
Theorem C10_rule_spec_fields : forall (d : list (pyval * pyval)) (pv c : pyval),
  dict_look (VStr "path") d = Some pv -> dict_look (VStr "condition") d = Some c ->
  rule_from_spec T X (VDict d) =
  (let* parts := py_iter pv in
   let* pt := from_part_specs T X parts in
   let* (ct, _) := cond1_from_spec T X c in
   let* doc := norm_doc (dict_look (VStr "doc") d) in
   let* (casts, given) := parse_casts X (dict_look (VStr "cast") d) in
   Ok ({| rt_path_t := pt; rt_cond_t := ct; rt_cast_t := casts |}, {| rx_doc := doc; rx_cast_given := given |})).
Proof. exact C10_rule_fields. Qed.

(* a rule spec over simple parts, a typed leaf of the C09 fragment in its spec spelling, any accepted doc and cast block:
   the parsed rule IS the rule the API builds from the same path, condition and casts *)
Theorem C10_rule_spec_builds_api_rule : forall (d : list (pyval * pyval)) (ts : list (pterm pyval)) (c : scls) (q : dsl)
    (casts : list (pytype * castfn)) (g : bool) (doc : pyval),
  forallb simple_pterm ts = true -> leaf_in_c09 c q = true -> q_items_ok q = true ->
  dict_look (VStr "path") d = Some (VList (map sp_spec ts)) ->
  dict_look (VStr "condition") d = Some (leaf_spec c q) ->
  norm_doc (dict_look (VStr "doc") d) = Ok doc ->
  parse_casts X (dict_look (VStr "cast") d) = Ok (casts, g) ->
  exists (tm : dslc arg1) (p : dpath pyval),
    rule_from_spec T X (VDict d) =
    Ok ({| rt_path_t := api_path (map sp_back ts); rt_cond_t := tm; rt_cast_t := casts |}, {| rx_doc := doc; rx_cast_given := g |}) /\
    mk_path T idlit (api_path ts) = Ok p /\
    mk_rule T {| rt_path_t := api_path (map sp_back ts); rt_cond_t := tm; rt_cast_t := casts |} =
    Ok {| r_path := p; r_cond := cmapL (CLeaf (Tie.expected_leaf c q)); r_cast := casts |} /\
    mk_rule T (c13_term (api_path ts) (QLeaf c q) casts) =
    Ok {| r_path := p; r_cond := cmapL (CLeaf (Tie.expected_leaf c q)); r_cast := casts |}.
Proof. exact C10_rule_builds_api_rule. Qed.

(* doc in every accepted shape: a one-line doc written as a string, a list, a mapping with a string or a list description,
   with or without examples, is one and the same normal form; normalising is idempotent *)
Theorem C10_doc_one_normal_form : forall s : string,
  let nf := VDict [(VStr "description", VList [VStr (str_strip s)]); (VStr "examples", VList [])] in
  (s <> "" -> norm_doc (Some (VStr s)) = Ok nf) /\
  norm_doc (Some (VList [VStr s])) = Ok nf /\
  norm_doc (Some (VDict [(VStr "description", VStr s)])) = Ok nf /\
  norm_doc (Some (VDict [(VStr "description", VList [VStr s])])) = Ok nf /\
  norm_doc (Some (VDict [(VStr "description", VList [VStr s]); (VStr "examples", VList [])])) = Ok nf /\
  norm_doc (Some (VDict [(VStr "examples", VList []); (VStr "description", VStr s)])) =
  Ok (VDict [(VStr "examples", VList []); (VStr "description", VList [VStr (str_strip s)])]).
Proof. exact C10_doc_shapes_same. Qed.
Theorem C10_doc_normalisation_idempotent : forall v v' : pyval, norm_doc (Some v) = Ok v' -> norm_doc (Some v') = Ok v'.
Proof. exact C10_doc_idempotent. Qed.

(* cast blocks: absent / None / a mapping of type names (exactly the entries of the generated cast table) / anything else *)
Theorem C10_cast_block_shapes :
  parse_casts X None = Ok ([], false) /\
  parse_casts X (Some VNone) = Ok ([], false) /\
  (forall d : list (pyval * pyval), names_only d = true ->
     parse_casts X (Some (VDict d)) = match casts_of_names d with Some l => Ok (l, true) | None => Err MalformedRule end) /\
  (forall casts : list (pytype * castfn), casts_in_c13 casts = true -> parse_casts X (Some (casts_json casts)) = Ok (casts, true)) /\
  (forall (d : list (pyval * pyval)) (casts : list (pytype * castfn)) (g : bool),
     parse_casts X (Some (VDict d)) = Ok (casts, g) -> g = true /\ casts_in_c13 casts = true /\ VDict d = casts_json casts) /\
  (forall v : pyval, v <> VNone -> (forall d : list (pyval * pyval), v <> VDict d) -> parse_casts X (Some v) = Err MalformedRule).
Proof. exact C10_cast_shapes. Qed.

Print Assumptions C10_rule_spec_fields. Print Assumptions C10_rule_spec_builds_api_rule. Print Assumptions C10_doc_one_normal_form.
Print Assumptions C10_doc_normalisation_idempotent. Print Assumptions C10_cast_block_shapes.

(* ---- rule specs whose condition has NESTED data-path arguments (NestedRuleIO.rule_n_from_spec; NestedSpell.ntree_spec): the parsed rule
   is the rule the API builds (== , and the same rule_test_n on every document and copy), whatever the order of the entries and
   whatever else the mapping holds; the first failing field wins in the order path, condition, doc, cast. *)
From Valida Require Import NestedArgs NestedIO NestedRuleIO NestedSpell RunNestedRule.
From Valida.Proofs Require Import C14Proof C12Proof C11PathProof C13PathProof C11NestedProof C13NestedProof C09NestedProof C10NestedProof.

Theorem C10_rule_spec_with_nested_path_arguments : forall d ts nas t casts g doc,
  forallb simple_pterm ts = true -> tree_in_c11n nas t ->
  dict_look (VStr "path") d = Some (VList (map sp_spec ts)) ->
  dict_look (VStr "condition") d = Some (ntree_spec nas t) ->
  norm_doc (dict_look (VStr "doc") d) = Ok doc ->
  parse_casts X (dict_look (VStr "cast") d) = Ok (casts, g) ->
  exists p r r',
    mk_path T idlit (api_path ts) = Ok p /\
    r = c13n_rule p nas t casts /\ r' = rule_n_back nas t r /\
    rule_n_from_spec (VDict d) = Ok (r', {| rx_doc := doc; rx_cast_given := g |}) /\
    mk_rule_n (c13n_term (api_path ts) nas t casts) = Ok r /\
    (casts_wf casts -> rule_n_eqb r' r g g = true) /\
    (forall data copy, rule_test_n r' data copy = rule_test_n r data copy).
Proof. exact C10N_rule_spec. Qed.
Print Assumptions C10_rule_spec_with_nested_path_arguments.
