(* C12 -- serialised data paths rebuild to an equivalent path, or serialisation refuses. *)
From Coq Require Import ZArith NArith List Bool String Ascii.
From Valida Require Import Py Lang Defs Cond Dsl Check DocSem Path PathSpec Cast Str SpecDefs RuleDefs RuleTerms
  Spec SpecIO SpecSpell Eq Inst RunSpec Rule.
From Valida.Proofs Require Import C11Proof C14Proof C12Proof.
Import ListNotations.
Local Open Scope string_scope.
Local Open Scope list_scope.

(* The safety half, for EVERY path built through the API from typed parts (primitive parts; MapValue / ListValue /
   MapOrListValue with key / index / value / condition arguments, raw values or and/or/xor trees, labels, any
   modifiers, source data) whose contained conditions survive the condition round trip (part_rt: C11 inside
   parts): to_part_specs either raises, or what it returns is read back as the very path that was serialised.
   It never emits the specs of a path that selects differently. *)
Theorem C12_refuses_or_is_faithful : forall st p,
  spathterm_ok st = true -> mk_path T idlit (spathterm_term st) = Ok p -> Forall part_rt (p_parts p) ->
  (exists e, path_to_part_specs T X p = Err e) \/
  (exists specs t', path_to_part_specs T X p = Ok (VList specs) /\
     from_part_specs T X specs = Ok t' /\ mk_path T idlit t' = Ok p).
Proof. exact C12_refuses_or_faithful. Qed.
Print Assumptions C12_refuses_or_is_faithful.

(* On the fragment path_in_c12 (conditions inside parts in the C11 fragment, JSON labels): what is emitted is
   pure JSON data; the rebuilt path IS the original, hence selects the same nodes with the same concrete paths
   from every document, and is == to it *)
Theorem C12_roundtrip_same_selection : forall st p specs,
  path_in_c12 st = true -> mk_path T idlit (spathterm_term st) = Ok p ->
  path_to_part_specs T X p = Ok (VList specs) ->
  exists t' p', from_part_specs T X specs = Ok t' /\ mk_path T idlit t' = Ok p' /\
    (forall doc, walk_parts T res0 (p_parts p') true [doc] [] = walk_parts T res0 (p_parts p) true [doc] []) /\
    (forall data rp, get_data T res0 p' data rp = get_data T res0 p data rp) /\
    p' = p /\ (path_ok wf_val p -> path_eqb p' p = true).
Proof. exact C12_roundtrip_selects. Qed.
Theorem C12_roundtrip_pure : forall st p specs,
  path_in_c12 st = true -> mk_path T idlit (spathterm_term st) = Ok p ->
  path_to_part_specs T X p = Ok (VList specs) ->
  json_pure (VList specs) = true /\
  exists t', from_part_specs T X specs = Ok t' /\ mk_path T idlit t' = Ok p.
Proof. exact C12_roundtrip. Qed.
Print Assumptions C12_roundtrip_same_selection. Print Assumptions C12_roundtrip_pure.

(* part specs cannot carry a datum type, a multiplicity or source data: such a path is refused, every other
   path of the fragment is serialised *)
Theorem C12_refuses_what_it_cannot_represent : forall p,
  (p_dt p <> DtNone \/ p_mt p <> MtNone \/ p_src p <> None) -> path_to_part_specs T X p = Err ValueError.
Proof. exact C12_refusal. Qed.
Theorem C12_serialises_the_rest : forall st p,
  path_in_c12 st = true -> mk_path T idlit (spathterm_term st) = Ok p ->
  p_dt p = DtNone -> p_mt p = MtNone -> p_src p = None ->
  exists specs, path_to_part_specs T X p = Ok (VList specs).
Proof. exact C12_accepts. Qed.
Print Assumptions C12_refuses_what_it_cannot_represent. Print Assumptions C12_serialises_the_rest.

(* the full spec form (key "path[.multiplicity][.datum type]") carries the modifiers and round-trips *)
Theorem C12_spec_form_roundtrip : forall st p,
  path_in_c12 st = true -> st_src st = None -> mk_path T idlit (spathterm_term st) = Ok p ->
  exists specs,
    path_to_spec T X p = Ok (VDict [(VStr (spec_key (p_dt p) (p_mt p)), VList specs)]) /\
    json_pure (VDict [(VStr (spec_key (p_dt p) (p_mt p)), VList specs)]) = true /\
    exists t', path_from_spec T X (VDict [(VStr (spec_key (p_dt p) (p_mt p)), VList specs)]) = Ok (inl t') /\
               mk_path T idlit t' = Ok p.
Proof. exact C12_spec_form. Qed.
Print Assumptions C12_spec_form_roundtrip.

(* the fragment is inhabited by a six-part path *)
Theorem C12_fragment_inhabited : path_in_c12 ex12_st = true.
Proof. exact ex12_in. Qed.
