(* C14 -- equality is an equivalence relation that implies identical behaviour.
   The equivalence part is proved; "equal objects behave identically" is decided by the
   correspondence / direct oracle and carries the known finding D22 (numeric type of range bounds). *)
From Coq Require Import ZArith NArith List Bool String.
From Valida Require Import Py Lang Defs Cond Dsl Path Cast RuleDefs Rule Eq Inst.
From Valida.Proofs Require Import C14Proof.
Import ListNotations.

(* Python's == on document / argument values is an equivalence on well-formed values (every dict
   inside has hashable, pairwise non-== keys, as every real dict does) *)
Theorem C14_value_eq_refl : forall v, wf_val v = true -> py_eq v v = true.
Proof. exact py_eq_refl_wf. Qed.
Theorem C14_value_eq_sym : forall a b, wf_val a = true -> wf_val b = true -> py_eq a b = py_eq b a.
Proof. exact py_eq_sym_wf. Qed.
Theorem C14_value_eq_trans : forall a b c, wf_val a = true -> wf_val b = true -> wf_val c = true ->
  py_eq a b = true -> py_eq b c = true -> py_eq a c = true.
Proof. exact py_eq_trans_wf. Qed.
Print Assumptions C14_value_eq_refl. Print Assumptions C14_value_eq_sym. Print Assumptions C14_value_eq_trans.

(* conditions (arguments: literals or data paths), with the commutative clause of combinations *)
Theorem C14_condition_refl : forall c, cond1_ok WF T c -> path_args_buildable T c -> cond1_eqb T c c = true.
Proof. exact (C14_cond1_refl T). Qed.
Theorem C14_condition_sym : forall a b, cond1_ok WF T a -> cond1_ok WF T b -> cond1_eqb T a b = cond1_eqb T b a.
Proof. exact (C14_cond1_sym T). Qed.
Theorem C14_condition_trans : forall a b c, cond1_ok WF T a -> cond1_ok WF T b -> cond1_ok WF T c ->
  cond1_eqb T a b = true -> cond1_eqb T b c = true -> cond1_eqb T a c = true.
Proof. exact (C14_cond1_trans T). Qed.
Theorem C14_condition_commute : forall o a b, cond1_ok WF T a -> cond1_ok WF T b ->
  path_args_buildable T a -> path_args_buildable T b -> cond1_eqb T (CBin o a b) (CBin o b a) = true.
Proof. exact (C14_cond1_commute T). Qed.
Print Assumptions C14_condition_refl. Print Assumptions C14_condition_sym.
Print Assumptions C14_condition_trans. Print Assumptions C14_condition_commute.

(* paths (hence parts) *)
Theorem C14_path_equiv_refl : forall p, path_ok WF p -> path_eqb p p = true.
Proof. exact C14_path_refl. Qed.
Theorem C14_path_equiv_sym : forall p q, path_ok WF p -> path_ok WF q -> path_eqb p q = path_eqb q p.
Proof. exact C14_path_sym. Qed.
Theorem C14_path_equiv_trans : forall p q r, path_ok WF p -> path_ok WF q -> path_ok WF r ->
  path_eqb p q = true -> path_eqb q r = true -> path_eqb p r = true.
Proof. exact C14_path_trans. Qed.
Print Assumptions C14_path_equiv_refl. Print Assumptions C14_path_equiv_sym. Print Assumptions C14_path_equiv_trans.

(* rules and schemas *)
Theorem C14_rule_equiv_refl : forall r g, rule_ok WF T r -> path_args_buildable T (r_cond r) -> rule_eqb T r r g g = true.
Proof. exact (C14_rule_refl T). Qed.
Theorem C14_rule_equiv_sym : forall a b ga gb, rule_ok WF T a -> rule_ok WF T b -> rule_eqb T a b ga gb = rule_eqb T b a gb ga.
Proof. exact (C14_rule_sym T). Qed.
Theorem C14_rule_equiv_trans : forall a b c ga gb gc, rule_ok WF T a -> rule_ok WF T b -> rule_ok WF T c ->
  rule_eqb T a b ga gb = true -> rule_eqb T b c gb gc = true -> rule_eqb T a c ga gc = true.
Proof. exact (C14_rule_trans T). Qed.
Theorem C14_schema_equiv_refl : forall s, schema_ok WF T s -> schema_buildable T s -> schema_eqb T s s = true.
Proof. exact (C14_schema_refl T). Qed.
Print Assumptions C14_rule_equiv_refl. Print Assumptions C14_rule_equiv_sym. Print Assumptions C14_rule_equiv_trans.
Print Assumptions C14_schema_equiv_refl.

(* separately built copies of one definition are equal *)
Theorem C14_rebuilt_copies_equal : forall t c c', build1 T t = Ok c -> build1 T t = Ok c' ->
  cond1_ok WF T c -> cond1_eqb T c c' = true.
Proof. exact (C14_rebuild T). Qed.
Print Assumptions C14_rebuilt_copies_equal.
