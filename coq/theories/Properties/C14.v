(* C14 -- equality is an equivalence relation that implies identical behaviour.
   The equivalence part is proved.  "Equal objects behave identically" is FALSE in general (known finding D22: the
   numeric type of a range bound; see C14BehProof.C14_eq_not_behaviour_counterexample); what holds is proved at the end:
   operand order never matters, objects that are equal up to operand order and keyword order behave identically, and
   equal_to / not_equal_to do not see the difference between == arguments.  The rest is decided by the direct oracle. *)
From Coq Require Import ZArith NArith List Bool String Permutation.
From Valida Require Import Py Lang Defs Cond Dsl Path Cast RuleDefs Rule Eq Inst.
From Valida.Proofs Require Import C14Proof C14BehProof.
Import ListNotations.

(* Python's == on document / argument values is an equivalence on well-formed values (every dict
   inside has hashable, pairwise non-== keys, as every real dict does) *)
Theorem C14_value_eq_refl : forall v, wf_val v = true -> py_eq v v = true.
Proof. exact py_eq_refl_wf. Qed.
Theorem C14_value_eq_sym : forall a b, wf_val a = true -> wf_val b = true -> py_eq a b = py_eq b a.
Proof. exact py_eq_sym_wf. Qed.
Theorem C14_value_eq_trans : forall a b c, wf_val a = true -> wf_val b = true -> wf_val c = true ->
  py_eq a b = true -> py_eq b c = true -> py_eq a c = true.
Proof. exact py_eq_trans_wf. Qed.
Print Assumptions C14_value_eq_refl. Print Assumptions C14_value_eq_sym. Print Assumptions C14_value_eq_trans.

(* conditions (arguments: literals or data paths), with the commutative clause of combinations *)
Theorem C14_condition_refl : forall c, cond1_ok WF T c -> path_args_buildable T c -> cond1_eqb T c c = true.
Proof. exact (C14_cond1_refl T). Qed.
Theorem C14_condition_sym : forall a b, cond1_ok WF T a -> cond1_ok WF T b -> cond1_eqb T a b = cond1_eqb T b a.
Proof. exact (C14_cond1_sym T). Qed.
Theorem C14_condition_trans : forall a b c, cond1_ok WF T a -> cond1_ok WF T b -> cond1_ok WF T c ->
  cond1_eqb T a b = true -> cond1_eqb T b c = true -> cond1_eqb T a c = true.
Proof. exact (C14_cond1_trans T). Qed.
Theorem C14_condition_commute : forall o a b, cond1_ok WF T a -> cond1_ok WF T b ->
  path_args_buildable T a -> path_args_buildable T b -> cond1_eqb T (CBin o a b) (CBin o b a) = true.
Proof. exact (C14_cond1_commute T). Qed.
Print Assumptions C14_condition_refl. Print Assumptions C14_condition_sym.
Print Assumptions C14_condition_trans. Print Assumptions C14_condition_commute.

(* paths (hence parts) *)
Theorem C14_path_equiv_refl : forall p, path_ok WF p -> path_eqb p p = true.
Proof. exact C14_path_refl. Qed.
Theorem C14_path_equiv_sym : forall p q, path_ok WF p -> path_ok WF q -> path_eqb p q = path_eqb q p.
Proof. exact C14_path_sym. Qed.
Theorem C14_path_equiv_trans : forall p q r, path_ok WF p -> path_ok WF q -> path_ok WF r ->
  path_eqb p q = true -> path_eqb q r = true -> path_eqb p r = true.
Proof. exact C14_path_trans. Qed.
Print Assumptions C14_path_equiv_refl. Print Assumptions C14_path_equiv_sym. Print Assumptions C14_path_equiv_trans.

(* rules and schemas *)
Theorem C14_rule_equiv_refl : forall r g, rule_ok WF T r -> path_args_buildable T (r_cond r) -> rule_eqb T r r g g = true.
Proof. exact (C14_rule_refl T). Qed.
Theorem C14_rule_equiv_sym : forall a b ga gb, rule_ok WF T a -> rule_ok WF T b -> rule_eqb T a b ga gb = rule_eqb T b a gb ga.
Proof. exact (C14_rule_sym T). Qed.
Theorem C14_rule_equiv_trans : forall a b c ga gb gc, rule_ok WF T a -> rule_ok WF T b -> rule_ok WF T c ->
  rule_eqb T a b ga gb = true -> rule_eqb T b c gb gc = true -> rule_eqb T a c ga gc = true.
Proof. exact (C14_rule_trans T). Qed.
Theorem C14_schema_equiv_refl : forall s, schema_ok WF T s -> schema_buildable T s -> schema_eqb T s s = true.
Proof. exact (C14_schema_refl T). Qed.
Print Assumptions C14_rule_equiv_refl. Print Assumptions C14_rule_equiv_sym. Print Assumptions C14_rule_equiv_trans.
Print Assumptions C14_schema_equiv_refl.

(* separately built copies of one definition are equal *)
Theorem C14_rebuilt_copies_equal : forall t c c', build1 T t = Ok c -> build1 T t = Ok c' ->
  cond1_ok WF T c -> cond1_eqb T c c' = true.
Proof. exact (C14_rebuild T). Qed.
Print Assumptions C14_rebuilt_copies_equal.

(* ---- behaviour ---- *)

(* swapping the operands of a combination changes nothing observable: result vector, the three tables, the views and the
   number of failure reasons are identical (the truth table is permuted); if one order raises so does the other *)
Theorem C14_commuted_same_behaviour : forall (T : tables) (A : Type) (resolve : A -> res pyval) (o : bop) (a b : cond A) (d : data),
  res_same (filter_tree T resolve (CBin o a b) d) (filter_tree T resolve (CBin o b a) d).
Proof. exact C14_commuted_behaviour. Qed.
Theorem C14_commuted_same_fields : forall (T : tables) (A : Type) (resolve : A -> res pyval) (o : bop) (a b : cond A) (d : data) (f : fres),
  filter_tree T resolve (CBin o a b) d = Ok f ->
  exists g : fres,
    filter_tree T resolve (CBin o b a) d = Ok g /\
    fr_result f = fr_result g /\ fr_pre f = fr_pre g /\ fr_cerr f = fr_cerr g /\ fr_cfalse f = fr_cfalse g /\
    Permutation (fr_tt f) (fr_tt g) /\
    obs_filter d f = obs_filter d g /\ (forall i : nat, num_reasons f i = num_reasons g i).
Proof. exact C14_commuted_fields. Qed.

(* conditions that are the same up to operand order (at any depth) and keyword-argument order filter identically, are ==,
   and rules / paths made of them judge and select identically *)
Theorem C14_same_definition_same_filter : forall c1 c2 : cond arg1,
  cond_same c1 c2 ->
  forall d : data, res_same (filter_tree T (resolve1 T None) c1 d) (filter_tree T (resolve1 T None) c2 d).
Proof. exact C14_strict_equal_behaviour_nosrc. Qed.
Theorem C14_same_definition_equal : forall c1 c2 : cond arg1,
  cond_same c1 c2 -> cond1_ok wf_val T c1 -> path_args_buildable T c1 -> cond1_eqb T c1 c2 = true.
Proof. exact C14_cond_same_eq. Qed.
Theorem C14_same_definition_same_verdict : forall (r1 r2 : rule) (doc : pyval) (copy : option pyval),
  path_same (r_path r1) (r_path r2) -> r_cast r1 = r_cast r2 -> cond_same (r_cond r1) (r_cond r2) ->
  (forall l : leaf arg1, In l (leaves (r_cond r1)) -> kw_literal l) ->
  same_outcome (rule_test T r1 doc copy) (rule_test T r2 doc copy).
Proof. exact C14_strict_equal_rule_test. Qed.
Theorem C14_same_definition_same_selection : forall (A : Type) (resolve : A -> res pyval) (p1 p2 : dpath A) (data : option pyval) (rp : bool),
  path_same p1 p2 -> path_kw_resolvable A resolve p1 ->
  same_outcome (get_data T resolve p1 data rp) (get_data T resolve p2 data rp).
Proof. exact C14_path_same_get_data. Qed.

(* equal_to / not_equal_to (the callables that only use == on their argument) evaluate identically for == arguments *)
Theorem C14_eq_callables_see_only_equality : forall (A : Type) (resolve : A -> res pyval) (cls : string) (k : dkind) (p : preproc)
    (ne kwform : bool) (a a' : A) (v v' : pyval),
  resolve a = Ok v -> resolve a' = Ok v' -> wf_val v = true -> wf_val v' = true -> py_eq v v' = true ->
  forall x : pyval, wf_val x = true ->
  eval_item T resolve (eq_leaf cls k p ne kwform a) x = eval_item T resolve (eq_leaf cls k p ne kwform a') x.
Proof. exact C14_value_type_insensitive_callables. Qed.

Print Assumptions C14_commuted_same_behaviour. Print Assumptions C14_commuted_same_fields. Print Assumptions C14_same_definition_same_filter.
Print Assumptions C14_same_definition_equal. Print Assumptions C14_same_definition_same_verdict.
Print Assumptions C14_same_definition_same_selection. Print Assumptions C14_eq_callables_see_only_equality.

(* ---- conditions whose arguments hold data paths NESTED in a list / tuple / mapping argument (NestedArgs.narg; equality NestedIO.condn_eqb:
   a display without paths is the literal container, items in order, mapping entries by key).  == is an equivalence on well-formed
   conditions, the two operands of a combination commute, and a list display is never == to the equal tuple display
   (Proofs/C14NestedProof.v). *)
From Valida Require Import NestedArgs NestedIO.
From Valida.Proofs Require Import C14NestedProof.

Theorem C14_nested_refl : forall c, condn_ok c -> condn_buildable c -> condn_eqb c c = true.
Proof. exact C14N_cond_refl. Qed.
Theorem C14_nested_sym : forall a b, condn_ok a -> condn_ok b -> condn_eqb a b = condn_eqb b a.
Proof. exact C14N_cond_sym. Qed.
Theorem C14_nested_trans : forall a b c, condn_ok a -> condn_ok b -> condn_ok c ->
  condn_eqb a b = true -> condn_eqb b c = true -> condn_eqb a c = true.
Proof. exact C14N_cond_trans. Qed.
Theorem C14_nested_commute : forall o a b, condn_ok a -> condn_ok b -> condn_buildable a -> condn_buildable b ->
  condn_eqb (CBin o a b) (CBin o b a) = true.
Proof. exact C14N_cond_commute. Qed.
Print Assumptions C14_nested_refl. Print Assumptions C14_nested_sym. Print Assumptions C14_nested_trans. Print Assumptions C14_nested_commute.
