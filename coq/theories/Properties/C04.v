(* C04 -- reported concrete paths are truthful; path modifiers mean what they say. *)
From Coq Require Import ZArith NArith List Bool String.
From Valida Require Import Py Lang Defs Cond Dsl Check DocSem PathSpec Path Inst Run.
From Valida.Proofs Require Import C03Proof C04Proof.
Import ListNotations.
Local Open Scope string_scope.

(* The implementation model computes spec_path_get (C03_walk); the statements below are about
   what that specification returns, for every path, every modifier and every well-formed document
   (dict keys hashable and pairwise not ==, as in any real Python dict). *)
Theorem C04_model_is_spec : forall st data rp, spathterm_ok st = true ->
  run_get (spathterm_term st) data rp = spec_path_get st data rp.
Proof. exact C03_model_meets_spec. Qed.
Print Assumptions C04_model_is_spec.

(* indexing the document along a reported path reaches exactly the reported node *)
Theorem C04_paths_truthful : forall ps doc cp v,
  wf_val doc = true -> In (cp, v) (walk ps [] doc) -> index_along doc cp = Some v.
Proof. exact C04_truthful. Qed.
Print Assumptions C04_paths_truthful.

Theorem C04_paths_distinct : forall ps doc, wf_val doc = true -> NoDup (map fst (walk ps [] doc)).
Proof. exact C04_distinct. Qed.
Print Assumptions C04_paths_distinct.

(* the result without paths is the result with paths, paths dropped (errors, empty selections and
   every multiplicity modifier included) *)
Theorem C04_values_same : forall p data,
  spec_get_data p data false = res_map (strip_paths p) (spec_get_data p data true).
Proof. exact C04_same_values. Qed.
Print Assumptions C04_values_same.

(* datum and multiplicity modifiers commute; multiplicity modifiers are refused on concrete paths *)
Theorem C04_modifiers_commute : forall p d m dt mt,
  sp_dt p = SdNone -> sp_mt p = SmNone -> sdt_of_name d = Some dt -> smt_of_name m = Some mt ->
  spec_mods p [d; m] = spec_mods p [m; d].
Proof. intros p d m dt mt H1 H2 H3 H4. exact (proj1 (C04_commute p d m dt mt H1 H2 H3 H4)). Qed.
Print Assumptions C04_modifiers_commute.

Theorem C04_concrete_refuses_multi : forall p m mt,
  sp_concrete p = true -> smt_of_name m = Some mt -> spec_mod p m = Err ValueError.
Proof. exact C04_concrete_refuses. Qed.
Print Assumptions C04_concrete_refuses_multi.
