(* C01 -- a single condition filters every item to its documented meaning, never aborting.
   This file contains only the property theorems, each closed by a lemma proved elsewhere. *)
From Coq Require Import ZArith NArith List Bool String.
From Valida Require Import Py Lang Defs Cond Dsl Check DocSem Inst.
From Valida.Proofs Require Import PyFacts Tie C01Proof.
Import ListNotations.
Local Open Scope string_scope.

(* For every leaf the DSL can build (7 classes x 32 constructors x arbitrary argument values) and
   EVERY document value: the model of `leaf.filter(doc)`, running the bodies translated from the
   current callables.py under the current `except` clauses, equals the specification:
   - a non-empty list / mapping of the kind the leaf accepts yields (result, data, keys,
     failure_indices) with result = one boolean per item, in item order, equal to the documented
     meaning of the comparison on the item's value / key / index after the pre-processor, an
     undefined comparison counting as False (never an error), and data / keys / failure_indices
     the partition induced by result;
   - anything else is refused with TypeError. *)
Theorem C01_result : forall c q doc,
  class_ok c q = true -> q_wf q = true ->
  run_filter (q_term c q) doc = spec_filter_leaf c q doc.
Proof. exact C01_model_meets_spec. Qed.
Print Assumptions C01_result.

(* the keyword spelling of a constructor call builds the same condition *)
Theorem C01_keyword_call : forall c q m pos kw doc,
  class_ok c q = true -> q_wf q = true -> q_call_kw q = Some (m, pos, kw) ->
  run_filter (DLeaf (scls_name c) m pos kw) doc = spec_filter_leaf c q doc.
Proof. exact C01_keyword_spelling. Qed.
Print Assumptions C01_keyword_call.

(* never aborting: on every document the leaf accepts, filtering returns *)
Theorem C01_never_aborts : forall c q doc,
  class_ok c q = true -> q_wf q = true -> doc_ok c doc = true ->
  exists obs, run_filter (q_term c q) doc = Ok obs.
Proof.
  intros c q doc Hc Hw Hd. rewrite C01_model_meets_spec by assumption.
  unfold spec_filter_leaf. rewrite Hd. eexists; reflexivity.
Qed.
Print Assumptions C01_never_aborts.

(* the translated body of each callable computes the documented comparison, errors included *)
Theorem C01_callable_meaning : forall q d, q_wf q = true -> call_q q d = okb (q_sem q d).
Proof. exact tie_call. Qed.
Print Assumptions C01_callable_meaning.

(* non-vacuity: the hypotheses are met by non-trivial leaves and documents, and the
   theorem's right-hand side is a non-constant result *)
Example C01_inhabited :
  class_ok SValueLength (Q_less_than (VInt 2)) = true /\
  q_wf (Q_items_contain [("a", VInt 1)]) = true /\
  spec_filter_leaf SValueLength (Q_less_than (VInt 2)) (VList [VStr "a"; VInt 3; VList [VInt 1; VInt 2]])
  = Ok (VTuple [VList [VBool true; VBool false; VBool false]; VList [VStr "a"]; VList [VInt 0]; VList [VInt 1; VInt 2]]).
Proof. vm_compute. repeat split; reflexivity. Qed.
