(* C09 -- condition specs mean exactly what the equivalent Python DSL expression means. *)
From Coq Require Import ZArith NArith List Bool String.
From Valida Require Import Py Lang Defs Cond Dsl Check DocSem PathSpec Path Cast Str SpecDefs RuleDefs RuleSpec RuleTerms Rule Spec SpecIO Eq SpecSpell Inst Run RunRule RunSpec.
Import ListNotations.
Local Open Scope string_scope.
From Valida.Proofs Require Import Tie C02Proof RuleProof C09Proof.

(* Every leaf of the typed DSL (7 classes x 32 constructors; arguments that the spec language takes
   literally; type-valued arguments under dtype / is_instance; item names of items_contain that need
   no escaping) written as the spec '<datum>[.<pre-processor>].<callable>: args' parses -- in the
   model of from_spec, running on the tables translated from the current source -- to exactly the
   condition object the DSL constructor builds. *)
Theorem C09_leaf : forall c q,
  leaf_in_c09 c q = true -> q_items_ok q = true ->
  exists t, cond1_from_spec T X (leaf_spec c q) = Ok (t, cond_map pyval arg1 ALit (CLeaf (expected_leaf c q))).
Proof. exact C09_leaf_partial. Qed.
Print Assumptions C09_leaf.

(* and/or/xor lists: the spec of a tree parses to the condition the DSL operators build (null
   operands are identities; key conditions mixed with index conditions are TypeError on both sides) *)
Theorem C09_tree : forall t,
  tree_in_c09 t = true -> tree_items_ok t = true -> tree_depth t <= 40 ->
  rmap snd (cond1_from_spec T X (tree_spec t)) = build1 T (dslc_map ALit (qterm t)).
Proof. exact C09_tree_dsl_partial. Qed.
Print Assumptions C09_tree.

(* any letter case of the key; for EVERY argument value *)
Theorem C09_any_case : forall k k' v,
  lower_tokens k = lower_tokens k' ->
  assoc_str k (sx_binops X) = None -> assoc_str k' (sx_binops X) = None ->
  cond1_from_spec T X (VDict [(VStr k, v)]) = cond1_from_spec T X (VDict [(VStr k', v)]).
Proof. exact C09_case. Qed.
Print Assumptions C09_any_case.

(* the aliases type/dtype, len/length, in/in_ *)
Theorem C09_alias_dtype : forall d m v, datum_token d ->
  cond1_from_spec T X (VDict [(VStr (d ++ ".type." ++ m), v)]) =
  cond1_from_spec T X (VDict [(VStr (d ++ ".dtype." ++ m), v)]).
Proof. exact C09_alias_type. Qed.
Theorem C09_alias_length : forall d m v, datum_token d ->
  cond1_from_spec T X (VDict [(VStr (d ++ ".len." ++ m), v)]) =
  cond1_from_spec T X (VDict [(VStr (d ++ ".length." ++ m), v)]).
Proof. exact C09_alias_len. Qed.
Theorem C09_alias_in_ : forall c v,
  cond1_from_spec T X (VDict [(VStr (scls_label c ++ ".in"), v)]) =
  cond1_from_spec T X (VDict [(VStr (scls_label c ++ ".in_"), v)]).
Proof. exact C09_alias_in. Qed.
Print Assumptions C09_alias_dtype. Print Assumptions C09_alias_length. Print Assumptions C09_alias_in_.

(* a type name in any letter case and the type object convert to the same thing *)
Theorem C09_type_name : forall n t,
  is_known_type (VType t) = true -> assoc_str (str_lower n) (sx_dtype_names X) = Some t ->
  to_type X (VStr n) = to_type X (VType t).
Proof. exact C09_type_name_or_object. Qed.
Print Assumptions C09_type_name.

(* positional-list vs keyword-mapping argument shapes *)
Theorem C09_positional_or_keyword : forall c q a b,
  leaf_in_c09 c q = true -> q_two q = Some (a, b) ->
  exists t, cond1_from_spec T X (VDict [(VStr (scls_label c ++ "." ++ q_method q), VList [a; b])])
            = Ok (t, cond_map pyval arg1 ALit (CLeaf (expected_leaf c q))).
Proof. exact C09_leaf_positional. Qed.
Print Assumptions C09_positional_or_keyword.

(* ---- nested arguments: a ONE-parameter callable whose argument is a list with data-path specs among its items, or a mapping with
   data-path specs among its values (NestedSpell.v: the spec spelling; NestedIO.v: the parser instance that keeps nested paths).
   The spec, under any accepted spelling of its key (letter case, aliases), parses to exactly the condition the DSL builds from the
   term (up to path_back of the paths, which is == ).  A tuple argument holding a path spec is rejected by from_spec (TypeError:
   counterexample proved in Proofs/C09NestedProof.v); under a dtype class every argument is read as a type name (known finding D12). *)
From Valida Require Import NestedArgs NestedIO NestedSpell.
From Valida.Proofs Require Import C11Proof C11EscProof C12Proof C11PathProof C11NestedProof C11NestedFullProof C13NestedProof C09NestedProof.

Theorem C09_nested_leaf : forall c q n key,
  class_ok c q = true -> casts c q = false -> q_form q = FOne (VObj 0%N) -> narg_ok n -> spells key c q ->
  condn_from_spec (VDict [(VStr key, narg_spec n)]) = Ok (nleaf_term c q (back_n n), CLeaf (nleaf [back_n n] c q)) /\
  build_n (nleaf_term c q n) = Ok (CLeaf (nleaf [n] c q)) /\
  build_n (nleaf_term c q (back_n n)) = Ok (CLeaf (nleaf [back_n n] c q)) /\
  condn_eqb (CLeaf (nleaf [back_n n] c q)) (CLeaf (nleaf [n] c q)) = true.
Proof. exact C09N_leaf. Qed.

Theorem C09_nested_tree : forall nas t,
  tree_in_c11n nas t ->
  exists tm,
    condn_from_spec (ntree_spec nas t) = Ok (tm, condn_back nas t) /\
    build_n (ntree_term nas t) = Ok (condn_of nas t) /\
    condn_eqb (condn_back nas t) (condn_of nas t) = true.
Proof. exact C09N_tree. Qed.

(* mixed trees: nested leaves next to literal leaves and to leaves whose arguments are data paths *)
Theorem C09_nested_mixed_tree : forall pts ns t,
  Forall path_good pts ->
  Forall (fun cq => leaf_in_c11n_full pts ns (fst cq) (snd cq)) (qleaves t) -> tree_depth t <= 40 ->
  qmixed (qnorm t) = false ->
  let nas := (embp pts ++ ns)%list in
  run_c09n (ntree_spec_full pts ns t) (ntree_term nas t) = Ok (VBool true).
Proof. exact C09N_tree_full. Qed.
Print Assumptions C09_nested_leaf. Print Assumptions C09_nested_tree. Print Assumptions C09_nested_mixed_tree.
