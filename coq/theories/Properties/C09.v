(* C09 -- condition specs mean exactly what the equivalent Python DSL expression means. *)
From Coq Require Import ZArith NArith List Bool String.
From Valida Require Import Py Lang Defs Cond Dsl Check DocSem PathSpec Path Cast Str SpecDefs RuleDefs RuleSpec RuleTerms Rule Spec SpecIO Eq SpecSpell Inst Run RunRule RunSpec.
Import ListNotations.
Local Open Scope string_scope.
From Valida.Proofs Require Import Tie C02Proof RuleProof C09Proof.

(* Every leaf of the typed DSL (7 classes x 32 constructors; arguments that the spec language takes
   literally; type-valued arguments under dtype / is_instance; item names of items_contain that need
   no escaping) written as the spec '<datum>[.<pre-processor>].<callable>: args' parses -- in the
   model of from_spec, running on the tables translated from the current source -- to exactly the
   condition object the DSL constructor builds. *)
Theorem C09_leaf : forall c q,
  leaf_in_c09 c q = true -> q_items_ok q = true ->
  exists t, cond1_from_spec T X (leaf_spec c q) = Ok (t, cond_map pyval arg1 ALit (CLeaf (expected_leaf c q))).
Proof. exact C09_leaf_partial. Qed.
Print Assumptions C09_leaf.

(* and/or/xor lists: the spec of a tree parses to the condition the DSL operators build (null
   operands are identities; key conditions mixed with index conditions are TypeError on both sides) *)
Theorem C09_tree : forall t,
  tree_in_c09 t = true -> tree_items_ok t = true -> tree_depth t <= 40 ->
  rmap snd (cond1_from_spec T X (tree_spec t)) = build1 T (dslc_map ALit (qterm t)).
Proof. exact C09_tree_dsl_partial. Qed.
Print Assumptions C09_tree.

(* any letter case of the key; for EVERY argument value *)
Theorem C09_any_case : forall k k' v,
  lower_tokens k = lower_tokens k' ->
  assoc_str k (sx_binops X) = None -> assoc_str k' (sx_binops X) = None ->
  cond1_from_spec T X (VDict [(VStr k, v)]) = cond1_from_spec T X (VDict [(VStr k', v)]).
Proof. exact C09_case. Qed.
Print Assumptions C09_any_case.

(* the aliases type/dtype, len/length, in/in_ *)
Theorem C09_alias_dtype : forall d m v, datum_token d ->
  cond1_from_spec T X (VDict [(VStr (d ++ ".type." ++ m), v)]) =
  cond1_from_spec T X (VDict [(VStr (d ++ ".dtype." ++ m), v)]).
Proof. exact C09_alias_type. Qed.
Theorem C09_alias_length : forall d m v, datum_token d ->
  cond1_from_spec T X (VDict [(VStr (d ++ ".len." ++ m), v)]) =
  cond1_from_spec T X (VDict [(VStr (d ++ ".length." ++ m), v)]).
Proof. exact C09_alias_len. Qed.
Theorem C09_alias_in_ : forall c v,
  cond1_from_spec T X (VDict [(VStr (scls_label c ++ ".in"), v)]) =
  cond1_from_spec T X (VDict [(VStr (scls_label c ++ ".in_"), v)]).
Proof. exact C09_alias_in. Qed.
Print Assumptions C09_alias_dtype. Print Assumptions C09_alias_length. Print Assumptions C09_alias_in_.

(* a type name in any letter case and the type object convert to the same thing *)
Theorem C09_type_name : forall n t,
  is_known_type (VType t) = true -> assoc_str (str_lower n) (sx_dtype_names X) = Some t ->
  to_type X (VStr n) = to_type X (VType t).
Proof. exact C09_type_name_or_object. Qed.
Print Assumptions C09_type_name.

(* positional-list vs keyword-mapping argument shapes *)
Theorem C09_positional_or_keyword : forall c q a b,
  leaf_in_c09 c q = true -> q_two q = Some (a, b) ->
  exists t, cond1_from_spec T X (VDict [(VStr (scls_label c ++ "." ++ q_method q), VList [a; b])])
            = Ok (t, cond_map pyval arg1 ALit (CLeaf (expected_leaf c q))).
Proof. exact C09_leaf_positional. Qed.
Print Assumptions C09_positional_or_keyword.
