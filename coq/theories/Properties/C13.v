(* C13 -- rules and schemas survive the JSON round trip, casts included. *)
From Coq Require Import ZArith NArith List Bool String Ascii.
From Valida Require Import Py Lang Defs Cond Dsl Check DocSem Path PathSpec Cast Str SpecDefs RuleDefs RuleTerms
  Spec SpecIO SpecSpell Eq Inst RunSpec Rule.
From Valida.Proofs Require Import C11Proof C11EscProof C12Proof C14Proof C13Proof C13Glue C11PathProof C13PathProof.
Import ListNotations.
Local Open Scope string_scope.
Local Open Scope list_scope.

(* A rule whose path is in the C12 fragment (no modifier, no source data), whose condition is a DSL tree of the
   C11 fragment and whose casts are entries of the cast table: Rule.to_json_like gives pure JSON data (so that
   json.dumps / json.loads return it unchanged: json_pure_norm), Rule.from_json_like of it rebuilds EXACTLY the
   rule that was serialised, with the same cast block *)
Theorem C13_rule : forall st q casts g r,
  path_in_c12 st = true -> st_mods st = [] -> st_src st = None ->
  tree_in_c11 q = true -> casts_in_c13 casts = true -> flag_ok casts g ->
  mk_rule T (c13_term (spathterm_term st) q casts) = Ok r ->
  exists j rt' ex,
    rule_to_json T X (r_path r) (r_cond r) (r_cast r) g = Ok j /\ json_pure j = true /\
    rule_from_spec T X j = Ok (rt', ex) /\
    mk_rule T rt' = Ok r /\ rx_cast_given ex = g /\ rx_doc ex = VNone.
Proof. exact C13_rule_roundtrip_c12. Qed.
Print Assumptions C13_rule.

(* the same for any path that round-trips (the hypothesis C12 discharges), with the behaviour spelled out:
   verdict, failures, document judged and cast data of the rebuilt rule coincide on every document *)
Theorem C13_rule_behaviour : forall pt q casts g r,
  path_roundtrips pt -> tree_in_c11 q = true -> casts_in_c13 casts = true -> flag_ok casts g ->
  mk_rule T (c13_term pt q casts) = Ok r ->
  exists j rt' ex r',
    rule_to_json T X (r_path r) (r_cond r) (r_cast r) g = Ok j /\ json_pure j = true /\
    rule_from_spec T X j = Ok (rt', ex) /\ mk_rule T rt' = Ok r' /\ r' = r /\ rx_cast_given ex = g /\
    forall doc copy, rule_test T r' doc copy = rule_test T r doc copy.
Proof. exact C13_rule_same_behaviour. Qed.
Theorem C13_paths_of_c12_roundtrip : forall st,
  path_in_c12 st = true -> st_mods st = [] -> st_src st = None -> path_roundtrips (spathterm_term st).
Proof. exact c12_path_roundtrips. Qed.
Print Assumptions C13_rule_behaviour. Print Assumptions C13_paths_of_c12_roundtrip.

(* cast blocks: names <-> functions, every entry of the generated tables, both directions; absent casts *)
Theorem C13_cast_blocks : forall casts, casts_in_c13 casts = true ->
  cast_to_json X casts true = Ok (casts_json casts) /\ json_pure (casts_json casts) = true /\
  parse_casts X (Some (casts_json casts)) = Ok (casts, true).
Proof. exact C13_casts. Qed.
Theorem C13_cast_names_back : forall d casts,
  parse_casts X (Some (VDict d)) = Ok (casts, true) ->
  casts_in_c13 casts = true /\ cast_to_json X casts true = Ok (VDict d).
Proof. exact C13_casts_names. Qed.
Print Assumptions C13_cast_blocks. Print Assumptions C13_cast_names_back.

(* schemas: element-wise, the same list of rules comes back and validates every document identically *)
Theorem C13_schema : forall xs s,
  Forall rule_in_c13 xs -> mapM mk_rule_obj xs = Ok s ->
  exists j s', schema_to_json s = Ok j /\ json_pure j = true /\ schema_from_json j = Ok s' /\ s' = s /\
    forall doc, validate T (map fst s') doc = validate T (map fst s) doc.
Proof. exact C13_schema_same_behaviour. Qed.
Print Assumptions C13_schema.

(* a rule whose path has a modifier or source data cannot be written as part specs: it is refused, never
   written without them (repaired defect D42) *)
Theorem C13_modified_path_is_refused : forall pt q casts g r,
  path_modified pt = true -> tree_in_c11 q = true -> casts_in_c13 casts = true -> flag_ok casts g ->
  mk_rule T (c13_term pt q casts) = Ok r ->
  rule_to_json T X (r_path r) (r_cond r) (r_cast r) g = Err ValueError.
Proof. exact C13_modified_rule_ValueError. Qed.
Print Assumptions C13_modified_path_is_refused.

(* ---- rules whose condition looks at other nodes through DATA-PATH arguments ----
   [c13p_term pt sts t casts] is the rule the API builds from a path, a typed condition tree [t] in which [VObj n] stands for the
   n-th data path of [sts] (fragment [tree_in_c11p], Properties/C11.v) and casts.  The rebuilt rule holds the path terms read back
   ([rule_back]): it is == to the original, validates identically on every document, and serialises to exactly the same data. *)
Theorem C13_rule_with_path_arguments : forall st sts t casts g r,
  path_in_c12 st = true -> st_mods st = [] -> st_src st = None ->
  tree_in_c11p sts t = true -> casts_in_c13 casts = true -> flag_ok casts g ->
  mk_rule T (c13p_term (spathterm_term st) sts t casts) = Ok r ->
  exists j rt' ex r',
    rule_to_json T X (r_path r) (r_cond r) (r_cast r) g = Ok j /\ json_pure j = true /\
    rule_from_spec T X j = Ok (rt', ex) /\ mk_rule T rt' = Ok r' /\
    rx_cast_given ex = g /\ rx_doc ex = VNone /\
    r' = rule_back sts t r /\
    (path_self_eq (spathterm_term st) = true -> casts_wf casts -> rule_eqb T r' r g g = true) /\
    (forall doc copy, rule_test T r' doc copy = rule_test T r doc copy) /\
    rule_to_json T X (r_path r') (r_cond r') (r_cast r') g = Ok j.
Proof. exact C13P_rule_roundtrip. Qed.

Theorem C13_schema_with_path_arguments : forall xs s,
  Forall rule_in_c13p xs -> mapM mk_rule_obj_p xs = Ok s ->
  exists j s', schema_to_json s = Ok j /\ json_pure j = true /\ schema_from_json j = Ok s' /\ s' = schema_back xs s /\
    (forall doc, validate T (map fst s') doc = validate T (map fst s) doc) /\
    schema_to_json s' = Ok j /\
    (Forall obj_self_eq s -> schema_eqb T s' s = true).
Proof. exact C13P_schema. Qed.
Print Assumptions C13_rule_with_path_arguments. Print Assumptions C13_schema_with_path_arguments.

(* ---- rules whose condition has data paths NESTED in the list / mapping argument of a one-parameter callable ----
   (NestedRuleIO.v: Rule.to_json_like / from_spec with the nested condition serialiser and parser of NestedIO.v; rules are
   NestedArgs.rule_n.)  The rebuilt rule is == to the original, judges every document identically (rule_test_n, casts included)
   and is written to the same JSON again; lists of such rules likewise, rule by rule. *)
From Valida Require Import NestedArgs NestedIO NestedRuleIO.
From Valida.Proofs Require Import C11NestedProof C13NestedProof.

Theorem C13_rule_with_nested_path_arguments : forall st p nas t casts g,
  path_in_c12 st = true -> st_mods st = [] -> st_src st = None ->
  mk_path T idlit (spathterm_term st) = Ok p ->
  tree_in_c11n nas t -> casts_in_c13 casts = true -> flag_ok casts g ->
  let r := c13n_rule p nas t casts in
  exists j ex r',
    rule_n_to_json r g = Ok j /\ json_pure j = true /\
    rule_n_from_spec j = Ok (r', ex) /\ rx_cast_given ex = g /\ rx_doc ex = VNone /\
    r' = rule_n_back nas t r /\
    (path_self_eq (spathterm_term st) = true -> casts_wf casts -> rule_n_eqb r' r g g = true) /\
    (forall doc copy, rule_test_n r' doc copy = rule_test_n r doc copy) /\
    rule_n_to_json r' g = Ok j.
Proof. exact C13N_rule_roundtrip. Qed.

Theorem C13_schema_with_nested_path_arguments : forall xs s,
  Forall rule_in_c13n xs -> mapM mk_rule_obj_n xs = Ok s ->
  exists j s', schema_n_to_json s = Ok j /\ json_pure j = true /\ schema_n_from_json j = Ok s' /\
    s' = schema_n_back xs s /\
    Forall2 rule_alike_n (map fst s') (map fst s) /\
    schema_n_to_json s' = Ok j /\
    (Forall obj_self_eq_n s -> schema_n_eqb s' s = true).
Proof. exact C13N_schema. Qed.
Print Assumptions C13_rule_with_nested_path_arguments. Print Assumptions C13_schema_with_nested_path_arguments.
