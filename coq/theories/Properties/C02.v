(* C02 -- and/or/xor combinations are pointwise Boolean algebra with null as identity;
   building a combination never alters its operands.  Only property theorems here. *)
From Coq Require Import ZArith NArith List Bool String.
From Valida Require Import Py Lang Defs Cond Dsl Check DocSem Inst CondHeap.
From Valida.Gen Require Import ProtoGen.
From Valida.Proofs Require Import PyFacts Tie C01Proof C02Proof CondHeapProof.
Import ListNotations.
Local Open Scope string_scope.

(* For every and/or/xor tree (any shape and depth, null operands anywhere, value-kind leaves mixed
   with key- or index-kind ones) and EVERY document value, the model of building the tree through
   the DSL and filtering equals the specification: the null condition is the identity of all three
   operators, the result is the pointwise Boolean combination of what the leaves give (C01), key
   conditions combined with index conditions are refused with TypeError. *)
Theorem C02_pointwise : forall t doc,
  qtree_ok t = true -> run_filter (qterm t) doc = spec_filter_tree t doc.
Proof. exact C02_pointwise_model_meets_spec. Qed.
Print Assumptions C02_pointwise.

(* null as identity, on either side, in every position, including next to a combination *)
Theorem C02_null_identity_right : forall o t doc,
  qtree_ok t = true -> run_filter (qterm (QBin o t QNull)) doc = run_filter (qterm t) doc.
Proof.
  intros o t doc H. rewrite !C02_pointwise_model_meets_spec; [| exact H |].
  - unfold spec_filter_tree. cbn [qnorm q_is_null]. reflexivity.
  - unfold qtree_ok in *. cbn [qleaves]. rewrite app_nil_r. exact H.
Qed.
Print Assumptions C02_null_identity_right.

Theorem C02_null_identity_left : forall o t doc,
  qtree_ok t = true -> run_filter (qterm (QBin o QNull t)) doc = run_filter (qterm t) doc.
Proof.
  intros o t doc H. rewrite !C02_pointwise_model_meets_spec; [| exact H |].
  - unfold spec_filter_tree. cbn [qnorm q_is_null]. destruct (q_is_null (qnorm t)) eqn:E.
    + destruct (qnorm t); try discriminate E. reflexivity.
    + reflexivity.
  - unfold qtree_ok in *. cbn [qleaves app]. exact H.
Qed.
Print Assumptions C02_null_identity_left.

(* The object protocol read from the current source is the intended one:
   null_condition_binary_check is `cond_1 if cond_2.is_null else (cond_2 if cond_1.is_null else None)`,
   __new__ short-circuits on it, and __init__ returns at once when __new__ short-circuited. *)
Lemma source_proto_good : good_proto cond_proto.
Proof. repeat split; reflexivity. Qed.

(* Building never alters operands: along ANY history of constructions over a pool of shared live
   objects (each operand any object built before), every object still denotes the condition it
   denoted when it was built -- hence (C02_pointwise) still filters as before. *)
Theorem C02_operands_preserved : forall ops h l c,
  wf_heap h -> valid_history cond_proto ops h ->
  l < List.length h -> den h l = Some c -> den (run_history cond_proto ops h) l = Some c.
Proof. intros ops h l c Hw Hv Hl Hd. exact (history_preserves cond_proto ops h l c source_proto_good Hw Hv Hl Hd). Qed.
Print Assumptions C02_operands_preserved.

(* a single construction writes to no existing object at all, and yields the pure combination *)
Theorem C02_construct_frame : forall o a b h h' r,
  a < List.length h -> b < List.length h -> construct cond_proto o a b h = Ok (h', r) ->
  forall l, l < List.length h -> nth_error h' l = nth_error h l.
Proof. intros o a b h h' r Ha Hb Hc l Hl. exact (construct_frame cond_proto o a b h h' r source_proto_good Ha Hb Hc l Hl). Qed.
Print Assumptions C02_construct_frame.

Theorem C02_construct_refines : forall o a b h ca cb,
  wf_heap h -> a < List.length h -> b < List.length h -> den h a = Some ca -> den h b = Some cb ->
  match construct cond_proto o a b h with
  | Ok (h', r) => exists c, mk_bin o ca cb = Ok c /\ den h' r = Some c
  | Err e => mk_bin o ca cb = Err e
  end.
Proof. intros o a b h ca cb Hw Ha Hb Hda Hdb. exact (construct_refines cond_proto o a b h ca cb source_proto_good Hw Ha Hb Hda Hdb). Qed.
Print Assumptions C02_construct_refines.

(* without the guard in __init__ the statement is false (the defect repaired by 7ef80e9) *)
Theorem C02_unguarded_refuted : exists h a b, wf_heap h /\ a < List.length h /\ b < List.length h /\
  (construct bad_proto BoAnd a b h = Err RecursionError \/
   exists h' r l, construct bad_proto BoAnd a b h = Ok (h', r) /\ l < List.length h /\ nth_error h' l <> nth_error h l).
Proof. exact construct_unguarded_refuted. Qed.

(* non-vacuity *)
Example C02_inhabited :
  qtree_ok (QBin BoXor (QBin BoAnd QNull (QLeaf SValue (Q_less_than (VInt 3)))) (QLeaf SValueLength (Q_equal_to (VInt 2)))) = true /\
  spec_filter_tree (QBin BoXor (QBin BoAnd QNull (QLeaf SValue (Q_less_than (VInt 3)))) (QLeaf SValueLength (Q_equal_to (VInt 2))))
                   (VList [VInt 1; VStr "ab"; VInt 7])
  = Ok (VTuple [VList [VBool true; VBool true; VBool false]; VList [VInt 1; VStr "ab"]; VList [VInt 0; VInt 1]; VList [VInt 2]]).
Proof. vm_compute. split; reflexivity. Qed.

(* ---- with source data: for EVERY argument type and EVERY resolver of arguments (in particular data-path arguments resolved against a
   source document, Rule.v: resolve1 (Some doc); NestedArgs.v: resolve_n), a combination gives, item by item, the Boolean combination of
   what its operands give WITH THE SAME RESOLVER: every operand sees the same source data, wherever it sits in the tree ---- *)
Theorem C02_pointwise_any_resolver : forall (A : Type) (resolver : A -> res pyval) o (a b : cond A) d fa fb,
  filter_tree T resolver a d = Ok fa -> filter_tree T resolver b d = Ok fb ->
  exists f, filter_tree T resolver (CBin o a b) d = Ok f /\
            fr_result f = zip_with (bop_apply o) (fr_result fa) (fr_result fb) /\
            fr_cfalse f = map negb (fr_result f).
Proof.
  intros A resolver o a b d fa fb Ha Hb. cbn [filter_tree]. rewrite Ha, Hb. cbn [bind].
  eexists; split; [reflexivity|]. split; reflexivity.
Qed.

(* an operand that cannot be filtered makes the combination fail with the same error, left operand first *)
Theorem C02_errors_any_resolver : forall (A : Type) (resolver : A -> res pyval) o (a b : cond A) d e,
  (filter_tree T resolver a d = Err e \/ (exists fa, filter_tree T resolver a d = Ok fa /\ filter_tree T resolver b d = Err e)) ->
  filter_tree T resolver (CBin o a b) d = Err e.
Proof.
  intros A resolver o a b d e [Ha | [fa [Ha Hb]]]; cbn [filter_tree]; rewrite Ha; cbn [bind]; [reflexivity|]. rewrite Hb. reflexivity.
Qed.
Print Assumptions C02_pointwise_any_resolver. Print Assumptions C02_errors_any_resolver.
