(* Condition objects on a heap: the object protocol of ConditionBinaryOp(a, b)
   (__new__ may return an existing operand; __init__ then runs on whatever __new__ returned
   when it is an instance of the class being constructed).  Used by C02 ("building a
   combination never alters its operands") and C08. *)
From Coq Require Import ZArith NArith List Bool String Lia.
From Valida Require Import Py Lang Defs Cond.
Import ListNotations.
Local Open Scope string_scope.
Local Open Scope list_scope.

(* utils.null_condition_binary_check as an expression over its two arguments *)
Inductive ncexpr := NCArg (i : nat) | NCNone | NCIf (test_arg : nat) (a b : ncexpr).

(* what the translator reads off ConditionBinaryOp *)
Record proto := {
  pr_null_check : ncexpr;        (* body of null_condition_binary_check(cond_1, cond_2) *)
  pr_new_short_circuits : bool;  (* __new__ is `return null_check(conditions) or super().__new__(cls)` *)
  pr_init_guarded : bool         (* __init__ returns at once when null_check(conditions) is not None *)
}.

Inductive cobj :=
| OLeaf (l : leaf pyval)
| OBin (o : bop) (children : option (nat * nat)).   (* None: allocated by __new__, __init__ not run yet *)

Definition cheap := list cobj.

Definition obj_is_null (h : cheap) (l : nat) : bool :=
  match nth_error h l with Some (OLeaf lf) => is_null_leaf lf | _ => false end.

Definition obj_is_class (h : cheap) (l : nat) (o : bop) : bool :=
  match nth_error h l with Some (OBin o' _) => bop_eqb o o' | _ => false end.

Fixpoint set_nth {X} (l : list X) (i : nat) (x : X) : list X :=
  match l, i with
  | [], _ => []
  | _ :: r, O => x :: r
  | y :: r, S j => y :: set_nth r j x
  end.

(* the pure condition an object denotes; fuel guards against cyclic heaps *)
Fixpoint denote (fuel : nat) (h : cheap) (l : nat) : option (cond pyval) :=
  match fuel with
  | O => None
  | S f =>
      match nth_error h l with
      | Some (OLeaf lf) => Some (CLeaf lf)
      | Some (OBin o (Some (a, b))) =>
          match denote f h a, denote f h b with
          | Some ca, Some cb => Some (CBin o ca cb)
          | _, _ => None
          end
      | _ => None
      end
  end.

Definition den (h : cheap) (l : nat) : option (cond pyval) := denote (S (List.length h)) h l.

Section Proto.
  Variable P : proto.

  Fixpoint nc_eval (e : ncexpr) (h : cheap) (a b : nat) : option nat :=
    match e with
    | NCArg i => Some (match i with O => a | _ => b end)
    | NCNone => None
    | NCIf t x y => if obj_is_null h (match t with O => a | _ => b end) then nc_eval x h a b else nc_eval y h a b
    end.

  Definition null_check (h : cheap) (a b : nat) : option nat := nc_eval (pr_null_check P) h a b.

  (* ConditionAnd/Or/Xor(a, b), i.e. type.__call__: __new__, then __init__ if the result is an instance *)
  Definition construct (o : bop) (a b : nat) (h : cheap) : res (cheap * nat) :=
    let '(h1, r) :=
      match (if pr_new_short_circuits P then null_check h a b else None) with
      | Some x => (h, x)
      | None => (h ++ [OBin o None], List.length h)
      end in
    if obj_is_class h1 r o then
      if pr_init_guarded P && (match null_check h1 a b with Some _ => true | None => false end) then Ok (h1, r)
      else
        let h2 := set_nth h1 r (OBin o (Some (a, b))) in
        match den h2 r with
        | None => Err RecursionError                 (* flatten() never returns on a cyclic object *)
        | Some c => if has_kind DKey c && has_kind DIndex c then Err TypeError else Ok (h2, r)
        end
    else Ok (h1, r).

  (* a history of constructions over a growing pool of objects *)
  Fixpoint run_history (ops : list (bop * nat * nat)) (h : cheap) : cheap :=
    match ops with
    | [] => h
    | (o, a, b) :: r =>
        match construct o a b h with
        | Ok (h', _) => run_history r h'
        | Err _ => run_history r h        (* a refused combination builds nothing that is kept *)
        end
    end.
End Proto.

(* well-formed heaps: every combination is initialised and refers to lower locations *)
Definition wf_obj (i : nat) (x : cobj) : Prop :=
  match x with
  | OLeaf _ => True
  | OBin _ (Some (a, b)) => a < i /\ b < i
  | OBin _ None => False
  end.
Definition wf_heap (h : cheap) : Prop := forall i x, nth_error h i = Some x -> wf_obj i x.

(* the protocol valida is meant to have *)
Definition good_proto (P : proto) : Prop :=
  pr_null_check P = NCIf 1 (NCArg 0) (NCIf 0 (NCArg 1) NCNone) /\
  pr_new_short_circuits P = true /\ pr_init_guarded P = true.
