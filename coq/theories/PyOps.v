(* Named entry points into Layer P for the `pysem` correspondence run. *)
From Coq Require Import ZArith NArith List Bool String.
From Valida Require Import Py Check.
Import ListNotations.
Local Open Scope Z_scope.

Definition op_eq (a b : pyval) : res pyval := Ok (VBool (py_eq a b)).
Definition op_ne (a b : pyval) : res pyval := Ok (VBool (negb (py_eq a b))).
Definition op_ord (o : ordop) (a b : pyval) : res pyval := okb (py_ord o a b).
Definition op_in (a b : pyval) : res pyval := okb (py_in a b).
Definition op_in_keys (a d : pyval) : res pyval :=
  match d with VDict kv => okb (keys_in a (map fst kv)) | _ => Err AttributeError end.
Definition op_in_range (x lo hi : pyval) : res pyval :=
  match lo, hi with
  | VFloat _ _ _, _ | _, VFloat _ _ _ => Err TypeError
  | _, _ => match int_of lo, int_of hi with
            | Some l, Some h => Ok (VBool (range_in x l h))
            | _, _ => Err TypeError
            end
  end.
Definition op_mod (a b : pyval) : res pyval := py_mod a b.
Definition op_sub (a b : pyval) : res pyval := py_sub a b.
Definition op_abs (a : pyval) : res pyval := py_abs a.
Definition op_len (a : pyval) : res pyval := py_len a.
Definition op_type (a : pyval) : res pyval := Ok (VType (py_type a)).
Definition op_truthy (a : pyval) : res pyval := Ok (VBool (py_truthy a)).
Definition op_isinstance (a c : pyval) : res pyval := okb (py_isinstance a c).
Definition op_getitem (a k : pyval) : res pyval := py_getitem a k.
Definition op_iter (a : pyval) : res pyval := let* l := py_iter a in Ok (VList l).
Definition op_setlen (a : pyval) : res pyval :=
  let* l := py_iter a in let* s := mk_set l in Ok (VInt (Z.of_nat (List.length s))).
