(* C17: replacing a data-path argument by the value it selects in the validated document. *)
From Coq Require Import ZArith NArith List Bool String.
From Valida Require Import Py Lang Defs Cond Dsl Path Cast RuleDefs Rule Inst.
Import ListNotations.

(* a path argument that resolves on this document becomes the literal it resolves to *)
Definition subst_arg1 (doc : pyval) (a : arg1) : arg1 :=
  match a with
  | APath _ _ => match resolve1 T (Some doc) a with Ok v => ALit v | Err _ => a end
  | ALit _ => a
  end.

Definition subst_leaf (doc : pyval) (l : leaf arg1) : leaf arg1 :=
  {| l_cls := l_cls l; l_kind := l_kind l; l_pre := l_pre l; l_call := l_call l;
     l_args := map (subst_arg1 doc) (l_args l);
     l_kwargs := map (fun ka => (fst ka, subst_arg1 doc (snd ka))) (l_kwargs l) |}.

Fixpoint subst_cond (doc : pyval) (c : cond arg1) : cond arg1 :=
  match c with
  | CLeaf l => CLeaf (subst_leaf doc l)
  | CBin o a b => CBin o (subst_cond doc a) (subst_cond doc b)
  end.

Definition subst_rule (doc : pyval) (r : rule) : rule :=
  {| r_path := r_path r; r_cond := subst_cond doc (r_cond r); r_cast := r_cast r |}.
