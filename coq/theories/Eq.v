(* Model of __eq__ on conditions, path parts, paths, rules and schemas. *)
From Coq Require Import ZArith NArith List Bool String.
From Valida Require Import Py Lang Defs Cond Dsl Path Cast RuleDefs Rule.
Import ListNotations.
Local Open Scope string_scope.
Local Open Scope list_scope.

Section E.
  Variable T : tables.

  Fixpoint list_eqb {X} (f : X -> X -> bool) (a b : list X) : bool :=
    match a, b with [], [] => true | x :: xs, y :: ys => f x y && list_eqb f xs ys | _, _ => false end.

  Section Cnd.
    Variable A : Type.
    Variable aeq : A -> A -> bool.

    Fixpoint kw_look (k : string) (l : list (string * A)) : option A :=
      match l with [] => None | (k2, v) :: r => if String.eqb k k2 then Some v else kw_look k r end.
    (* dict equality: same size, every entry of the left found on the right *)
    Definition kw_eqb (a b : list (string * A)) : bool :=
      Nat.eqb (List.length a) (List.length b)
      && forallb (fun kv => match kw_look (fst kv) b with Some v => aeq (snd kv) v | None => false end) a.

    Definition leaf_eqb (a b : leaf A) : bool :=
      String.eqb (l_cls a) (l_cls b) && String.eqb (l_call a) (l_call b)
      && list_eqb aeq (l_args a) (l_args b) && kw_eqb (l_kwargs a) (l_kwargs b).

    Fixpoint cond_eqb (a b : cond A) : bool :=
      match a, b with
      | CLeaf x, CLeaf y => leaf_eqb x y
      | CBin o a1 a2, CBin o' b1 b2 =>
          bop_eqb o o' && ((cond_eqb a1 b1 && cond_eqb a2 b2) || (cond_eqb a1 b2 && cond_eqb a2 b1))
      | _, _ => false
      end.
  End Cnd.

  Definition cond0_eqb := cond_eqb pyval py_eq.

  Definition olabel_eqb (a b : option pyval) : bool :=
    match a, b with None, None => true | Some x, Some y => py_eq x y | Some x, None => py_eq x VNone | None, Some y => py_eq VNone y end.

  Definition part_eqb (a b : part pyval) : bool :=
    match a, b with
    | PMap c l, PMap c' l' => cond0_eqb c c' && olabel_eqb l l'
    | PList c l, PList c' l' => cond0_eqb c c' && olabel_eqb l l'
    | PMol c lc mc l, PMol c' lc' mc' l' => cond0_eqb c c' && olabel_eqb l l' && cond0_eqb lc lc' && cond0_eqb mc mc'
    | _, _ => false
    end.

  Definition osrc_eqb (a b : option pyval) : bool :=
    match a, b with None, None => true | Some x, Some y => py_eq x y | Some x, None => py_eq x VNone | None, Some y => py_eq VNone y end.

  Definition path_eqb (a b : dpath pyval) : bool :=
    list_eqb part_eqb (p_parts a) (p_parts b) && Bool.eqb (p_concrete a) (p_concrete b)
    && datum_type_eqb (p_dt a) (p_dt b) && multi_type_eqb (p_mt a) (p_mt b) && osrc_eqb (p_src a) (p_src b).

  Definition arg1_eqb (a b : arg1) : bool :=
    match a, b with
    | ALit x, ALit y => py_eq x y
    | APath _ p, APath _ q =>
        match mk_path T (fun v => v) p, mk_path T (fun v => v) q with
        | Ok x, Ok y => path_eqb x y
        | _, _ => false
        end
    | _, _ => false
    end.
  Definition cond1_eqb := cond_eqb arg1 arg1_eqb.

  Definition castfn_eqb (a b : castfn) : bool :=
    match a, b with CastStrBool, CastStrBool | CastStrInt, CastStrInt => true | _, _ => false end.
  Fixpoint cast_look (t : pytype) (l : list (pytype * castfn)) : option castfn :=
    match l with [] => None | (t2, f) :: r => if pytype_eqb t t2 then Some f else cast_look t r end.
  Definition casts_eqb (a b : list (pytype * castfn)) : bool :=
    Nat.eqb (List.length a) (List.length b)
    && forallb (fun tf => match cast_look (fst tf) b with Some f => castfn_eqb (snd tf) f | None => false end) a.

  (* Rule.__eq__: path, condition, cast (None and {} are different objects: given-ness is compared) *)
  Definition rule_eqb (a b : rule) (ga gb : bool) : bool :=
    path_eqb (r_path a) (r_path b) && cond1_eqb (r_cond a) (r_cond b)
    && casts_eqb (r_cast a) (r_cast b) && Bool.eqb ga gb.
End E.
