(* SPEC: the documented meaning of every comparison of the DSL, written directly over Layer P.
   Hand-written from the names / docstrings of valida's DSL; independent of Gen/*.v. *)
From Coq Require Import ZArith NArith List Bool String Lia.
From Valida Require Import Py Lang Defs.
Import ListNotations.
Local Open Scope string_scope.
Local Open Scope list_scope.
Local Open Scope Z_scope.

(* one constructor per DSL method *)
Inductive dsl :=
| Q_equal_to (v : pyval) | Q_not_equal_to (v : pyval)
| Q_less_than (v : pyval) | Q_greater_than (v : pyval)
| Q_less_than_or_equal_to (v : pyval) | Q_greater_than_or_equal_to (v : pyval)
| Q_in (c : pyval) | Q_not_in (c : pyval)
| Q_in_range (lo hi : pyval) | Q_not_in_range (lo hi : pyval)
| Q_equal_to_approx (v tol : pyval)
| Q_factor_of (v : pyval) | Q_has_factor (v : pyval)
| Q_truthy | Q_falsy | Q_null
| Q_is_instance (classes : list pyval)
| Q_keys_contain (k : pyval)
| Q_keys_contain_any_of (ks : list pyval) | Q_keys_contain_all_of (ks : list pyval)
| Q_keys_contain_N_of (n keys : pyval) | Q_keys_contain_at_least_N_of (n keys : pyval)
| Q_keys_contain_at_most_N_of (n keys : pyval)
| Q_keys_contain_one_of (ks : list pyval)
| Q_keys_contain_at_least_one_of (keys : pyval) | Q_keys_contain_at_most_one_of (keys : pyval)
| Q_keys_equal_to (ks : list pyval)
| Q_keys_is_instance (classes : list pyval)
| Q_items_contain (items : list (string * pyval))
| Q_allowed_keys (ks : list pyval) | Q_required_keys (ks : list pyval) | Q_forbidden_keys (ks : list pyval).

Definition dict_keys (d : pyval) : res (list pyval) :=
  match d with VDict kv => Ok (map fst kv) | _ => Err AttributeError end.

(* "k is a key of d" as Python evaluates `k in d.keys()` *)
Definition has_key (d k : pyval) : res bool := let* ks := dict_keys d in keys_in k ks.

(* how many of `keys` are keys of d *)
Definition count_keys (d keys : pyval) : res pyval :=
  let* ks := py_iter keys in
  let* n := sum_res (fun k => let* b := has_key d k in Ok (Z.b2z b)) ks 0 in Ok (VInt n).

Fixpoint items_match (d : pyval) (items : list (string * pyval)) : res bool :=
  match items with
  | [] => Ok true
  | (k, v) :: r =>
      match py_getitem d (VStr k) with
      | Ok x => if negb (py_eq x v) then Ok false else items_match d r
      | Err KeyError => Ok false
      | Err e => Err e
      end
  end.

Definition is_zero (v : pyval) : bool := py_eq v (VInt 0).
Definition set_empty (s : list pyval) : bool := match s with [] => true | _ => false end.
Definition notb (r : res bool) : res bool := let* b := r in Ok (negb b).

(* the comparison applied to one (pre-processed) datum; Err = "not defined for this datum" *)
Definition q_sem (q : dsl) (d : pyval) : res bool :=
  match q with
  | Q_equal_to v => Ok (py_eq d v)
  | Q_not_equal_to v => Ok (negb (py_eq d v))
  | Q_less_than v => py_ord OLt d v
  | Q_greater_than v => py_ord OGt d v
  | Q_less_than_or_equal_to v => py_ord OLe d v
  | Q_greater_than_or_equal_to v => py_ord OGe d v
  | Q_in c => py_in d c
  | Q_not_in c => notb (py_in d c)
  | Q_in_range lo hi =>
      let* b := range_bounds lo hi in Ok (range_in d (fst b) (snd b))
  | Q_not_in_range lo hi =>
      let* b := range_bounds lo hi in Ok (negb (range_in d (fst b) (snd b)))
  | Q_equal_to_approx v tol =>
      let* s := py_sub d v in
      let* a := py_abs s in
      py_ord OLt a tol
  | Q_factor_of v => let* r := py_mod v d in Ok (is_zero r)
  | Q_has_factor v => let* r := py_mod d v in Ok (is_zero r)
  | Q_truthy => Ok (py_truthy d)
  | Q_falsy => Ok (negb (py_truthy d))
  | Q_null => Ok true
  | Q_is_instance classes => py_isinstance d (VTuple classes)
  | Q_keys_contain k => has_key d k
  | Q_keys_contain_any_of ks => any_res (has_key d) ks
  | Q_keys_contain_all_of ks => all_res (has_key d) ks
  | Q_keys_contain_N_of n keys => let* c := count_keys d keys in Ok (py_eq c n)
  | Q_keys_contain_at_least_N_of n keys => let* c := count_keys d keys in py_ord OGe c n
  | Q_keys_contain_at_most_N_of n keys => let* c := count_keys d keys in py_ord OLe c n
  | Q_keys_contain_one_of ks => let* c := count_keys d (VTuple ks) in Ok (py_eq c (VInt 1))
  | Q_keys_contain_at_least_one_of keys => let* c := count_keys d keys in py_ord OGe c (VInt 1)
  | Q_keys_contain_at_most_one_of keys => let* c := count_keys d keys in py_ord OLe c (VInt 1)
  | Q_keys_equal_to ks =>
      let* dk := dict_keys d in
      let* s1 := mk_set dk in
      let* s2 := mk_set ks in Ok (set_eq s1 s2)
  | Q_keys_is_instance classes =>
      let* dk := dict_keys d in
      all_res (fun k => py_isinstance k (VTuple classes)) dk
  | Q_items_contain items => items_match d items
  | Q_allowed_keys ks =>
      let* dk := dict_keys d in
      let* s1 := mk_set dk in
      let* s2 := mk_set ks in Ok (set_empty (set_diff s1 s2))
  | Q_required_keys ks =>
      let* s2 := mk_set ks in
      let* dk := dict_keys d in
      let* s1 := mk_set dk in Ok (set_empty (set_diff s2 s1))
  | Q_forbidden_keys ks =>
      let* s2 := mk_set ks in
      let* dk := dict_keys d in
      let* s1 := mk_set dk in Ok (set_empty (set_inter s2 s1))
  end.

(* is the constructor available on General (every class) or Map (Value / Key only) *)
Definition q_is_map (q : dsl) : bool :=
  match q with
  | Q_keys_contain _ | Q_keys_contain_any_of _ | Q_keys_contain_all_of _ | Q_keys_contain_N_of _ _
  | Q_keys_contain_at_least_N_of _ _ | Q_keys_contain_at_most_N_of _ _ | Q_keys_contain_one_of _
  | Q_keys_contain_at_least_one_of _ | Q_keys_contain_at_most_one_of _ | Q_keys_equal_to _
  | Q_keys_is_instance _ | Q_items_contain _ | Q_allowed_keys _ | Q_required_keys _ | Q_forbidden_keys _ => true
  | _ => false
  end.

(* the seven condition classes of the DSL *)
Inductive scls := SValue | SValueLength | SValueDataType | SKey | SKeyLength | SKeyDataType | SIndex.
Definition scls_name (c : scls) : string :=
  match c with
  | SValue => "Value" | SValueLength => "ValueLength" | SValueDataType => "ValueDataType"
  | SKey => "Key" | SKeyLength => "KeyLength" | SKeyDataType => "KeyDataType" | SIndex => "Index"
  end.
Definition scls_kind (c : scls) : dkind :=
  match c with SValue | SValueLength | SValueDataType => DValue | SKey | SKeyLength | SKeyDataType => DKey | SIndex => DIndex end.
Definition scls_pre (c : scls) : preproc :=
  match c with SValueLength | SKeyLength => PLen | SValueDataType | SKeyDataType => PType | _ => PNone end.
Definition scls_has_map (c : scls) : bool := match c with SValue | SKey => true | _ => false end.

Definition spec_pre (p : preproc) (v : pyval) : res pyval :=
  match p with PNone => Ok v | PLen => py_len v | PType => Ok (VType (py_type v)) end.

(* does the datum satisfy the leaf?  undefined => not satisfied *)
Definition sat_datum (c : scls) (q : dsl) (datum : pyval) : bool :=
  match spec_pre (scls_pre c) datum with
  | Err _ => false
  | Ok v => match q_sem q v with Ok b => b | Err _ => false end
  end.

(* items of a document: (key-or-index, value) in document order *)
Fixpoint zidx (i : Z) (n : nat) : list pyval :=
  match n with O => [] | S m => VInt i :: zidx (i + 1) m end.
Definition doc_items (doc : pyval) : list (pyval * pyval) :=
  match doc with
  | VList l => combine (zidx 0 (List.length l)) l
  | VDict d => d
  | _ => []
  end.

Definition sat_item (c : scls) (q : dsl) (it : pyval * pyval) : bool :=
  sat_datum c q (match scls_kind c with DValue => snd it | _ => fst it end).

(* the documents a leaf of class c filters (others are refused with TypeError) *)
Definition doc_ok (c : scls) (doc : pyval) : bool :=
  match doc, scls_kind c with
  | VList (_ :: _), (DValue | DIndex) => true
  | VDict (_ :: _), (DValue | DKey) => true
  | _, _ => false
  end.

(* expected observable: (result, data, keys, failure_indices) *)
Fixpoint sel {X} (l : list X) (r : list bool) : list X :=
  match l, r with x :: xs, b :: bs => if b then x :: sel xs bs else sel xs bs | _, _ => [] end.
Fixpoint fail_idx (i : Z) (r : list bool) : list pyval :=
  match r with [] => [] | b :: bs => if b then fail_idx (i + 1) bs else VInt i :: fail_idx (i + 1) bs end.

Definition spec_obs (doc : pyval) (result : list bool) : pyval :=
  let items := doc_items doc in
  VTuple [ VList (map VBool result); VList (sel (map snd items) result);
           VList (sel (map fst items) result); VList (fail_idx 0 result) ].

Definition spec_filter_leaf (c : scls) (q : dsl) (doc : pyval) : res pyval :=
  if doc_ok c doc then Ok (spec_obs doc (map (sat_item c q) (doc_items doc))) else Err TypeError.

(* the two spellings of a DSL call: all-positional and (where parameters are named) keyword *)
Definition q_call (q : dsl) : string * list pyval * list (string * pyval) :=
  match q with
  | Q_equal_to v => ("equal_to", [v], [])
  | Q_not_equal_to v => ("not_equal_to", [v], [])
  | Q_less_than v => ("less_than", [v], [])
  | Q_greater_than v => ("greater_than", [v], [])
  | Q_less_than_or_equal_to v => ("less_than_or_equal_to", [v], [])
  | Q_greater_than_or_equal_to v => ("greater_than_or_equal_to", [v], [])
  | Q_in c => ("in_", [c], [])
  | Q_not_in c => ("not_in", [c], [])
  | Q_in_range lo hi => ("in_range", [lo; hi], [])
  | Q_not_in_range lo hi => ("not_in_range", [lo; hi], [])
  | Q_equal_to_approx v tol => ("equal_to_approx", [v; tol], [])
  | Q_factor_of v => ("factor_of", [v], [])
  | Q_has_factor v => ("has_factor", [v], [])
  | Q_truthy => ("truthy", [], [])
  | Q_falsy => ("falsy", [], [])
  | Q_null => ("null", [], [])
  | Q_is_instance cl => ("is_instance", cl, [])
  | Q_keys_contain k => ("keys_contain", [k], [])
  | Q_keys_contain_any_of ks => ("keys_contain_any_of", ks, [])
  | Q_keys_contain_all_of ks => ("keys_contain_all_of", ks, [])
  | Q_keys_contain_N_of n ks => ("keys_contain_N_of", [n; ks], [])
  | Q_keys_contain_at_least_N_of n ks => ("keys_contain_at_least_N_of", [n; ks], [])
  | Q_keys_contain_at_most_N_of n ks => ("keys_contain_at_most_N_of", [n; ks], [])
  | Q_keys_contain_one_of ks => ("keys_contain_one_of", ks, [])
  | Q_keys_contain_at_least_one_of ks => ("keys_contain_at_least_one_of", [ks], [])
  | Q_keys_contain_at_most_one_of ks => ("keys_contain_at_most_one_of", [ks], [])
  | Q_keys_equal_to ks => ("keys_equal_to", ks, [])
  | Q_keys_is_instance cl => ("keys_is_instance", cl, [])
  | Q_items_contain items => ("items_contain", [], items)
  | Q_allowed_keys ks => ("allowed_keys", ks, [])
  | Q_required_keys ks => ("required_keys", ks, [])
  | Q_forbidden_keys ks => ("forbidden_keys", ks, [])
  end.

Definition q_call_kw (q : dsl) : option (string * list pyval * list (string * pyval)) :=
  match q with
  | Q_equal_to v => Some ("equal_to", [], [("value", v)])
  | Q_not_equal_to v => Some ("not_equal_to", [], [("value", v)])
  | Q_less_than v => Some ("less_than", [], [("value", v)])
  | Q_greater_than v => Some ("greater_than", [], [("value", v)])
  | Q_less_than_or_equal_to v => Some ("less_than_or_equal_to", [], [("value", v)])
  | Q_greater_than_or_equal_to v => Some ("greater_than_or_equal_to", [], [("value", v)])
  | Q_in c => Some ("in_", [], [("value", c)])
  | Q_not_in c => Some ("not_in", [], [("value", c)])
  | Q_in_range lo hi => Some ("in_range", [], [("lower", lo); ("upper", hi)])
  | Q_not_in_range lo hi => Some ("not_in_range", [], [("lower", lo); ("upper", hi)])
  | Q_equal_to_approx v tol => Some ("equal_to_approx", [], [("value", v); ("tolerance", tol)])
  | Q_factor_of v => Some ("factor_of", [], [("value", v)])
  | Q_has_factor v => Some ("has_factor", [], [("value", v)])
  | Q_keys_contain k => Some ("keys_contain", [], [("key", k)])
  | Q_keys_contain_N_of n ks => Some ("keys_contain_N_of", [], [("N", n); ("keys", ks)])
  | Q_keys_contain_at_least_N_of n ks => Some ("keys_contain_at_least_N_of", [], [("N", n); ("keys", ks)])
  | Q_keys_contain_at_most_N_of n ks => Some ("keys_contain_at_most_N_of", [], [("N", n); ("keys", ks)])
  | Q_keys_contain_at_least_one_of ks => Some ("keys_contain_at_least_one_of", [], [("keys", ks)])
  | Q_keys_contain_at_most_one_of ks => Some ("keys_contain_at_most_one_of", [], [("keys", ks)])
  | _ => None
  end.

(* recognise a DSL call written in one of those spellings (used by the oracle pass on generated cases) *)
Definition str_in (s : string) (l : list string) : bool := existsb (String.eqb s) l.

Definition parse_call (m : string) (pos : list pyval) (kw : list (string * pyval)) : option dsl :=
  let m := if String.eqb m "eq" then "equal_to" else if String.eqb m "lt" then "less_than"
           else if String.eqb m "gt" then "greater_than" else if String.eqb m "lte" then "less_than_or_equal_to"
           else if String.eqb m "gte" then "greater_than_or_equal_to" else m in
  let one (mk : pyval -> dsl) (name : string) :=
    match pos, kw with
    | [v], [] => Some (mk v)
    | [], [(k, v)] => if String.eqb k name then Some (mk v) else None
    | _, _ => None
    end in
  let two (mk : pyval -> pyval -> dsl) (n1 n2 : string) :=
    match pos, kw with
    | [a; b], [] => Some (mk a b)
    | [], [(k1, a); (k2, b)] => if String.eqb k1 n1 && String.eqb k2 n2 then Some (mk a b) else None
    | _, _ => None
    end in
  let star (mk : list pyval -> dsl) := match kw with [] => Some (mk pos) | _ => None end in
  let zero (q : dsl) := match pos, kw with [], [] => Some q | _, _ => None end in
  if String.eqb m "equal_to" then one Q_equal_to "value"
  else if String.eqb m "not_equal_to" then one Q_not_equal_to "value"
  else if String.eqb m "less_than" then one Q_less_than "value"
  else if String.eqb m "greater_than" then one Q_greater_than "value"
  else if String.eqb m "less_than_or_equal_to" then one Q_less_than_or_equal_to "value"
  else if String.eqb m "greater_than_or_equal_to" then one Q_greater_than_or_equal_to "value"
  else if String.eqb m "in_" then one Q_in "value"
  else if String.eqb m "not_in" then one Q_not_in "value"
  else if String.eqb m "in_range" then two Q_in_range "lower" "upper"
  else if String.eqb m "not_in_range" then two Q_not_in_range "lower" "upper"
  else if String.eqb m "equal_to_approx" then
    match pos, kw with
    | [v], [] => Some (Q_equal_to_approx v (VFloat false 3022314549036573%N (-78)))
    | _, _ => two Q_equal_to_approx "value" "tolerance"
    end
  else if String.eqb m "factor_of" then one Q_factor_of "value"
  else if String.eqb m "has_factor" then one Q_has_factor "value"
  else if String.eqb m "truthy" then zero Q_truthy
  else if String.eqb m "falsy" then zero Q_falsy
  else if String.eqb m "null" then zero Q_null
  else if String.eqb m "is_instance" then star Q_is_instance
  else if String.eqb m "keys_contain" then one Q_keys_contain "key"
  else if String.eqb m "keys_contain_any_of" then star Q_keys_contain_any_of
  else if String.eqb m "keys_contain_all_of" then star Q_keys_contain_all_of
  else if String.eqb m "keys_contain_N_of" then two Q_keys_contain_N_of "N" "keys"
  else if String.eqb m "keys_contain_at_least_N_of" then two Q_keys_contain_at_least_N_of "N" "keys"
  else if String.eqb m "keys_contain_at_most_N_of" then two Q_keys_contain_at_most_N_of "N" "keys"
  else if String.eqb m "keys_contain_one_of" then star Q_keys_contain_one_of
  else if String.eqb m "keys_contain_at_least_one_of" then one Q_keys_contain_at_least_one_of "keys"
  else if String.eqb m "keys_contain_at_most_one_of" then one Q_keys_contain_at_most_one_of "keys"
  else if String.eqb m "keys_equal_to" then star Q_keys_equal_to
  else if String.eqb m "keys_is_instance" then star Q_keys_is_instance
  else if String.eqb m "items_contain" then
    match pos with [] => if existsb (fun kv => String.eqb (fst kv) "trial_dict") kw then None else Some (Q_items_contain kw) | _ => None end
  else if String.eqb m "allowed_keys" then star Q_allowed_keys
  else if String.eqb m "required_keys" then star Q_required_keys
  else if String.eqb m "forbidden_keys" then star Q_forbidden_keys
  else None.

Definition parse_cls (name : string) : option scls :=
  if String.eqb name "Value" then Some SValue else if String.eqb name "ValueLength" then Some SValueLength
  else if String.eqb name "ValueDataType" then Some SValueDataType else if String.eqb name "Key" then Some SKey
  else if String.eqb name "KeyLength" then Some SKeyLength else if String.eqb name "KeyDataType" then Some SKeyDataType
  else if String.eqb name "Index" then Some SIndex else None.

(* oracle entry point: None = the call is outside the typed DSL (bad arity, unknown name): no verdict *)
Definition spec_filter_call (cls m : string) (pos : list pyval) (kw : list (string * pyval)) (doc : pyval)
  : option (res pyval) :=
  match parse_cls cls with
  | None => None
  | Some c =>
      match parse_call m pos kw with
      | None => None
      | Some q => if q_is_map q && negb (scls_has_map c) then None else Some (spec_filter_leaf c q doc)
      end
  end.

Definition q_term (c : scls) (q : dsl) : dslc pyval :=
  let '(m, pos, kw) := q_call q in DLeaf (scls_name c) m pos kw.

(* ------------------------------------------------------------------ *)
(* C02: and / or / xor trees                                            *)

Inductive qtree := QLeaf (c : scls) (q : dsl) | QNull | QBin (o : bop) (a b : qtree).

Fixpoint qterm (t : qtree) : dslc pyval :=
  match t with
  | QLeaf c q => q_term c q
  | QNull => DNull
  | QBin o a b => DBin o (qterm a) (qterm b)
  end.

Definition q_is_null (t : qtree) : bool := match t with QNull => true | _ => false end.

(* the null condition is the identity of all three operators *)
Fixpoint qnorm (t : qtree) : qtree :=
  match t with
  | QBin o a b =>
      let a' := qnorm a in
      let b' := qnorm b in
      if q_is_null b' then a' else if q_is_null a' then b' else QBin o a' b'
  | _ => t
  end.

Fixpoint qleaves (t : qtree) : list (scls * dsl) :=
  match t with QLeaf c q => [(c, q)] | QNull => [] | QBin _ a b => qleaves a ++ qleaves b end.

Definition q_has_kind (k : dkind) (t : qtree) : bool :=
  existsb (fun cq => dkind_eqb (scls_kind (fst cq)) k) (qleaves t).
(* key conditions cannot be combined with index conditions *)
Definition qmixed (t : qtree) : bool := q_has_kind DKey t && q_has_kind DIndex t.

Definition qtree_ok (t : qtree) : bool :=
  forallb (fun cq => (negb (q_is_map (snd cq)) || scls_has_map (fst cq))
                     && match snd cq with
                        | Q_items_contain items => negb (existsb (fun kv => String.eqb (fst kv) "trial_dict") items)
                        | _ => true
                        end) (qleaves t).

Definition bop_sem (o : bop) (x y : bool) : bool :=
  match o with BoAnd => andb x y | BoOr => orb x y | BoXor => xorb x y end.

(* on a normalised tree *)
Fixpoint sat_tree (t : qtree) (it : pyval * pyval) : bool :=
  match t with
  | QLeaf c q => sat_item c q it
  | QNull => true
  | QBin o a b => bop_sem o (sat_tree a it) (sat_tree b it)
  end.

Definition nonempty_container (doc : pyval) : bool :=
  match doc with VList (_ :: _) | VDict (_ :: _) => true | _ => false end.

Definition spec_filter_tree (t : qtree) (doc : pyval) : res pyval :=
  let n := qnorm t in
  match n with
  | QLeaf c q => spec_filter_leaf c q doc
  | QNull => if nonempty_container doc then Ok (spec_obs doc (map (fun _ => true) (doc_items doc))) else Err TypeError
  | QBin _ _ _ =>
      if qmixed n then Err TypeError
      else if nonempty_container doc then Ok (spec_obs doc (map (sat_tree n) (doc_items doc)))
      else Err TypeError
  end.

(* oracle entry point for generated trees: parse a DSL term into the typed tree when possible *)
Fixpoint parse_tree (t : dslc pyval) : option qtree :=
  match t with
  | DLeaf cls m pos kw =>
      match parse_cls cls, parse_call m pos kw with
      | Some c, Some q => if q_is_map q && negb (scls_has_map c) then None else Some (QLeaf c q)
      | _, _ => None
      end
  | DNull => Some QNull
  | DBin o a b =>
      match parse_tree a, parse_tree b with
      | Some x, Some y => Some (QBin o x y)
      | _, _ => None
      end
  end.

Definition spec_filter_term (t : dslc pyval) (doc : pyval) : option (res pyval) :=
  match parse_tree t with
  | Some q => Some (spec_filter_tree q doc)
  | None => None
  end.
