(* Data paths nested ONE level inside a callable argument of a rule's condition:
   an item of a list / tuple argument, or a value of a mapping argument.

   Mirrors valida/conditions.py, _resolve_data_paths(arg, source_data) and
   PreparedConditionCallable._get_resolved_data_path_args: exactly one level of nesting is
   looked at (the argument itself; the items of a list / tuple argument; the values of a dict
   argument), the container type (list vs tuple) is kept, the keys of a dict argument and their
   order are kept, items are resolved left to right.

   The types arg1 / rule / ruleterm of RuleDefs.v / Rule.v are left untouched; this file adds the
   argument type [narg] next to them, with copies judge_n / rule_test_n / build_n / mk_rule_n /
   run_rule_test_n of the corresponding definitions of Rule.v / RunRule.v.  The copies are tied to
   the originals in Proofs/C17NestedProof.v (on rules without nested arguments they coincide). *)
From Coq Require Import ZArith NArith List Bool String.
From Valida Require Import Py Lang Defs Cond Dsl Path Cast RuleDefs Rule RuleTerms Inst RunRule.
From Valida.Proofs Require Import RuleProof.      (* cond_map only *)
Import ListNotations.
Local Open Scope string_scope.
Local Open Scope list_scope.
Local Open Scope Z_scope.

(* ------------------------------------------------------------------ *)
(* 1. arguments                                                         *)

(* a callable argument: a plain argument (literal or data path), a list / tuple display whose
   items are literals or data paths, or a dict display whose values are literals or data paths.
   A list / tuple / dict argument WITHOUT data paths may be written either way: as the literal
   NA (ALit (VList ..)) or as NItems false [ALit ..; ..]; both resolve to the same value
   (resolve_n_items_lit in Proofs/C17NestedProof.v).
   NDict: the keys are those of a Python dict display, i.e. pairwise distinct (the model does not
   merge duplicates). *)
Inductive narg :=
| NA (a : arg1)
| NItems (tup : bool) (items : list arg1)          (* tup = true: a tuple, false: a list *)
| NDict (kvs : list (pyval * arg1)).

(* the arguments one level down, left to right *)
Definition nitems (n : narg) : list arg1 :=
  match n with
  | NA a => [a]
  | NItems _ items => items
  | NDict kvs => map snd kvs
  end.

Fixpoint resolve_kvs (src : option pyval) (kvs : list (pyval * arg1)) : res (list (pyval * pyval)) :=
  match kvs with
  | [] => Ok []
  | (k, a) :: r => let* v := resolve1 T src a in let* vs := resolve_kvs src r in Ok ((k, v) :: vs)
  end.

(* _resolve_data_paths.  The Python code rebuilds the container only when any(.. is a DataPath ..)
   and returns the argument itself otherwise; for a literal item resolve1 is the identity, so the
   rebuilt container equals the original one and no case split is needed here.
   With src = None (`if not source_data: return self.args, self.kwargs`) resolve1 leaves a path
   object in place as VObj tag: the container then holds the path objects themselves. *)
Definition resolve_n (src : option pyval) (n : narg) : res pyval :=
  match n with
  | NA a => resolve1 T src a
  | NItems tup items =>
      let* vs := mapM (resolve1 T src) items in
      Ok (if tup then VTuple vs else VList vs)
  | NDict kvs =>
      let* d := resolve_kvs src kvs in Ok (VDict d)
  end.

Definition lit_n (v : pyval) : narg := NA (ALit v).

(* conditions without nested arguments *)
Definition emb : cond arg1 -> cond narg := cond_map arg1 narg NA.

(* ------------------------------------------------------------------ *)
(* 2. rules                                                             *)

Record rule_n := {
  rn_path : dpath pyval;
  rn_cond : cond narg;
  rn_cast : list (pytype * castfn)
}.

Definition emb_rule (r : rule) : rule_n :=
  {| rn_path := r_path r; rn_cond := emb (r_cond r); rn_cast := r_cast r |}.

(* RuleTest._test: copy of Rule.judge with resolve_n in place of resolve1 *)
Definition judge_n (r : rule_n) (doc : pyval) : res rtest :=
  let* sel := selection T (rn_path r) doc in
  match sel with
  | [] => Ok {| rt_valid := true; rt_tested := false; rt_failures := []; rt_data := doc |}
  | _ :: _ =>
      let c := rn_cond r in
      let* _ := match c with
                | CLeaf l => match l_kind l with DKey => Err TypeError | _ => Ok tt end
                | _ => Ok tt
                end in
      let* _ := if has_non_value_leaf c then Err TypeError else Ok tt in
      let d := {| d_is_list := true; d_keys := zrange_from 0 (List.length sel); d_vals := map fst sel |} in
      let* f := filter_tree T (resolve_n (Some doc)) c d in
      Ok {| rt_valid := forallb (fun b => b) (fr_result f); rt_tested := true;
            rt_failures := failures_of 0 f sel (fr_result f); rt_data := doc |}
  end.

(* Rule.test(data, _data_copy): copy of Rule.rule_test *)
Definition rule_test_n (r : rule_n) (doc : pyval) (copy : option pyval) : res (rtest * pyval) :=
  let* _ := mk_data doc in
  match rn_cast r with
  | [] => let* t := judge_n r doc in Ok (t, match copy with Some c => c | None => doc end)
  | casts =>
      let cp0 := match copy with Some c => c | None => doc end in
      let* sel := selection T (rn_path r) doc in
      let* cp1 := cast_loop casts sel cp0 in
      let* t := judge_n r cp1 in Ok (t, cp1)
  end.

(* ------------------------------------------------------------------ *)
(* 3. building                                                          *)

(* data-path objects are built (left to right) while the argument expression is evaluated, before
   the constructor that receives the argument is called: the same check as Rule.check_arg, for
   every path inside a list / tuple / dict display (the keys of a dict display are literals) *)
Definition check_narg (n : narg) : res unit := check_args T (nitems n).

Fixpoint check_nargs (l : list narg) : res unit :=
  match l with [] => Ok tt | n :: r => let* _ := check_narg n in check_nargs r end.
Fixpoint check_nkw (l : list (string * narg)) : res unit :=
  match l with [] => Ok tt | (_, n) :: r => let* _ := check_narg n in check_nkw r end.

Fixpoint build_n (t : dslc narg) : res (cond narg) :=
  match t with
  | DLeaf cls m pos kw =>
      let* _ := check_nargs pos in
      let* _ := check_nkw kw in
      let* l := build_leaf T lit_n cls m pos kw in Ok (CLeaf l)
  | DNull => Ok CNull
  | DBin o a b => let* x := build_n a in let* y := build_n b in mk_bin o x y
  end.

Record ruleterm_n := {
  rtn_path : pathterm pyval;
  rtn_cond : dslc narg;
  rtn_cast : list (pytype * castfn)
}.

Definition emb_ruleterm (rt : ruleterm) : ruleterm_n :=
  {| rtn_path := rt_path_t rt; rtn_cond := dslc_map NA (rt_cond_t rt); rtn_cast := rt_cast_t rt |}.

Definition mk_rule_n (t : ruleterm_n) : res rule_n :=
  let* p := mk_path T id0 (rtn_path t) in
  let* c := build_n (rtn_cond t) in
  Ok {| rn_path := p; rn_cond := c; rn_cast := rtn_cast t |}.

(* Rule(path, condition, cast).test(doc) -> (verdict observables, the document judged on):
   the observation of RunRule.run_rule_test *)
Definition run_rule_test_n (rt : ruleterm_n) (doc : pyval) : res pyval :=
  let* r := mk_rule_n rt in
  let* (t, _) := rule_test_n r doc None in
  Ok (VTuple [obs_rtest t; rt_data t]).

(* ------------------------------------------------------------------ *)
(* 4. examples                                                          *)

Definition ex_key_path (k : string) : pathterm pyval :=
  {| pt_parts := [PtPrim (VStr k)]; pt_mods := []; pt_src := None |}.

(* DataPath("xs", ListValue()) *)
Definition ex_xs_items : pathterm pyval :=
  {| pt_parts := [PtPrim (VStr "xs"); PtList None None None None]; pt_mods := []; pt_src := None |}.

(* {"a": 1, "xs": [1, 2, 3]} *)
Definition ex_doc : pyval :=
  VDict [(VStr "a", VInt 1); (VStr "xs", VList [VInt 1; VInt 2; VInt 3])].

(* Rule(DataPath("xs", ListValue()), Value.in_([DataPath("a"), 3])) *)
Definition ex_rule_in_list : ruleterm_n :=
  {| rtn_path := ex_xs_items;
     rtn_cond := DLeaf "Value" "in_" [NItems false [APath 1%N (ex_key_path "a"); ALit (VInt 3)]] [];
     rtn_cast := [] |}.

(* items 1 and 3 pass, item 2 fails *)
Example ex_in_list :
  run_rule_test_n ex_rule_in_list ex_doc
  = Ok (VTuple [VTuple [VBool false; VBool true; VInt 1;
                        VList [VTuple [VInt 1; VInt 2; VTuple [VStr "xs"; VInt 1]; VBool true]]];
                ex_doc]).
Proof. vm_compute. reflexivity. Qed.

(* what the callable receives *)
Example ex_in_list_resolved :
  resolve_n (Some ex_doc) (NItems false [APath 1%N (ex_key_path "a"); ALit (VInt 3)]) = Ok (VList [VInt 1; VInt 3]).
Proof. vm_compute. reflexivity. Qed.

(* Rule(DataPath("xs", ListValue()), Value.in_((DataPath("a"), 3))): the tuple stays a tuple *)
Definition ex_rule_in_tuple : ruleterm_n :=
  {| rtn_path := ex_xs_items;
     rtn_cond := DLeaf "Value" "in_" [NItems true [APath 1%N (ex_key_path "a"); ALit (VInt 3)]] [];
     rtn_cast := [] |}.

Example ex_in_tuple :
  run_rule_test_n ex_rule_in_tuple ex_doc
  = Ok (VTuple [VTuple [VBool false; VBool true; VInt 1;
                        VList [VTuple [VInt 1; VInt 2; VTuple [VStr "xs"; VInt 1]; VBool true]]];
                ex_doc]).
Proof. vm_compute. reflexivity. Qed.

Example ex_in_tuple_resolved :
  resolve_n (Some ex_doc) (NItems true [APath 1%N (ex_key_path "a"); ALit (VInt 3)]) = Ok (VTuple [VInt 1; VInt 3]).
Proof. vm_compute. reflexivity. Qed.

(* the same as a keyword argument: Value.in_(value=[DataPath("a"), 3]) *)
Example ex_in_list_kw :
  run_rule_test_n {| rtn_path := ex_xs_items;
                     rtn_cond := DLeaf "Value" "in_" [] [("value", NItems false [APath 1%N (ex_key_path "a"); ALit (VInt 3)])];
                     rtn_cast := [] |} ex_doc
  = run_rule_test_n ex_rule_in_list ex_doc.
Proof. vm_compute. reflexivity. Qed.

(* {"a": 1, "ms": [{"x": 1}, {"x": 2}]} *)
Definition ex_doc_dict : pyval :=
  VDict [(VStr "a", VInt 1);
         (VStr "ms", VList [VDict [(VStr "x", VInt 1)]; VDict [(VStr "x", VInt 2)]])].

(* Rule(DataPath("ms", ListValue()), Value.equal_to({"x": DataPath("a")})) *)
Definition ex_rule_eq_dict : ruleterm_n :=
  {| rtn_path := {| pt_parts := [PtPrim (VStr "ms"); PtList None None None None]; pt_mods := []; pt_src := None |};
     rtn_cond := DLeaf "Value" "equal_to" [NDict [(VStr "x", APath 1%N (ex_key_path "a"))]] [];
     rtn_cast := [] |}.

(* {"x": 1} passes, {"x": 2} fails *)
Example ex_eq_dict :
  run_rule_test_n ex_rule_eq_dict ex_doc_dict
  = Ok (VTuple [VTuple [VBool false; VBool true; VInt 1;
                        VList [VTuple [VInt 1; VDict [(VStr "x", VInt 2)]; VTuple [VStr "ms"; VInt 1]; VBool true]]];
                ex_doc_dict]).
Proof. vm_compute. reflexivity. Qed.

Example ex_eq_dict_resolved :
  resolve_n (Some ex_doc_dict) (NDict [(VStr "x", APath 1%N (ex_key_path "a"))]) = Ok (VDict [(VStr "x", VInt 1)]).
Proof. vm_compute. reflexivity. Qed.

(* a nested path that is absent from the document resolves to None:
   Rule(DataPath("xs", ListValue()), Value.in_([DataPath("zz"), 3])) on ex_doc: only item 3 passes *)
Definition ex_rule_absent : ruleterm_n :=
  {| rtn_path := ex_xs_items;
     rtn_cond := DLeaf "Value" "in_" [NItems false [APath 1%N (ex_key_path "zz"); ALit (VInt 3)]] [];
     rtn_cast := [] |}.

Example ex_absent_resolved :
  resolve_n (Some ex_doc) (NItems false [APath 1%N (ex_key_path "zz"); ALit (VInt 3)]) = Ok (VList [VNone; VInt 3]).
Proof. vm_compute. reflexivity. Qed.

Example ex_absent :
  run_rule_test_n ex_rule_absent ex_doc
  = Ok (VTuple [VTuple [VBool false; VBool true; VInt 2;
                        VList [VTuple [VInt 0; VInt 1; VTuple [VStr "xs"; VInt 0]; VBool true];
                               VTuple [VInt 1; VInt 2; VTuple [VStr "xs"; VInt 1]; VBool true]]];
                ex_doc]).
Proof. vm_compute. reflexivity. Qed.

(* without source data the path objects stay in place *)
Example ex_no_source :
  resolve_n None (NItems false [APath 7%N (ex_key_path "a"); ALit (VInt 3)]) = Ok (VList [VObj 7%N; VInt 3]).
Proof. vm_compute. reflexivity. Qed.

(* a nested data path whose construction fails is reported when the rule is built:
   DataPath("a").length().length() raises ValueError *)
Example ex_bad_nested_path :
  run_rule_test_n {| rtn_path := ex_xs_items;
                     rtn_cond := DLeaf "Value" "in_"
                                   [NItems false [ALit (VInt 3);
                                                  APath 1%N {| pt_parts := [PtPrim (VStr "a")]; pt_mods := ["length"; "length"]; pt_src := None |}]] [];
                     rtn_cast := [] |} ex_doc
  = Err ValueError.
Proof. vm_compute. reflexivity. Qed.
