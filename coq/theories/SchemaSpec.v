(* Schema(rules) built from a list of rule specs: Schema.init_rules / Schema.from_json_like followed by
   Schema.__init__, which sorts the rules by the length of their paths (sorted(..., key=len(path)): a STABLE sort).
   Schema.__eq__ compares the sorted rule lists element-wise with Rule.__eq__ (rule_tests is None until validate). *)
From Coq Require Import ZArith NArith List Bool String Arith.
From Valida Require Import Py Lang Defs Cond Dsl Path Cast Str SpecDefs RuleDefs Rule Spec SpecIO Eq Inst RunSpec.
Import ListNotations.
Local Open Scope list_scope.

(* a rule object with the given-ness of its cast (None and {} are different objects for Rule.__eq__) *)
Definition robj : Type := (rule * bool)%type.

(* len(rule.path): the number of parts *)
Definition plen (x : robj) : nat := List.length (p_parts (r_path (fst x))).

(* sorted(rules, key=lambda i: len(i.path)): stable, i.e. a rule goes before the rules of the same length that followed it *)
Fixpoint insert_plen (x : robj) (l : list robj) : list robj :=
  match l with
  | [] => [x]
  | y :: r => if Nat.ltb (plen y) (plen x) then y :: insert_plen x r else x :: y :: r
  end.
Definition sort_rules (l : list robj) : list robj := fold_right insert_plen [] l.

(* Rule.from_spec(i) / Rule.from_json_like(i) *)
Definition robj_from_spec (j : pyval) : res robj :=
  let* re := rule_from_spec T X j in
  let* r := mk_rule T (fst re) in Ok (r, rx_cast_given (snd re)).

(* Schema(Schema.init_rules(l)) = Schema.from_json_like(l): the rules are parsed left to right (the first error escapes),
   then sorted *)
Definition schema_of_specs (l : list pyval) : res (list robj) :=
  let* rs := mapM robj_from_spec l in Ok (sort_rules rs).

(* Schema.__eq__ *)
Definition schema_objs_eqb (a b : list robj) : bool :=
  list_eqb (fun x y => rule_eqb T (fst x) (fst y) (snd x) (snd y)) a b.
