(* Entry points for the spec parsers / serialisers. *)
From Coq Require Import ZArith NArith List Bool String Ascii.
From Valida Require Import Py Lang Defs Cond Dsl Check Path Cast Str SpecDefs RuleDefs Rule Spec SpecIO Descr Eq Inst.
From Valida.Gen Require Import SpecGen.
Import ListNotations.
Local Open Scope string_scope.
Local Open Scope list_scope.

Definition X := spec_tabs.

(* ConditionLike.from_spec(spec) -> description of the object *)
Definition run_cond_from_spec (spec : pyval) : res pyval :=
  let* (_, c) := cond1_from_spec T X spec in describe_cond1 T c.

(* the DSL-built object, described *)
Definition run_describe_term (t : dslc arg1) : res pyval :=
  let* c := build1 T t in describe_cond1 T c.

(* cond.to_json_like() of a DSL-built object *)
Definition run_cond_to_json (t : dslc arg1) : res pyval :=
  let* c := build1 T t in cond1_to_json T X c.

(* ContainerValue.from_spec(dict) / DataPath.from_part_specs / DataPath.from_spec -> description *)
Definition run_part_from_spec (spec : pyval) : res pyval :=
  let* d := dict_of_val spec in
  let* t := part_spec_parse T X d in let* (p, _) := mk_part T idlit t in describe_part p.
Definition run_from_part_specs (specs : list pyval) : res pyval :=
  let* t := from_part_specs T X specs in describe_pathterm T t.
Definition run_path_from_spec (spec : pyval) : res pyval :=
  let* r := path_from_spec T X spec in
  match r with
  | inl t => let* d := describe_pathterm T t in Ok (VTuple [VStr "path"; d])
  | inr v => Ok (VTuple [VStr "literal"; v])
  end.

(* DataPath(...).to_part_specs() / to_spec() *)
Definition run_to_part_specs (t : pathterm pyval) : res pyval :=
  let* p := mk_path T idlit t in path_to_part_specs T X p.
Definition run_path_to_spec (t : pathterm pyval) : res pyval :=
  let* p := mk_path T idlit t in path_to_spec T X p.

(* Rule.from_spec(spec) -> (path description, condition description, casts as names, doc) *)
Definition cast_names (casts : list (pytype * castfn)) : pyval :=
  VList (map (fun c => VTuple [VType (fst c); VStr (match snd c with CastStrBool => "cast_string_to_bool" | CastStrInt => "int" end)]) casts).
Definition describe_ruleterm (rt : ruleterm) : res pyval :=
  let* r := mk_rule T rt in
  let* dp := describe_path (r_path r) in
  let* dc := describe_cond1 T (r_cond r) in
  Ok (VTuple [dp; dc; cast_names (r_cast r)]).
Definition run_rule_from_spec (spec : pyval) : res pyval :=
  let* (rt, ex) := rule_from_spec T X spec in
  let* d := describe_ruleterm rt in
  Ok (VTuple [d; VBool (rx_cast_given ex); rx_doc ex]).

(* Rule(...).to_json_like() *)
Definition run_rule_to_json (rt : ruleterm) (cast_given : bool) : res pyval :=
  let* r := mk_rule T rt in rule_to_json T X (r_path r) (r_cond r) (r_cast r) cast_given.

(* DataPath.from_str *)
From Valida Require Import FromStr.
Definition run_from_str (floats : list (string * option pyval)) (s : string) (delim : ascii) : res pyval :=
  let fo := fun tok => match assoc_str tok floats with Some r => r | None => None end in
  describe_pathterm T (path_from_str fo s delim).

(* json.loads(json.dumps(x)) is the identity on x *)
Definition run_json_pure (v : pyval) : res pyval := Ok (VBool (json_pure v)).

(* round trips *)
Definition run_cond_roundtrip (t : dslc arg1) : res pyval :=
  let* c := build1 T t in
  let* j := cond1_to_json T X c in
  let* (_, c2) := cond1_from_spec T X j in
  let* j2 := cond1_to_json T X c2 in
  Ok (VTuple [VBool (json_pure j); VBool (cond1_eqb T c2 c); VBool (py_eq j2 j)]).

(* == on DSL-built conditions / API-built paths / rules (C14) *)
Definition run_cond_eq (a b : dslc arg1) : res pyval :=
  let* x := build1 T a in let* y := build1 T b in Ok (VBool (cond1_eqb T x y)).
Definition run_path_eq (a b : pathterm pyval) : res pyval :=
  let* x := mk_path T idlit a in let* y := mk_path T idlit b in Ok (VBool (path_eqb x y)).
Definition run_rule_eq (a b : ruleterm) (ga gb : bool) : res pyval :=
  let* x := mk_rule T a in let* y := mk_rule T b in Ok (VBool (rule_eqb T x y ga gb)).
