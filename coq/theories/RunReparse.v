(* Entry points for the C16 correspondence: parse the same spec twice, compare the two objects with the model of __eq__.
   (The second parse reads the same spec: the ownership analysis of Properties/C16.v shows the first parse leaves it alone.) *)
From Coq Require Import ZArith NArith List Bool String.
From Valida Require Import Py Lang Defs Cond Dsl Path Cast Str SpecDefs RuleDefs Rule Spec SpecIO Eq Inst RunSpec SchemaSpec.
Import ListNotations.
Local Open Scope string_scope.

(* ConditionLike.from_spec(s) == ConditionLike.from_spec(s) *)
Definition run_reparse_cond (spec : pyval) : res pyval :=
  let* r1 := cond1_from_spec T X spec in
  let* r2 := cond1_from_spec T X spec in
  Ok (VBool (cond1_eqb T (snd r2) (snd r1))).

(* ContainerValue.from_spec(s) == ContainerValue.from_spec(s) *)
Definition run_reparse_part (spec : pyval) : res pyval :=
  let* d := dict_of_val spec in
  let* t := part_spec_parse T X d in let* pb := mk_part T idlit t in
  let* d' := dict_of_val spec in
  let* t' := part_spec_parse T X d' in let* pb' := mk_part T idlit t' in
  Ok (VBool (part_eqb (fst pb') (fst pb))).

(* DataPath.from_spec(s) == DataPath.from_spec(s)  (a path, or the un-escaped literal mapping) *)
Definition run_reparse_path (spec : pyval) : res pyval :=
  let* r := path_from_spec T X spec in
  let* r' := path_from_spec T X spec in
  match r, r' with
  | inl t, inl t' => let* p := mk_path T idlit t in let* p' := mk_path T idlit t' in Ok (VBool (path_eqb p' p))
  | inr v, inr v' => Ok (VBool (py_eq v' v))
  | _, _ => Ok (VBool false)
  end.

(* DataPath.from_part_specs( *l ) twice *)
Definition run_reparse_part_specs (specs : list pyval) : res pyval :=
  let* t := from_part_specs T X specs in let* p := mk_path T idlit t in
  let* t' := from_part_specs T X specs in let* p' := mk_path T idlit t' in
  Ok (VBool (path_eqb p' p)).

(* Rule.from_spec(s) == Rule.from_spec(s) *)
Definition run_reparse_rule (spec : pyval) : res pyval :=
  let* re := rule_from_spec T X spec in let* r := mk_rule T (fst re) in
  let* re' := rule_from_spec T X spec in let* r' := mk_rule T (fst re') in
  Ok (VBool (rule_eqb T r' r (rx_cast_given (snd re')) (rx_cast_given (snd re)))).

(* Schema.from_json_like(l) == Schema.from_json_like(l)  (rules parsed left to right, then sorted by path length), with the
   path lengths of the sorted rules so that the ORDER the schema holds them in is compared too *)
Definition run_reparse_schema (specs : list pyval) : res pyval :=
  let* s := schema_of_specs specs in
  let* s' := schema_of_specs specs in
  Ok (VTuple [VBool (schema_objs_eqb s' s); VList (map (fun x => VInt (Z.of_nat (plen x))) s)]).
