From Coq Require Import ZArith NArith List Bool String.
From Valida Require Import Py Check Html.
Import ListNotations.
(* write_tree_html(tree, anchor_root=..., heading_start_level=..., show_root_heading=...) *)
Definition run_html (anchor : option string) (start : nat) (show_root : bool) (nodes : list tnode) : res pyval :=
  Ok (VStr (write_tree_html anchor start show_root nodes)).
Definition run_balanced (anchor : option string) (start : nat) (show_root : bool) (nodes : list tnode) : res pyval :=
  Ok (VBool (balanced (tree_toks anchor start show_root nodes))).
