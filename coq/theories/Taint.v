(* A small verified static analysis: does a function ever write to an object that belongs to its
   caller?  Used for C16 (parsing a spec does not change the spec) and C08 (validation is read-only).

   The translator abstracts each Python function body to a list of items over named variables:
   straight-line statements (strong updates) and compound statements (if / for / while / try), whose
   nested simple statements may run in any order, any number of times (weak updates).
   This file defines the abstract analysis [safe], a concrete nondeterministic semantics over a heap
   of objects with ownership, and states soundness: a safe function writes to no caller-owned object. *)
From Coq Require Import List Bool String Arith Lia.
Import ListNotations.
Local Open Scope string_scope.
Local Open Scope list_scope.

Definition var := string.

(* what may be reachable from a variable *)
Inductive lvl :=
| Deep     (* nothing reachable from it belongs to the caller (fresh all the way, or immutable) *)
| Shal     (* the object itself is new, its contents may belong to the caller *)
| Ext.     (* may be one of the caller's objects *)

Definition lvl_le (a b : lvl) : bool :=
  match a, b with Deep, _ => true | Shal, (Shal | Ext) => true | Ext, Ext => true | _, _ => false end.
Definition lvl_join (a b : lvl) : lvl :=
  match a, b with Ext, _ | _, Ext => Ext | Shal, _ | _, Shal => Shal | Deep, Deep => Deep end.

Inductive aop :=
| OpFresh (x : var)                              (* x = immutable or brand-new value *)
| OpDeep (x : var) (ys : list var)               (* x = copy.deepcopy(e), e mentioning ys *)
| OpShallow (x : var) (ys : list var)            (* x = dict(e) / list(e) / copy.copy(e) / a display mentioning ys *)
| OpAlias (x : var) (ys : list var)              (* x = something reachable from the ys *)
| OpCopy (x y : var)                             (* x = y: the very same object *)
| OpStore (x : var) (top : bool) (ys : list var). (* mutate x itself (top) or something inside it; new contents come from ys *)

Inductive item :=
| Straight (o : aop)          (* executed exactly once, in sequence *)
| Block (os : list aop).      (* a compound statement: its operations run in any order, any number of times *)

Definition aenv := list (var * lvl).
Fixpoint aget (x : var) (e : aenv) : lvl :=
  match e with [] => Ext | (y, l) :: r => if String.eqb x y then l else aget x r end.
Fixpoint aset (x : var) (l : lvl) (e : aenv) : aenv :=
  match e with
  | [] => [(x, l)]
  | (y, m) :: r => if String.eqb x y then (y, l) :: r else (y, m) :: aset x l r
  end.

Definition join_all (e : aenv) (ys : list var) : lvl := fold_right (fun y a => lvl_join (aget y e) a) Deep ys.
(* something reachable from y: if y is only shallowly fresh, that may be a caller's object *)
Definition inner_lvl (l : lvl) : lvl := match l with Deep => Deep | _ => Ext end.
Definition alias_all (e : aenv) (ys : list var) : lvl := fold_right (fun y a => lvl_join (inner_lvl (aget y e)) a) Deep ys.
Definition all_deep (e : aenv) (ys : list var) : bool := forallb (fun y => match aget y e with Deep => true | _ => false end) ys.

(* every variable that was Deep may now reach non-fresh contents; its own object is still not the caller's *)
Definition degrade (e : aenv) : aenv := map (fun yl => (fst yl, match snd yl with Deep => Shal | l => l end)) e.

(* one operation: new environment, and whether the operation is allowed *)
Definition astep (strong : bool) (e : aenv) (o : aop) : aenv * bool :=
  let upd x l := aset x (if strong then l else lvl_join (aget x e) l) e in
  match o with
  | OpFresh x => (upd x Deep, true)
  | OpDeep x _ => (upd x Deep, true)
  | OpShallow x ys => (upd x (if all_deep e ys then Deep else Shal), true)
  | OpAlias x ys => (upd x (alias_all e ys), true)
  | OpCopy x y => (upd x (aget y e), true)
  | OpStore x top ys =>
      let ok := match aget x e with Deep => true | Shal => top | Ext => false end in
      (if all_deep e ys then e else aset x (lvl_join (aget x e) Shal) (degrade e), ok)
  end.

Fixpoint arun_weak (e : aenv) (os : list aop) : aenv * bool :=
  match os with
  | [] => (e, true)
  | o :: r => let '(e1, ok1) := astep false e o in let '(e2, ok2) := arun_weak e1 r in (e2, ok1 && ok2)
  end.

Definition aenv_eqb (a b : aenv) : bool :=
  forallb (fun yl => match aget (fst yl) b, snd yl with Deep, Deep | Shal, Shal | Ext, Ext => true | _, _ => false end) a
  && forallb (fun yl => match aget (fst yl) a, snd yl with Deep, Deep | Shal, Shal | Ext, Ext => true | _, _ => false end) b.

(* a block is analysed by iterating its operations until the environment is stable; if it is not
   stable after the given number of rounds the block is rejected *)
Fixpoint ablock (rounds : nat) (e : aenv) (os : list aop) : aenv * bool :=
  match rounds with
  | O => (e, false)
  | S n =>
      let '(e1, ok) := arun_weak e os in
      if aenv_eqb e1 e then (e1, ok) else let '(e2, ok2) := ablock n e1 os in (e2, ok && ok2)
  end.

Fixpoint arun (e : aenv) (p : list item) : aenv * bool :=
  match p with
  | [] => (e, true)
  | Straight o :: r => let '(e1, ok1) := astep true e o in let '(e2, ok2) := arun e1 r in (e2, ok1 && ok2)
  | Block os :: r =>
      let '(e1, ok1) := ablock (3 * (List.length e + List.length os) + 3) e os in
      let '(e2, ok2) := arun e1 r in (e2, ok1 && ok2)
  end.

(* a function with the given parameters (caller's objects) and body *)
Record afun := { af_name : string; af_params : list var; af_body : list item }.

Definition safe (f : afun) : bool := snd (arun (map (fun p => (p, Ext)) (af_params f)) (af_body f)).

(* ------------------------------------------------------------------------------------------ *)
(* concrete semantics                                                                          *)

Definition loc := nat.
Record obj := { owned : bool; kids : list loc }.     (* owned: belongs to the caller *)
Definition heap := list obj.
Definition cenv := list (var * option loc).          (* None: an immutable value *)

Fixpoint cget (x : var) (e : cenv) : option (option loc) :=
  match e with [] => None | (y, l) :: r => if String.eqb x y then Some l else cget x r end.

Inductive reach (h : heap) : loc -> loc -> Prop :=
| reach_refl : forall l, reach h l l
| reach_step : forall l m k o, nth_error h l = Some o -> In m (kids o) -> reach h m k -> reach h l k.

(* a location reachable from one of the variables ys *)
Definition from_vars (h : heap) (e : cenv) (ys : list var) (l : loc) : Prop :=
  exists y r, In y ys /\ cget y e = Some (Some r) /\ reach h r l.

Fixpoint set_nth {X} (l : list X) (i : nat) (x : X) : list X :=
  match l, i with [], _ => [] | _ :: r, O => x :: r | y :: r, S j => y :: set_nth r j x end.

Definition cset (x : var) (v : option loc) (e : cenv) : cenv := (x, v) :: e.

(* h' extends h by objects that are not owned by the caller *)
Definition extends (h h' : heap) : Prop :=
  exists fresh, h' = h ++ fresh /\ Forall (fun o => owned o = false) fresh.

(* one concrete step; [w] is the list of locations whose contents were written *)
Inductive cstep : heap -> cenv -> aop -> heap -> cenv -> list loc -> Prop :=
| cs_fresh_imm : forall h e x, cstep h e (OpFresh x) h (cset x None e) []
| cs_fresh_obj : forall h e x, cstep h e (OpFresh x) (h ++ [{| owned := false; kids := [] |}]) (cset x (Some (List.length h)) e) []
| cs_deep : forall h e x ys h' r,
    (* a deep copy: the new objects reach only new objects of the new heap (no dangling contents:
       an earlier version of this rule lacked the upper bound, and the soundness proof exposed it) *)
    extends h h' -> List.length h <= r -> r < List.length h' ->
    (forall l k, List.length h <= l < List.length h' -> reach h' l k -> List.length h <= k < List.length h') ->
    cstep h e (OpDeep x ys) h' (cset x (Some r) e) []
| cs_deep_imm : forall h e x ys, cstep h e (OpDeep x ys) h (cset x None e) []
| cs_shallow : forall h e x ys ks,
    (* a new top-level object whose contents are reachable from the ys *)
    Forall (from_vars h e ys) ks ->
    cstep h e (OpShallow x ys) (h ++ [{| owned := false; kids := ks |}]) (cset x (Some (List.length h)) e) []
| cs_alias : forall h e x ys l, from_vars h e ys l -> cstep h e (OpAlias x ys) h (cset x (Some l) e) []
| cs_alias_imm : forall h e x ys, cstep h e (OpAlias x ys) h (cset x None e) []
| cs_copy : forall h e x y v, cget y e = Some v -> cstep h e (OpCopy x y) h (cset x v e) []
| cs_store : forall (h : heap) (e : cenv) (x : var) (top : bool) (ys : list var) (r l : loc) (o : obj) (ks : list loc),
    cget x e = Some (Some r) ->
    (if top then l = r else reach h r l) ->
    nth_error h l = Some o ->
    (* the new contents: old contents and things reachable from the ys *)
    Forall (fun k => In k (kids o) \/ from_vars h e ys k) ks ->
    cstep h e (OpStore x top ys) (set_nth h l {| owned := owned o; kids := ks |}) e [l]
| cs_store_imm : forall h e x top ys, cget x e = Some None -> cstep h e (OpStore x top ys) h e [].

(* any finite run of the operations of a block, in any order *)
Inductive cblock (os : list aop) : heap -> cenv -> heap -> cenv -> list loc -> Prop :=
| cb_done : forall h e, cblock os h e h e []
| cb_more : forall h e o h1 e1 w1 h2 e2 w2,
    In o os -> cstep h e o h1 e1 w1 -> cblock os h1 e1 h2 e2 w2 -> cblock os h e h2 e2 (w1 ++ w2).

Inductive crun : list item -> heap -> cenv -> heap -> cenv -> list loc -> Prop :=
| cr_nil : forall h e, crun [] h e h e []
| cr_straight : forall o r h e h1 e1 w1 h2 e2 w2,
    cstep h e o h1 e1 w1 -> crun r h1 e1 h2 e2 w2 -> crun (Straight o :: r) h e h2 e2 (w1 ++ w2)
| cr_block : forall os r h e h1 e1 w1 h2 e2 w2,
    cblock os h e h1 e1 w1 -> crun r h1 e1 h2 e2 w2 -> crun (Block os :: r) h e h2 e2 (w1 ++ w2).

(* SOUNDNESS (proved in Proofs/TaintProof.v):
   if [safe f = true] then for every initial heap, every binding of the parameters (to arbitrary
   objects of the heap or to immutable values) and every run of the body, no written location is
   owned by the caller:
     crun (af_body f) h e0 h' e' w -> params_bound f e0 h -> Forall (fun l => owned_at h' l = false) w *)
Definition owned_at (h : heap) (l : loc) : bool :=
  match nth_error h l with Some o => owned o | None => false end.

Definition params_bound (f : afun) (e : cenv) (h : heap) : Prop :=
  forall x v, cget x e = Some (Some v) -> v < List.length h.

(* ------------------------------------------------------------------------------------------ *)
(* functions analysed under an assumption on their parameters (summaries, used for C08)          *)

(* [Ext]: the parameter may be one of the caller's objects (nothing reachable from it may be written);
   [Shal]: it is a new object whose contents may be the caller's (only its top level may be written);
   [Deep]: nothing reachable from it is the caller's (anything below it may be written).
   A call site of a function whose summary is not [Ext] for some parameter is abstracted by the
   translator as an [OpStore] on the corresponding argument. *)
Record sfun := { sf_fun : afun; sf_levels : list lvl }.

Definition senv (s : sfun) : aenv := combine (af_params (sf_fun s)) (sf_levels s).
Definition safe_s (s : sfun) : bool := snd (arun (senv s) (af_body (sf_fun s))).

Definition lvl_is_ext (l : lvl) : bool := match l with Ext => true | _ => false end.
