(* String operations of Layer P used by the spec parsers (ASCII-exact). *)
From Coq Require Import ZArith NArith List Bool String Ascii.
From Valida Require Import Py.
Import ListNotations.
Local Open Scope string_scope.
Local Open Scope list_scope.

(* s.split(sep) for a one-character separator *)
Fixpoint str_split_aux (sep : ascii) (s : string) (cur : string) : list string :=
  match s with
  | EmptyString => [cur]
  | String c r => if Ascii.eqb c sep then cur :: str_split_aux sep r EmptyString
                  else str_split_aux sep r (cur ++ String c EmptyString)%string
  end.
Definition str_split (sep : ascii) (s : string) : list string := str_split_aux sep s EmptyString.

Fixpoint str_drop (n : nat) (s : string) : string :=
  match n, s with O, _ => s | S m, String _ r => str_drop m r | S _, EmptyString => EmptyString end.

(* s.replace(old, new), old non-empty; fuel = length of s *)
Fixpoint str_replace_aux (fuel : nat) (old new s : string) : string :=
  match fuel with
  | O => s
  | S f =>
      match s with
      | EmptyString => EmptyString
      | String c r =>
          if String.prefix old s then (new ++ str_replace_aux f old new (str_drop (String.length old) s))%string
          else String c (str_replace_aux f old new r)
      end
  end.
Definition str_replace (old new s : string) : string :=
  match old with EmptyString => s | _ => str_replace_aux (S (String.length s)) old new s end.

Definition str_join (sep : string) (l : list string) : string := String.concat sep l.
