(* Entry point of property C10 (rule specs) on rules whose condition has data paths nested one level inside a list /
   mapping argument of a callable (NestedArgs.rule_n), for an external harness:

       Rule.from_spec({"path": ["xs", {"type": "list_value"}],
                       "condition": {"value.in": [{"path": ["a", 0]}, 1]},
                       "cast": {"str": "int"}})
         ==  Rule(DataPath("xs", ListValue()), Value.in_([DataPath("a", 0), 1]), cast={str: int})

   Spec side: NestedRuleIO.rule_n_from_spec (Rule.from_spec with ConditionLike.from_spec over narg).
   API side: NestedArgs.mk_rule_n on the rule term with the nargs in place (the input of NestedArgs.run_rule_test_n).
   == : NestedRuleIO.rule_n_eqb (Rule.__eq__: path, condition, cast; `cast=None` and `cast={}` are told apart, so the caller
   says whether the API call was given a cast mapping).
   No proofs here; the theorems are in Proofs/C10NestedProof.v. *)
From Coq Require Import ZArith NArith List Bool String Ascii.
From Valida Require Import Py Lang Defs Cond Dsl Path Cast Str SpecDefs RuleDefs Rule Spec SpecIO Eq Inst RunSpec
  NestedArgs NestedIO NestedRuleIO.
Import ListNotations.
Local Open Scope string_scope.
Local Open Scope list_scope.

(* Rule.from_spec(spec) == Rule(<path>, <condition>, cast=<casts, a mapping iff [given]>)
   (the parser's error if from_spec fails, else the error of the API expression if that fails) *)
Definition run_rule_n_spec (spec : pyval) (rt : ruleterm_n) (given : bool) : res pyval :=
  let* (parsed, ex) := rule_n_from_spec spec in
  let* built := mk_rule_n rt in
  Ok (VBool (rule_n_eqb parsed built (rx_cast_given ex) given)).

(* the same, followed by a test of both rules on a document:
   (==, normalised doc, test of the parsed rule, test of the API-built rule), observation of NestedRuleIO.obs_test_n *)
Definition run_rule_n_spec_test (spec : pyval) (rt : ruleterm_n) (given : bool) (doc : pyval) : res pyval :=
  let* (parsed, ex) := rule_n_from_spec spec in
  let* built := mk_rule_n rt in
  Ok (VTuple [VBool (rule_n_eqb parsed built (rx_cast_given ex) given); rx_doc ex;
              obs_test_n (rule_test_n parsed doc None); obs_test_n (rule_test_n built doc None)]).
