(* Layer P extension shared by the rule model and the rule specification: int(str), the two
   cast functions, and the functional form of an in-place write along a concrete path. *)
From Coq Require Import ZArith NArith List Bool String Ascii Lia.
From Valida Require Import Py.
Import ListNotations.
Local Open Scope string_scope.
Local Open Scope list_scope.
Local Open Scope Z_scope.

Inductive castfn := CastStrBool | CastStrInt.

(* ---- str -> int as Python's int(str) (ASCII) ---- *)

Definition is_ws (c : ascii) : bool :=
  let n := N_of_ascii c in (n =? 32)%N || ((9 <=? n)%N && (n <=? 13)%N).
Fixpoint lstrip (s : string) : string :=
  match s with String c r => if is_ws c then lstrip r else s | EmptyString => s end.
Fixpoint str_rev_aux (s acc : string) : string :=
  match s with EmptyString => acc | String c r => str_rev_aux r (String c acc) end.
Definition str_rev (s : string) : string := str_rev_aux s EmptyString.
Definition str_strip (s : string) : string := str_rev (lstrip (str_rev (lstrip s))).

Definition digit_of (c : ascii) : option Z :=
  let n := N_of_ascii c in if (48 <=? n)%N && (n <=? 57)%N then Some (Z.of_N (n - 48)) else None.

(* digits with single underscores between digits; prev: was the previous character a digit? *)
Fixpoint parse_digits (s : string) (acc : Z) (prev_digit : bool) : option Z :=
  match s with
  | EmptyString => if prev_digit then Some acc else None
  | String c r =>
      match digit_of c with
      | Some d => parse_digits r (acc * 10 + d) true
      | None => if (N_of_ascii c =? 95)%N && prev_digit
                then match r with
                     | String c2 _ => match digit_of c2 with Some _ => parse_digits r acc false | None => None end
                     | EmptyString => None
                     end
                else None
      end
  end.

Definition int_of_str (s : string) : option Z :=
  match str_strip s with
  | String "+" r => parse_digits r 0 false
  | String "-" r => option_map Z.opp (parse_digits r 0 false)
  | r => parse_digits r 0 false
  end.

Definition apply_cast (f : castfn) (v : pyval) : res pyval :=
  match f, v with
  | CastStrBool, VStr s =>
      let l := str_lower s in
      if String.eqb l "true" then Ok (VBool true)
      else if String.eqb l "false" then Ok (VBool false) else Err TypeError
  | CastStrBool, _ => Err AttributeError
  | CastStrInt, VStr s => match int_of_str s with Some z => Ok (VInt z) | None => Err ValueError end
  | CastStrInt, _ => Err TypeError
  end.

(* ---- set_datum: write along a concrete path (in the private copy) ---- *)

Fixpoint dict_set (k v : pyval) (d : list (pyval * pyval)) : option (list (pyval * pyval)) :=
  match d with
  | [] => None
  | (k2, v2) :: r => if py_eq k k2 then Some ((k2, v) :: r)
                     else match dict_set k v r with Some r' => Some ((k2, v2) :: r') | None => None end
  end.

Fixpoint list_set {X} (l : list X) (i : nat) (x : X) : option (list X) :=
  match l, i with
  | [], _ => None
  | _ :: r, O => Some (x :: r)
  | y :: r, S j => match list_set r j x with Some r' => Some (y :: r') | None => None end
  end.

Definition norm_index {X} (l : list X) (k : pyval) : option nat :=
  match int_of k with
  | Some i => let n := Z.of_nat (List.length l) in
              let j := if i <? 0 then i + n else i in
              if (j <? 0) || (n <=? j) then None else Some (Z.to_nat j)
  | None => None
  end.

(* the document with the node at path cp replaced by x; None: the path does not exist *)
Fixpoint set_at (v : pyval) (cp : list pyval) (x : pyval) : option pyval :=
  match cp with
  | [] => Some x
  | k :: r =>
      match v with
      | VDict d =>
          match dict_look k d with
          | Some child => match set_at child r x with
                          | Some child' => option_map VDict (dict_set k child' d)
                          | None => None
                          end
          | None => None
          end
      | VList l =>
          match norm_index l k with
          | Some i => match nth_error l i with
                      | Some child => match set_at child r x with
                                      | Some child' => option_map VList (list_set l i child')
                                      | None => None
                                      end
                      | None => None
                      end
          | None => None
          end
      | _ => None
      end
  end.


(* the node at a concrete path (Python subscripting along the path) *)
Fixpoint get_at (v : pyval) (cp : list pyval) : option pyval :=
  match cp with
  | [] => Some v
  | k :: r =>
      match v with
      | VDict d => match dict_look k d with Some x => get_at x r | None => None end
      | VList l => match norm_index l k with
                   | Some i => match nth_error l i with Some x => get_at x r | None => None end
                   | None => None
                   end
      | _ => None
      end
  end.

(* The value a failure item shows once validation is over.  A rule with casts is judged on the shared copy; a container
   value in a failure is a live reference into that copy and shows its final state -- except the document itself when it
   is a mapping: Data re-wraps the entries of a dict, so the failure holds a NEW dict of the entries as they were when the
   rule was judged (an entry that is itself a container is still a live reference). *)
Definition refreshed_value (final v : pyval) (cp : list pyval) : pyval :=
  match v, cp with
  | VDict d, [] =>
      VDict (map (fun kv => match snd kv with
                            | VList _ | VDict _ => match get_at final [fst kv] with Some v' => (fst kv, v') | None => kv end
                            | _ => kv
                            end) d)
  | VDict _, _ :: _ | VList _, _ => match get_at final cp with Some v' => v' | None => v end
  | _, _ => v
  end.
