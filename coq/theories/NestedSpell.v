(* The spec spelling of DSL leaves / trees whose ONE-parameter callables receive a LIST with data paths among its items, or a
   MAPPING with data paths among its values (NestedArgs.narg: NItems false / NDict), and the entry point of property C09 on
   them for an external harness:

       ConditionLike.from_spec({"value.in": [{"path": ["a", 0]}, 1, {"\path": 2}]})
         ==  Value.in_([DataPath("a", 0), 1, {"path": 2}])

   Spec side: what a user writes for the term (the spec language of valida/conditions.py, ConditionLike.from_spec):
     - an item that is a data path: the path's spec, i.e. what DataPath.to_spec() writes for the path object (path_spec);
     - a literal item: the literal; a mapping literal with "path" inside one of its keys must be escaped ("path" -> "\path")
       since from_spec would otherwise try to read it as a path spec (lit_item_spec);
     - the argument: the list of the item specs / the mapping key -> item spec (narg_spec);
     - the leaf: {"<label>.<callable>": argument}; trees: {"and" / "or" / "xor": [left, right]}, {} for the null condition.
   DSL side: NestedArgs.build_n on the term with the nargs in place.

   The leaves / trees are the typed ones of DocSem (scls / dsl / qtree) in which an argument [VObj k] is a PLACEHOLDER for
   the k-th entry of a list [nas] of nargs (the convention of Proofs/C11NestedProof.v: nsub below is its subn).
   No proofs here; the theorems are in Proofs/C09NestedProof.v. *)
From Coq Require Import ZArith NArith List Bool String Ascii.
From Valida Require Import Py Lang Defs Cond Dsl DocSem Path Cast Str SpecDefs RuleDefs RuleTerms Rule Spec SpecIO SpecSpell Eq Inst
  RunSpec NestedArgs NestedIO.
Import ListNotations.
Local Open Scope string_scope.
Local Open Scope list_scope.

(* ------------------------------------------------------------------ *)
(* 1. items and arguments                                               *)

(* the spec of a data path: DataPath(...).to_spec() *)
Definition path_spec (t : pathterm pyval) : pyval :=
  match (let* p := mk_path T idlit t in path_to_spec T X p) with Ok j => j | Err _ => VNone end.

(* a literal item of a list argument / value of a mapping argument *)
Definition lit_item_spec (v : pyval) : pyval := match v with VDict d => escape_map d | _ => v end.

Definition item_spec (a : arg1) : pyval :=
  match a with ALit v => lit_item_spec v | APath _ t => path_spec t end.

Definition kv_spec (kv : pyval * arg1) : pyval * pyval := (fst kv, item_spec (snd kv)).

(* a literal argument: mappings are escaped at the places from_spec inspects *)
Definition lit_arg_spec (v : pyval) : pyval :=
  match v with
  | VList l => VList (map lit_item_spec l)
  | VDict d => if has_path_key d then escape_map d else VDict (map (fun kv => (fst kv, lit_item_spec (snd kv))) d)
  | _ => v
  end.

(* the argument of a one-parameter callable.  A tuple display has no spelling of its own (JSON has no tuples): it is
   spelled as a list -- and a TUPLE value given to from_spec with a path spec inside is refused (TypeError), see
   Proofs/C09NestedProof.v *)
Definition narg_spec (n : narg) : pyval :=
  match n with
  | NA (ALit v) => lit_arg_spec v
  | NA (APath _ t) => path_spec t
  | NItems _ items => VList (map item_spec items)
  | NDict kvs => VDict (map kv_spec kvs)
  end.

(* ------------------------------------------------------------------ *)
(* 2. leaves                                                            *)

(* the two cases spelled out, for ANY key *)
Definition nlist_spec (key : string) (items : list arg1) : pyval := VDict [(VStr key, VList (map item_spec items))].
Definition ndict_spec (key : string) (kvs : list (pyval * arg1)) : pyval := VDict [(VStr key, VDict (map kv_spec kvs))].

(* the canonical key `<label>.<callable>` *)
Definition nleaf_key (c : scls) (q : dsl) : string := scls_label c ++ "." ++ q_method q.

(* the DSL term: <Class>.<callable>(argument) *)
Definition nleaf_term (c : scls) (q : dsl) (n : narg) : dslc narg := DLeaf (scls_name c) (q_method q) [n] [].

(* placeholders *)
Definition nsub (nas : list narg) (v : pyval) : narg :=
  match v with
  | VObj k => match nth_error nas (N.to_nat k) with Some n => n | None => lit_n v end
  | _ => lit_n v
  end.

(* the only argument of a one-parameter callable *)
Definition q_one_arg (q : dsl) : option pyval :=
  match q with
  | Q_equal_to v | Q_not_equal_to v | Q_less_than v | Q_greater_than v | Q_less_than_or_equal_to v
  | Q_greater_than_or_equal_to v | Q_in v | Q_not_in v | Q_factor_of v | Q_has_factor v | Q_keys_contain v
  | Q_keys_contain_at_least_one_of v | Q_keys_contain_at_most_one_of v => Some v
  | _ => None
  end.

(* the spec of a typed leaf whose argument stands for an entry of [nas] *)
Definition nleaf_spec (nas : list narg) (c : scls) (q : dsl) : pyval :=
  VDict [(VStr (nleaf_key c q), match q_one_arg q with Some v => narg_spec (nsub nas v) | None => VNone end)].

(* ------------------------------------------------------------------ *)
(* 3. trees                                                             *)

Fixpoint ntree_spec (nas : list narg) (t : qtree) : pyval :=
  match t with
  | QLeaf c q => nleaf_spec nas c q
  | QNull => VDict []
  | QBin o a b => VDict [(VStr (bop_name o), VList [ntree_spec nas a; ntree_spec nas b])]
  end.

(* the DSL expression: the typed tree with the nargs in place of their placeholders *)
Definition ntree_term (nas : list narg) (t : qtree) : dslc narg := dslc_map (nsub nas) (qterm t).

(* ------------------------------------------------------------------ *)
(* 4. entry point for a harness                                         *)

(* ConditionLike.from_spec(spec) == <the DSL expression t>
   (the parser's error if from_spec fails, else the error of the DSL expression if that fails) *)
Definition run_c09n (spec : pyval) (t : dslc narg) : res pyval :=
  let* tc := condn_from_spec spec in
  let* built := build_n t in
  Ok (VBool (condn_eqb (snd tc) built)).
