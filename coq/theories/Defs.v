(* Types shared by the generated tables (Gen/*.v), the model and the specifications. *)
From Coq Require Import ZArith NArith List Bool String.
From Valida Require Import Py Lang.
Import ListNotations.
Local Open Scope string_scope.

Inductive dkind := DValue | DKey | DIndex.
Inductive preproc := PNone | PLen | PType.
Inductive bop := BoAnd | BoOr | BoXor.

Definition dkind_eqb (a b : dkind) : bool :=
  match a, b with DValue, DValue | DKey, DKey | DIndex, DIndex => true | _, _ => false end.
Definition preproc_eqb (a b : preproc) : bool :=
  match a, b with PNone, PNone | PLen, PLen | PType, PType => true | _, _ => false end.
Definition bop_eqb (a b : bop) : bool :=
  match a, b with BoAnd, BoAnd | BoOr, BoOr | BoXor, BoXor => true | _, _ => false end.

(* ---- DSL constructor table (generated from GeneralCallables / MapCallables) ---- *)

(* how a DSL constructor hands one of its own parameters to `cls(callable, ...)` *)
Inductive store :=
| StPos (p : string)          (* cls(f, p)        *)
| StKw (k p : string)         (* cls(f, k=p)      *)
| StStar (p : string)         (* cls(f, *p)       *)
| StDStar (p : string).       (* cls(f, **p)      *)

Record ctor := {
  c_name : string;
  c_params : list (string * option pyval);    (* positional-or-keyword parameters with defaults *)
  c_vararg : option string;
  c_kwarg : option string;
  c_target : string;                          (* name of the function in callables.py *)
  c_store : list store
}.

(* a condition class: Value, ValueLength, ..., Index *)
Record cclass := {
  k_name : string;
  k_kind : dkind;
  k_pre : preproc;
  k_general : bool;       (* exposes GeneralCallables *)
  k_map : bool;           (* exposes MapCallables *)
  k_label : string;       (* js_like_label *)
  k_length : option string;
  k_dtype : option string
}.

Record tables := {
  t_defs : list fdef;                       (* callables.py *)
  t_general : list ctor;
  t_map : list ctor;
  t_aliases : list (string * string);       (* eq = equal_to ... *)
  t_classes : list cclass;
  t_caught_pre : list string;               (* except clause around the pre-processor *)
  t_caught_call : list string               (* except clause around the callable *)
}.

(* ---- conditions -------------------------------------------------------------- *)

Section Conds.
  Variable A : Type.     (* callable arguments: literals, or literals and data paths *)

  Record leaf := {
    l_cls : string;                 (* class name; "NullCondition" for the null condition *)
    l_kind : dkind;
    l_pre : preproc;
    l_call : string;                (* callable name *)
    l_args : list A;
    l_kwargs : list (string * A)
  }.

  Inductive cond :=
  | CLeaf (l : leaf)
  | CBin (o : bop) (a b : cond).
End Conds.
Arguments l_cls {A}. Arguments l_kind {A}. Arguments l_pre {A}. Arguments l_call {A}.
Arguments l_args {A}. Arguments l_kwargs {A}.
Arguments CLeaf {A}. Arguments CBin {A}.
Arguments Build_leaf {A}.

Definition null_leaf {A} : leaf A :=
  {| l_cls := "NullCondition"; l_kind := DValue; l_pre := PNone; l_call := "null"; l_args := []; l_kwargs := [] |}.
Definition CNull {A} : cond A := CLeaf null_leaf.
Definition is_null_leaf {A} (l : leaf A) : bool := String.eqb (l_cls l) "NullCondition".
Definition is_null {A} (c : cond A) : bool := match c with CLeaf l => is_null_leaf l | _ => false end.

(* DSL terms: what the harness and the theorems quantify over *)
Inductive dslc (A : Type) :=
| DLeaf (cls method : string) (pos : list A) (kw : list (string * A))
| DNull
| DBin (o : bop) (a b : dslc A).
Arguments DLeaf {A}. Arguments DNull {A}. Arguments DBin {A}.

(* path terms: how parts and paths are written with the Python API *)
Section PathTerms.
  Variable A : Type.
  (* a key= / index= / value= / condition= argument: a raw value or a condition *)
  Inductive carg := KLit (v : pyval) | KCond (c : dslc A).

  Inductive pterm :=
  | PtPrim (v : pyval)
  | PtMap (key value cnd : option carg) (label : option pyval)
  | PtList (index value cnd : option carg) (label : option pyval)
  | PtMol (key index value lcnd mcnd cnd : option carg) (label : option pyval).

  Record pathterm := {
    pt_parts : list pterm;
    pt_mods : list string;          (* modifier methods applied in this order: "length", "first", ... *)
    pt_src : option pyval
  }.
End PathTerms.
Arguments KLit {A}. Arguments KCond {A}.
Arguments PtPrim {A}. Arguments PtMap {A}. Arguments PtList {A}. Arguments PtMol {A}.
Arguments pt_parts {A}. Arguments pt_mods {A}. Arguments pt_src {A}. Arguments Build_pathterm {A}.
