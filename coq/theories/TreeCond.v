(* Model of how the per-rule facts of Tree.v ([rf_keys], the type-like conditions) come from the rule's CONDITION:
   ConditionLike.flatten, ConditionLike.get_always_applicable_key_conditions,
   ConditionLike.get_always_applicable_type_like_conditions (valida/conditions.py) and the double loop over
   `key_cnd.callable.args` in Schema.to_tree (valida/schema.py).  Definitions only; the theorems are in
   Proofs/TreeCondProof.v. *)
From Coq Require Import ZArith NArith List Bool String.
From Valida Require Import Py Lang Defs Cond Dsl Path Cast RuleDefs Rule Descr Tree Inst.
Import ListNotations.
Local Open Scope string_scope.
Local Open Scope list_scope.

Section TC.
  Variable A : Type.

  (* ConditionLike.flatten(): (all_cnds, all_ops).
       for idx, cnd_i in enumerate(self.children):
           all_cnds.extend(cnd_i.flatten()[0]); all_ops.extend(cnd_i.flatten()[1])
           if idx == 0: all_ops.append(self.FLATTEN_SYMBOL)
     a Condition (also the NullCondition) has no `children`: AttributeError, all_cnds.append(self). *)
  Fixpoint flatten (c : cond A) : list (leaf A) * list bop :=
    match c with
    | CLeaf l => ([l], [])
    | CBin o a b =>
        let fa := flatten a in
        let fb := flatten b in
        (fst fa ++ fst fb, snd fa ++ [o] ++ snd fb)
    end.

  (* `not binary_ops or set(binary_ops) == {"and"}`: for an empty list the second disjunct is false and the first true;
     for a non-empty list the set is {"and"} iff every member is "and" *)
  Definition is_and (o : bop) : bool := match o with BoAnd => true | _ => false end.
  Definition always_applicable (c : cond A) : bool :=
    match snd (flatten c) with
    | [] => true
    | ops => forallb is_and ops
    end.

  (* get_always_applicable_key_conditions *)
  Definition is_key_call (l : leaf A) : bool :=
    String.eqb (l_call l) "allowed_keys" || String.eqb (l_call l) "required_keys".
  Definition always_key_leaves (c : cond A) : list (leaf A) :=
    if always_applicable c then filter is_key_call (fst (flatten c)) else [].

  (* to_tree:  for key_cnd in key_cnds: for key in key_cnd.callable.args: ... (key_cnd.callable.name == "required_keys") *)
  Definition leaf_key_facts (l : leaf A) : list (A * bool) :=
    map (fun k => (k, String.eqb (l_call l) "required_keys")) (l_args l).
  Definition key_facts (c : cond A) : list (A * bool) :=
    flat_map leaf_key_facts (always_key_leaves c).

  (* get_always_applicable_type_like_conditions: the if / elif chain.  The condition classes KeyDataType, ValueDataType,
     ValueLength and Value are pairwise unrelated by inheritance, so isinstance is a test on the class name. *)
  Inductive tl_side := TlKey | TlValue | TlNeither.
  Definition type_like_side (l : leaf A) : tl_side :=
    if String.eqb (l_cls l) "KeyDataType" then TlKey
    else if String.eqb (l_cls l) "ValueDataType" then TlValue
    else if String.eqb (l_cls l) "ValueLength" then TlValue
    else if String.eqb (l_cls l) "Value" && String.eqb (l_call l) "is_instance" then TlValue
    else if String.eqb (l_cls l) "Value" && String.eqb (l_call l) "in_" then TlValue
    else if String.eqb (l_cls l) "Value" && String.eqb (l_call l) "keys_is_instance" then TlKey
    else TlNeither.
  Definition is_tl_key (l : leaf A) : bool := match type_like_side l with TlKey => true | _ => false end.
  Definition is_tl_value (l : leaf A) : bool := match type_like_side l with TlValue => true | _ => false end.
  (* (out["key_data_type"], out["value_data_type"]) *)
  Definition type_like (c : cond A) : list (leaf A) * list (leaf A) :=
    if always_applicable c
    then (filter is_tl_key (fst (flatten c)), filter is_tl_value (fst (flatten c)))
    else ([], []).
End TC.
Arguments flatten {A}. Arguments is_and o : simpl never. Arguments always_applicable {A}.
Arguments is_key_call {A}. Arguments always_key_leaves {A}. Arguments leaf_key_facts {A}. Arguments key_facts {A}.
Arguments type_like_side {A}. Arguments is_tl_key {A}. Arguments is_tl_value {A}. Arguments type_like {A}.

(* ---- the entry point of the correspondence check ------------------------------------------------------------

   run_always t  builds the DSL term t (exactly as RunSpec.run_describe_term does: Rule.build1 T) and returns

     VTuple [ VList [ VTuple [key; VBool isreq] ... ] ;          key_facts
              VList [ D(leaf) ... ] ;                            type_like -> "key_data_type"
              VList [ D(leaf) ... ] ]                            type_like -> "value_data_type"

   where
     key / an argument a   is  V(a):  the literal itself when a is a literal;  when a is a DataPath object it is
                           VTuple [VStr "path"; describe_pathterm ...] as in Descr.darg1 (the description used by
                           run_describe_term), and VNone if that description fails (it cannot after build1 succeeded);
     D(leaf)               is  VTuple [ VStr type(c).__name__ ; VStr c.callable.name ;
                                        VList [V(a) for a in c.callable.args] ;
                                        VList [VTuple [VStr k; V(v)] for k, v in c.callable.kwargs.items()] ].
   Python side:
     c = <the condition>;  kc = c.get_always_applicable_key_conditions();  tl = c.get_always_applicable_type_like_conditions()
     ( [ (key, kc_i.callable.name == "required_keys") for kc_i in kc for key in kc_i.callable.args ],
       [ D(i) for i in tl["key_data_type"] ],  [ D(i) for i in tl["value_data_type"] ] )                              *)
Definition arg_val (a : arg1) : pyval :=
  match a with
  | ALit v => v
  | APath _ _ => match darg1 T a with Ok v => v | Err _ => VNone end
  end.
Definition leaf_val (l : leaf arg1) : pyval :=
  VTuple [ VStr (l_cls l); VStr (l_call l);
           VList (map arg_val (l_args l));
           VList (map (fun ka => VTuple [VStr (fst ka); arg_val (snd ka)]) (l_kwargs l)) ].
Definition always_val (c : cond arg1) : pyval :=
  VTuple [ VList (map (fun kb => VTuple [arg_val (fst kb); VBool (snd kb)]) (key_facts c));
           VList (map leaf_val (fst (type_like c)));
           VList (map leaf_val (snd (type_like c))) ].
Definition run_always (t : dslc arg1) : res pyval :=
  let* c := build1 T t in Ok (always_val c).

(* ---- examples ---------------------------------------------------------------------------------------------- *)
Definition ex_leaf (cls call : string) (args : list pyval) : leaf pyval :=
  {| l_cls := cls; l_kind := DValue; l_pre := PNone; l_call := call; l_args := args; l_kwargs := [] |}.
Definition ex_a := ex_leaf "Value" "required_keys" [VStr "a"; VStr "b"].
Definition ex_b := ex_leaf "Value" "allowed_keys" [VStr "a"; VStr "c"].
Definition ex_c := ex_leaf "ValueDataType" "equal_to" [VType TDict].
Definition ex_d := ex_leaf "Value" "required_keys" [VStr "d"].

(* a single leaf *)
Example flatten_leaf : flatten (CLeaf ex_a) = ([ex_a], []) /\ key_facts (CLeaf ex_a) = [(VStr "a", true); (VStr "b", true)].
Proof. vm_compute. split; reflexivity. Qed.

(* (a & b) & c and a & (b & c): the same conditions and the same symbols *)
Example flatten_and_left :
  flatten (CBin BoAnd (CBin BoAnd (CLeaf ex_a) (CLeaf ex_b)) (CLeaf ex_c)) = ([ex_a; ex_b; ex_c], [BoAnd; BoAnd])
  /\ key_facts (CBin BoAnd (CBin BoAnd (CLeaf ex_a) (CLeaf ex_b)) (CLeaf ex_c))
     = [(VStr "a", true); (VStr "b", true); (VStr "a", false); (VStr "c", false)]
  /\ type_like (CBin BoAnd (CBin BoAnd (CLeaf ex_a) (CLeaf ex_b)) (CLeaf ex_c)) = ([], [ex_c]).
Proof. vm_compute. repeat split; reflexivity. Qed.
Example flatten_and_right :
  flatten (CBin BoAnd (CLeaf ex_a) (CBin BoAnd (CLeaf ex_b) (CLeaf ex_c))) = ([ex_a; ex_b; ex_c], [BoAnd; BoAnd])
  /\ key_facts (CBin BoAnd (CLeaf ex_a) (CBin BoAnd (CLeaf ex_b) (CLeaf ex_c)))
     = key_facts (CBin BoAnd (CBin BoAnd (CLeaf ex_a) (CLeaf ex_b)) (CLeaf ex_c)).
Proof. vm_compute. split; reflexivity. Qed.

(* where the symbol goes: after the symbols of the FIRST child *)
Example flatten_symbol_order :
  snd (flatten (CBin BoOr (CBin BoAnd (CLeaf ex_a) (CLeaf ex_b)) (CBin BoXor (CLeaf ex_c) (CLeaf ex_d)))) = [BoAnd; BoOr; BoXor].
Proof. vm_compute. reflexivity. Qed.

(* an `or` deep in the tree: nothing is always applicable, not even the conditions that are and-ed at the top *)
Example deep_or_inapplicable :
  let c := CBin BoAnd (CLeaf ex_a) (CBin BoAnd (CLeaf ex_c) (CBin BoOr (CLeaf ex_b) (CLeaf ex_d))) in
  always_applicable c = false /\ key_facts c = [] /\ type_like c = ([], [])
  /\ fst (flatten c) = [ex_a; ex_c; ex_b; ex_d].
Proof. vm_compute. repeat split; reflexivity. Qed.

(* the null condition: a leaf, no symbol, no key condition (its callable is `null`) *)
Example null_condition :
  flatten (@CNull pyval) = ([null_leaf], []) /\ always_applicable (@CNull pyval) = true
  /\ key_facts (@CNull pyval) = [] /\ type_like (@CNull pyval) = ([], []).
Proof. vm_compute. repeat split; reflexivity. Qed.

(* run_always on DSL terms:  Value.required_keys("a", "b") & Value.dtype.equal_to(dict) & Value.in_([1, 2])  *)
Example run_always_and :
  run_always (DBin BoAnd (DBin BoAnd (DLeaf "Value" "required_keys" [ALit (VStr "a"); ALit (VStr "b")] [])
                                     (DLeaf "ValueDataType" "eq" [ALit (VType TDict)] []))
                         (DLeaf "Value" "in_" [ALit (VList [VInt 1; VInt 2])] []))
  = Ok (VTuple [ VList [VTuple [VStr "a"; VBool true]; VTuple [VStr "b"; VBool true]];
                 VList [];
                 VList [ VTuple [VStr "ValueDataType"; VStr "equal_to"; VList []; VList [VTuple [VStr "value"; VType TDict]]];
                         VTuple [VStr "Value"; VStr "in_"; VList []; VList [VTuple [VStr "value"; VList [VInt 1; VInt 2]]]] ] ]).
Proof. vm_compute. reflexivity. Qed.

(* ... | Value.allowed_keys("c"): nothing applies;   NullCondition & x  is x *)
Example run_always_or :
  run_always (DBin BoOr (DLeaf "Value" "required_keys" [ALit (VStr "a")] []) (DLeaf "Value" "allowed_keys" [ALit (VStr "c")] []))
  = Ok (VTuple [VList []; VList []; VList []]).
Proof. vm_compute. reflexivity. Qed.
Example run_always_null :
  run_always (DBin BoOr DNull (DLeaf "Value" "keys_is_instance" [ALit (VType TStr)] []))
  = Ok (VTuple [VList []; VList [VTuple [VStr "Value"; VStr "keys_is_instance"; VList [VType TStr]; VList []]]; VList []]).
Proof. vm_compute. reflexivity. Qed.
