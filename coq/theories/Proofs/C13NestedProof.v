(* C13 extended to rules whose condition has data paths NESTED one level inside a list / mapping argument of a
   one-parameter callable: Rule(path, Value.in_([DataPath("a", 0), 1]), cast={str: int}).
   C13PathProof composes the rule theorems with C11PathProof (data paths as arguments); here they are composed once more
   with C11NestedProof.C11N_roundtrip_modular (fragment tree_in_c11n) on the model NestedRuleIO.v
   (rule_n_to_json / rule_n_from_spec / rule_n_eqb) of rules over NestedArgs.narg.

   As in C13PathProof the condition read back holds the path TERMS read back from the written specs (path_back) and a
   display without any data path comes back as the literal container it denotes (C11NestedProof.back_n), so the rule
   rebuilt is not the record r but
        r' = {| rn_path := rn_path r; rn_cond := condn_back nas t; rn_cast := rn_cast r |}          (rule_n_back)
   which is == to r, tests every document exactly as r does and is serialised to the same JSON data again.

   Main theorems: C13N_rule_roundtrip_gen (all clauses; C13N_rule_roundtrip_modular: modular in the leaves),
   C13N_rule_roundtrip (path in the C12 fragment),
   C13N_rule_same_behaviour, C13N_rule_eq, C13N_cond_is_built / C13N_rule_is_built (the rule IS the one the API builds),
   C13N_rule_roundtrip_api, C13N_schema. *)
From Coq Require Import ZArith NArith List Bool String Ascii Lia.
From Valida Require Import Py Lang Defs Cond Dsl Check DocSem Path PathSpec Cast Str SpecDefs RuleDefs RuleTerms
  Spec SpecIO SpecSpell Eq Inst RunSpec Rule NestedArgs NestedIO NestedRuleIO.
From Valida.Proofs Require Import PyFacts Tie C01Proof C02Proof RuleProof C09Proof C11Proof C11EscProof C12Proof C14Proof
  C13Proof C13Glue C11PathProof C13PathProof C11NestedProof.
From Valida Require Import Rule SpecSpell NestedIO NestedRuleIO.
Import ListNotations.
Local Open Scope string_scope.
Local Open Scope list_scope.

(* ================================================================== *)
(* 1. the rules of the fragment                                         *)

(* the condition: a typed tree in which the argument position holding VObj k stands for the k-th narg of [nas]
   (C11NestedProof section 4) *)
Definition condn_of (nas : list narg) (t : qtree) : cond narg := cmapN nas (cond_of (qnorm t)).

(* the condition read back: the same tree over the nargs read back *)
Definition condn_back (nas : list narg) (t : qtree) : cond narg := cmapN (backs_n nas) (cond_of (qnorm t)).

(* the rule: built path, condition of the fragment, casts *)
Definition c13n_rule (p : dpath pyval) (nas : list narg) (t : qtree) (casts : list (pytype * castfn)) : rule_n :=
  {| rn_path := p; rn_cond := condn_of nas t; rn_cast := casts |}.

(* the rule read back *)
Definition rule_n_back (nas : list narg) (t : qtree) (r : rule_n) : rule_n :=
  {| rn_path := rn_path r; rn_cond := condn_back nas t; rn_cast := rn_cast r |}.

(* ================================================================== *)
(* 2. the nargs read back resolve alike against every document          *)

(* every data path of the argument (the argument itself, an item, a value) round-trips (C11PathProof.path_good) *)
Definition item_good1 (a : arg1) : Prop := match a with ALit _ => True | APath _ t => path_good t end.
Definition paths_good_n (n : narg) : Prop := Forall item_good1 (nitems n).

Lemma item_ok1_good a : item_ok1 a -> item_good1 a.
Proof. destruct a as [v|tag t]; cbn [item_ok1 item_good1]; intros H; [exact I|exact H]. Qed.

Lemma narg_ok_paths_good n : narg_ok n -> paths_good_n n.
Proof.
  unfold paths_good_n. destruct n as [[v|tag t]|tup items|kvs]; cbn [narg_ok nitems]; intros H.
  - destruct H.
  - constructor; [exact H|constructor].
  - destruct H as [_ H]. revert H. apply Forall_impl. exact item_ok1_good.
  - destruct H as [_ H]. revert H. apply Forall_impl. exact item_ok1_good.
Qed.

Lemma path_good_mk t : path_good t -> mk_path T idlit (path_back t) = mk_path T idlit t.
Proof. intros [p [d [Hp [_ [_ [_ [_ [Hb _]]]]]]]]. rewrite Hb, Hp. reflexivity. Qed.

Lemma resolve1_back1 doc a : item_good1 a -> resolve1 T (Some doc) (back1 a) = resolve1 T (Some doc) a.
Proof.
  destruct a as [v|tag t]; cbn [item_good1 back1]; intros H; [reflexivity|].
  apply resolve1_path. exact (path_good_mk t H).
Qed.

Lemma mapM_resolve_back doc items : Forall item_good1 items ->
  mapM (resolve1 T (Some doc)) (map back1 items) = mapM (resolve1 T (Some doc)) items.
Proof.
  induction 1 as [|a l Ha Hl IH]; cbn [map mapM]; [reflexivity|]. rewrite (resolve1_back1 doc a Ha), IH. reflexivity.
Qed.

Lemma mapM_resolve_lit src items : forallb is_lit1 items = true -> mapM (resolve1 T src) items = Ok (map raw1 items).
Proof.
  induction items as [|a l IH]; cbn [forallb map mapM]; [reflexivity|].
  intros H. apply andb_true_iff in H as [Ha Hl]. destruct a as [v|]; [|discriminate Ha].
  cbn [resolve1 bind raw1]. rewrite (IH Hl). reflexivity.
Qed.

Lemma resolve_kvs_back doc kvs : Forall item_good1 (map snd kvs) ->
  resolve_kvs (Some doc) (amap back1 kvs) = resolve_kvs (Some doc) kvs.
Proof.
  unfold amap. induction kvs as [|[k a] r IH]; cbn [map snd]; intros H; [reflexivity|].
  inversion H as [|? ? Ha Hr]; subst. cbn [resolve_kvs fst snd]. rewrite (resolve1_back1 doc a Ha), (IH Hr). reflexivity.
Qed.

Lemma resolve_kvs_lit src kvs : forallb (fun kv => is_lit1 (snd kv)) kvs = true ->
  resolve_kvs src kvs = Ok (vmap raw1 kvs).
Proof.
  unfold vmap. induction kvs as [|[k a] r IH]; cbn [forallb map fst snd resolve_kvs]; [reflexivity|].
  intros H. apply andb_true_iff in H as [Ha Hr]. destruct a as [v|]; [|discriminate Ha].
  cbn [resolve1 bind raw1]. rewrite (IH Hr). reflexivity.
Qed.

(* against a document, the argument read back resolves to the value the argument written resolves to: the paths read back
   build the same path objects, a display without paths is the container of its literals *)
Lemma resolve_n_back doc n : paths_good_n n -> resolve_n (Some doc) (back_n n) = resolve_n (Some doc) n.
Proof.
  unfold paths_good_n. destruct n as [[v|tag t]|tup items|kvs]; cbn [nitems back_n]; intros H.
  - reflexivity.
  - inversion H as [|? ? Ha _]; subst. cbn [resolve_n]. exact (resolve1_back1 doc (APath tag t) Ha).
  - destruct (forallb is_lit1 items) eqn:E.
    + cbn [resolve_n resolve1]. rewrite (mapM_resolve_lit (Some doc) items E). cbn [bind]. destruct tup; reflexivity.
    + cbn [resolve_n]. rewrite (mapM_resolve_back doc items H). reflexivity.
  - destruct (forallb (fun kv => is_lit1 (snd kv)) kvs) eqn:E.
    + cbn [resolve_n resolve1]. rewrite (resolve_kvs_lit (Some doc) kvs E). reflexivity.
    + cbn [resolve_n]. rewrite (resolve_kvs_back doc kvs H). reflexivity.
Qed.

(* ---- naturality of filtering, restricted to the arguments that occur (cf. RuleProof.filter_tree_map) ---- *)

Lemma mapM_ext_n {X Y} (f g : X -> res Y) l : (forall x, f x = g x) -> mapM f l = mapM g l.
Proof. intros H. induction l as [|x l IH]; cbn [mapM]; [reflexivity|]. rewrite H, IH. reflexivity. Qed.

Section NaturalityIn.
  Variables (A B : Type) (f : A -> B).
  Variables (resA : A -> res pyval) (resB : B -> res pyval).

  Definition lvals (l : leaf A) : list A := l_args l ++ map snd (l_kwargs l).
  Fixpoint cvals (c : cond A) : list A :=
    match c with CLeaf l => lvals l | CBin _ a b => cvals a ++ cvals b end.

  Lemma mapM_res_map_in l : (forall a, In a l -> resB (f a) = resA a) -> mapM resB (map f l) = mapM resA l.
  Proof.
    induction l as [|x l IH]; cbn [map mapM]; intros H; [reflexivity|].
    rewrite (H x (or_introl eq_refl)), IH; [reflexivity|]. intros a Ha. apply H. right. exact Ha.
  Qed.

  Lemma resolve_kw_map_in l : (forall a, In a (map snd l) -> resB (f a) = resA a) ->
    resolve_kw B resB (kmap A B f l) = resolve_kw A resA l.
  Proof.
    induction l as [|[k x] l IH]; cbn [kmap map resolve_kw fst snd]; intros H; [reflexivity|]. fold (kmap A B f l).
    rewrite (H x (or_introl eq_refl)), IH; [reflexivity|]. intros a Ha. apply H. right. exact Ha.
  Qed.

  Lemma eval_item_map_in l x : (forall a, In a (lvals l) -> resB (f a) = resA a) ->
    eval_item T resB (leaf_map A B f l) x = eval_item T resA l x.
  Proof.
    intros H. unfold eval_item, call_leaf. cbn [leaf_map l_pre l_args l_kwargs l_call].
    rewrite mapM_res_map_in, resolve_kw_map_in; [reflexivity| |].
    - intros a Ha. apply H. unfold lvals. apply in_or_app. right. exact Ha.
    - intros a Ha. apply H. unfold lvals. apply in_or_app. left. exact Ha.
  Qed.

  Lemma filter_tree_map_in c d : (forall a, In a (cvals c) -> resB (f a) = resA a) ->
    filter_tree T resB (cond_map A B f c) d = filter_tree T resA c d.
  Proof.
    induction c as [l|o a IHa b IHb]; cbn [cond_map filter_tree cvals]; intros H.
    - unfold filter_leaf. cbn [leaf_map l_kind].
      rewrite (mapM_ext_n _ (eval_item T resA l)) by (intro; apply eval_item_map_in; exact H). reflexivity.
    - rewrite IHa, IHb; [reflexivity| |]; intros x Hx; apply H; apply in_or_app; auto.
  Qed.
End NaturalityIn.

(* two substitutions of the arguments that resolve alike (on the arguments that occur) against every document give
   conditions that filter alike, hence rules that are judged alike (cf. C13PathProof, Section ResolveAlike) *)
Section ResolveAlikeN.
  Variables f g : pyval -> narg.
  Variable c : cond pyval.
  Hypothesis Hfg : forall doc v, In v (cvals pyval c) -> resolve_n (Some doc) (f v) = resolve_n (Some doc) (g v).

  Lemma filter_tree_alike_n doc d :
    filter_tree T (resolve_n (Some doc)) (cond_map pyval narg f c) d =
    filter_tree T (resolve_n (Some doc)) (cond_map pyval narg g c) d.
  Proof.
    rewrite (filter_tree_map_in pyval narg f (fun v => resolve_n (Some doc) (g v)) (resolve_n (Some doc)) c d (Hfg doc)).
    rewrite (filter_tree_map_in pyval narg g (fun v => resolve_n (Some doc) (g v)) (resolve_n (Some doc)) c d
               (fun v _ => eq_refl)).
    reflexivity.
  Qed.

  Lemma judge_alike_n p casts doc :
    judge_n {| rn_path := p; rn_cond := cond_map pyval narg f c; rn_cast := casts |} doc =
    judge_n {| rn_path := p; rn_cond := cond_map pyval narg g c; rn_cast := casts |} doc.
  Proof.
    unfold judge_n. cbn [rn_path rn_cond].
    destruct (selection T p doc) as [sel|e]; cbn [bind]; [|reflexivity].
    destruct sel as [|x sel]; [reflexivity|].
    rewrite !has_non_value_leaf_map, (filter_tree_alike_n doc).
    destruct c as [l|o a b]; cbn [cond_map leaf_map l_kind]; reflexivity.
  Qed.

  Lemma rule_test_alike_n p casts doc copy :
    rule_test_n {| rn_path := p; rn_cond := cond_map pyval narg f c; rn_cast := casts |} doc copy =
    rule_test_n {| rn_path := p; rn_cond := cond_map pyval narg g c; rn_cast := casts |} doc copy.
  Proof.
    unfold rule_test_n. cbn [rn_path rn_cast].
    destruct (mk_data doc) as [u|e]; cbn [bind]; [|reflexivity].
    destruct casts as [|c0 cs].
    - rewrite judge_alike_n. reflexivity.
    - destruct (selection T p doc) as [sel|e]; cbn [bind]; [|reflexivity].
      destruct (cast_loop _ sel _) as [cp1|e]; cbn [bind]; [|reflexivity].
      rewrite judge_alike_n. reflexivity.
  Qed.
End ResolveAlikeN.

(* ---- the arguments that occur in a tree of the fragment ---- *)

Lemma cvals_cond_of n v : In v (cvals pyval (cond_of n)) -> exists c q, In (c, q) (qleaves n) /\ In v (q_args q).
Proof.
  induction n as [c q| |o a IHa b IHb]; cbn [cond_of cvals qleaves]; intros H.
  - exists c, q. split; [left; reflexivity|]. rewrite <- (expected_vals c q). exact H.
  - destruct H.
  - apply in_app_or in H as [H|H]; [destruct (IHa H) as [c [q [H1 H2]]]|destruct (IHb H) as [c [q [H1 H2]]]];
      exists c, q; (split; [apply in_or_app; auto|exact H2]).
Qed.

(* in a tree of the fragment every argument is a placeholder of an narg of the fragment *)
Lemma tree_in_c11n_vals nas t v : tree_in_c11n nas t -> In v (cvals pyval (cond_of (qnorm t))) ->
  exists k n, v = VObj k /\ nth_error nas (N.to_nat k) = Some n /\ narg_ok n.
Proof.
  intros [Hl _] Hv. destruct (cvals_cond_of _ v Hv) as [c [q [Hin Hq]]]. rewrite qleaves_qnorm in Hin.
  rewrite Forall_forall in Hl. destruct (Hl (c, q) Hin) as [_ [_ [k [n [Hf [Hk Hn]]]]]]. cbn [fst snd] in Hf.
  rewrite q_args_form, Hf in Hq. cbn [form_args] in Hq. destruct Hq as [<-|[]].
  exists k, n. repeat split; assumption.
Qed.

Lemma resolve_subn_back nas t doc v : tree_in_c11n nas t -> In v (cvals pyval (cond_of (qnorm t))) ->
  resolve_n (Some doc) (subn (backs_n nas) v) = resolve_n (Some doc) (subn nas v).
Proof.
  intros Ht Hv. destruct (tree_in_c11n_vals nas t v Ht Hv) as [k [n [-> [Hk Hn]]]].
  rewrite (subn_backs nas k n Hk), (subn_at nas k n Hk). exact (resolve_n_back doc n (narg_ok_paths_good n Hn)).
Qed.

(* the rule read back tests every document as the rule written: verdict, failures, document judged, cast data *)
Theorem rule_n_back_same_test : forall nas t p casts doc copy, tree_in_c11n nas t ->
  rule_test_n {| rn_path := p; rn_cond := condn_back nas t; rn_cast := casts |} doc copy =
  rule_test_n {| rn_path := p; rn_cond := condn_of nas t; rn_cast := casts |} doc copy.
Proof.
  intros nas t p casts doc copy Ht. unfold condn_back, condn_of.
  exact (rule_test_alike_n _ _ _ (fun d v Hv => resolve_subn_back nas t d v Ht Hv) p casts doc copy).
Qed.

Theorem judge_n_back_same : forall nas t p casts doc, tree_in_c11n nas t ->
  judge_n {| rn_path := p; rn_cond := condn_back nas t; rn_cast := casts |} doc =
  judge_n {| rn_path := p; rn_cond := condn_of nas t; rn_cast := casts |} doc.
Proof.
  intros nas t p casts doc Ht. unfold condn_back, condn_of.
  exact (judge_alike_n _ _ _ (fun d v Hv => resolve_subn_back nas t d v Ht Hv) p casts doc).
Qed.

(* ================================================================== *)
(* 3. the rule round trip                                               *)

Lemma tree_in_c11n_rt nas t : tree_in_c11n nas t ->
  let j := tree_js_n nas (qnorm t) in
  condn_to_json (condn_of nas t) = Ok j /\ json_pure j = true /\
  (exists tm, condn_from_spec j = Ok (tm, condn_back nas t)) /\
  condn_eqb (condn_back nas t) (condn_of nas t) = true /\ condn_to_json (condn_back nas t) = Ok j.
Proof.
  intros [Hl [Hd Hm]].
  assert (Hrt : leaves_rt_n nas t).
  { unfold leaves_rt_n. revert Hl. apply Forall_impl. intros [c q]. apply leaf_in_c11n_rt. }
  exact (C11N_roundtrip_modular nas t Hrt Hd Hm).
Qed.

(* Modular form: ANY tree whose leaves round-trip (C11NestedProof.leaf_rt_n: whatever the callable and its arguments) and
   whose arguments read back resolve like the arguments written.  C13N_rule_roundtrip_gen instantiates it with the
   fragment tree_in_c11n; leaves proved to round-trip later (literal arguments, multi-parameter callables over narg)
   enter here without touching the rule level. *)
Theorem C13N_rule_roundtrip_modular : forall pt p nas t casts g,
  path_roundtrips pt -> mk_path T idlit pt = Ok p ->
  leaves_rt_n nas t -> tree_depth t <= 40 -> qmixed (qnorm t) = false ->
  (forall doc v, In v (cvals pyval (cond_of (qnorm t))) ->
     resolve_n (Some doc) (subn (backs_n nas) v) = resolve_n (Some doc) (subn nas v)) ->
  casts_in_c13 casts = true -> flag_ok casts g ->
  let r := c13n_rule p nas t casts in
  exists j ex r',
    rule_n_to_json r g = Ok j /\ json_pure j = true /\
    rule_n_from_spec j = Ok (r', ex) /\ rx_cast_given ex = g /\ rx_doc ex = VNone /\
    r' = rule_n_back nas t r /\
    (path_eqb p p = true -> casts_wf casts -> rule_n_eqb r' r g g = true) /\
    (forall doc copy, rule_test_n r' doc copy = rule_test_n r doc copy) /\
    rule_n_to_json r' g = Ok j.
Proof.
  intros pt p nas t casts g Hp Hmk Hrt Hd Hm Hres Hc Hg. cbv zeta.
  destruct (C11N_roundtrip_modular nas t Hrt Hd Hm) as [Hj [Hjp [[tm Hs] [He Hj2]]]]. cbv zeta in Hj, Hjp, Hs, He, Hj2.
  fold (condn_of nas t) in Hj, He. fold (condn_back nas t) in Hs, He, Hj2.
  destruct (Hp p Hmk) as [specs [t' [Hps [Hpp [Hfs Hmk']]]]].
  destruct (cast_block_ok casts g Hc Hg) as [Hk [Hkp Hkr]].
  set (J := tree_js_n nas (qnorm t)) in *.
  exists (VDict [(VStr "condition", J); (VStr "cast", cast_block casts g); (VStr "path", VList specs)]).
  exists {| rx_doc := VNone; rx_cast_given := g |}.
  exists {| rn_path := p; rn_cond := condn_back nas t; rn_cast := casts |}.
  split; [|split; [|split; [|split; [|split; [|split; [|split; [|split]]]]]]]; try reflexivity.
  - unfold rule_n_to_json, c13n_rule. cbn [rn_path rn_cond rn_cast]. rewrite Hj. cbn [bind]. rewrite Hk. cbn [bind].
    rewrite Hps. reflexivity.
  - rewrite json_pure_rule, Hjp, Hkp, Hpp. reflexivity.
  - unfold rule_n_from_spec. rewrite get_path. cbn [bind py_iter]. rewrite Hfs. cbn [bind].
    change Rule.id0 with idlit. rewrite Hmk'. cbn [bind].
    rewrite get_condition. cbn [bind]. rewrite Hs. cbn [bind]. rewrite get_doc. cbn [norm_doc bind].
    rewrite get_cast, Hkr. reflexivity.
  - intros Hpe Hcw. unfold rule_n_eqb, c13n_rule. cbn [rn_path rn_cond rn_cast].
    rewrite Hpe, He, (casts_eqb_refl casts Hcw), Bool.eqb_reflx. reflexivity.
  - intros doc copy. unfold c13n_rule, condn_back, condn_of.
    exact (rule_test_alike_n _ _ _ Hres p casts doc copy).
  - unfold rule_n_to_json. cbn [rn_path rn_cond rn_cast]. rewrite Hj2. cbn [bind]. rewrite Hk. cbn [bind].
    rewrite Hps. reflexivity.
Qed.

(* General form: ANY path term that round-trips (C13Proof.path_roundtrips), p the path object it builds.  Every clause:
   what to_json_like writes is pure JSON data; from_spec reads it and builds the rule [rule_n_back nas t r] (same path
   object, same casts, the condition over the arguments read back); the cast block is reported as given exactly when it
   was; doc is not written; the rebuilt rule is == to the original (under the side conditions of the reflexivity of ==
   on the path and the casts, as in C13_rule_eq / C13P_rule_roundtrip_gen); it tests every document identically; and it
   is written as the same data again. *)
Theorem C13N_rule_roundtrip_gen : forall pt p nas t casts g,
  path_roundtrips pt -> mk_path T idlit pt = Ok p ->
  tree_in_c11n nas t -> casts_in_c13 casts = true -> flag_ok casts g ->
  let r := c13n_rule p nas t casts in
  exists j ex r',
    rule_n_to_json r g = Ok j /\ json_pure j = true /\
    rule_n_from_spec j = Ok (r', ex) /\ rx_cast_given ex = g /\ rx_doc ex = VNone /\
    r' = rule_n_back nas t r /\
    (path_eqb p p = true -> casts_wf casts -> rule_n_eqb r' r g g = true) /\
    (forall doc copy, rule_test_n r' doc copy = rule_test_n r doc copy) /\
    rule_n_to_json r' g = Ok j.
Proof.
  intros pt p nas t casts g Hp Hmk Ht Hc Hg.
  pose proof Ht as [Hl [Hd Hm]].
  assert (Hrt : leaves_rt_n nas t).
  { unfold leaves_rt_n. revert Hl. apply Forall_impl. intros [c q]. apply leaf_in_c11n_rt. }
  exact (C13N_rule_roundtrip_modular pt p nas t casts g Hp Hmk Hrt Hd Hm
           (fun doc v Hv => resolve_subn_back nas t doc v Ht Hv) Hc Hg).
Qed.

(* the target: the rule's path in the C12 fragment, without modifier and source data (as in C13_rule / C13P_rule_roundtrip);
   the == clause under the computable side condition path_self_eq (C11PathProof) and casts_wf (distinct from-types) *)
Theorem C13N_rule_roundtrip : forall st p nas t casts g,
  path_in_c12 st = true -> st_mods st = [] -> st_src st = None ->
  mk_path T idlit (spathterm_term st) = Ok p ->
  tree_in_c11n nas t -> casts_in_c13 casts = true -> flag_ok casts g ->
  let r := c13n_rule p nas t casts in
  exists j ex r',
    rule_n_to_json r g = Ok j /\ json_pure j = true /\
    rule_n_from_spec j = Ok (r', ex) /\ rx_cast_given ex = g /\ rx_doc ex = VNone /\
    r' = rule_n_back nas t r /\
    (path_self_eq (spathterm_term st) = true -> casts_wf casts -> rule_n_eqb r' r g g = true) /\
    (forall doc copy, rule_test_n r' doc copy = rule_test_n r doc copy) /\
    rule_n_to_json r' g = Ok j.
Proof.
  intros st p nas t casts g Hin Hm Hs Hmk Ht Hc Hg. cbv zeta.
  destruct (C13N_rule_roundtrip_gen _ p nas t casts g (c12_path_roundtrips st Hin Hm Hs) Hmk Ht Hc Hg)
    as [j [ex [r' [H1 [H2 [H3 [H4 [H5 [H6 [H7 [H8 H9]]]]]]]]]]].
  exists j, ex, r'. repeat split; try assumption.
  intros Hse Hcw. apply H7; [|exact Hcw]. unfold path_self_eq in Hse. rewrite Hmk in Hse. exact Hse.
Qed.

(* validates identically: the statement in the style of C13_rule_behaviour / C13P_rule_same_behaviour *)
Corollary C13N_rule_same_behaviour : forall pt p nas t casts g,
  path_roundtrips pt -> mk_path T idlit pt = Ok p ->
  tree_in_c11n nas t -> casts_in_c13 casts = true -> flag_ok casts g ->
  let r := c13n_rule p nas t casts in
  exists j ex r',
    rule_n_to_json r g = Ok j /\ json_pure j = true /\ rule_n_from_spec j = Ok (r', ex) /\
    r' = rule_n_back nas t r /\ rx_cast_given ex = g /\
    forall doc copy, rule_test_n r' doc copy = rule_test_n r doc copy.
Proof.
  intros pt p nas t casts g Hp Hmk Ht Hc Hg. cbv zeta.
  destruct (C13N_rule_roundtrip_gen pt p nas t casts g Hp Hmk Ht Hc Hg)
    as [j [ex [r' [H1 [H2 [H3 [H4 [H5 [H6 [H7 [H8 H9]]]]]]]]]]].
  exists j, ex, r'. repeat split; assumption.
Qed.

(* == : the statement in the style of C13_rule_eq / C13P_rule_eq *)
Corollary C13N_rule_eq : forall pt p nas t casts g,
  path_roundtrips pt -> mk_path T idlit pt = Ok p ->
  tree_in_c11n nas t -> casts_in_c13 casts = true -> flag_ok casts g ->
  path_eqb p p = true -> casts_wf casts ->
  let r := c13n_rule p nas t casts in
  exists j ex r',
    rule_n_to_json r g = Ok j /\ json_pure j = true /\ rule_n_from_spec j = Ok (r', ex) /\
    rule_n_eqb r' r (rx_cast_given ex) g = true.
Proof.
  intros pt p nas t casts g Hp Hmk Ht Hc Hg Hpe Hcw. cbv zeta.
  destruct (C13N_rule_roundtrip_gen pt p nas t casts g Hp Hmk Ht Hc Hg)
    as [j [ex [r' [H1 [H2 [H3 [H4 [H5 [H6 [H7 [H8 H9]]]]]]]]]]].
  exists j, ex, r'. repeat split; try assumption. rewrite H4. exact (H7 Hpe Hcw).
Qed.

(* ================================================================== *)
(* 4. the rule of the fragment IS the rule the API builds (NestedArgs.build_n / mk_rule_n) *)

(* the data paths of an argument of the fragment build: the check made when the argument expression is evaluated passes *)
Lemma check_narg_good n : paths_good_n n -> check_narg n = Ok tt.
Proof.
  unfold check_narg, paths_good_n. induction 1 as [|a l Ha Hl IH]; cbn [check_args]; [reflexivity|].
  destruct a as [v|tag t]; cbn [check_arg bind]; [exact IH|].
  destruct Ha as [p [d [Hp _]]]. change Rule.id0 with idlit. rewrite Hp. cbn [bind]. exact IH.
Qed.

(* a one-parameter constructor applied to ANY argument (no default is looked at: the literal embedding does not matter) *)
Lemma build_leaf_one (A : Type) (L f : pyval -> A) c q v : class_ok c q = true -> q_form q = FOne v ->
  build_leaf T L (scls_name c) (q_method q) [f v] [] = Ok (leaf_map pyval A f (expected_leaf c q)).
Proof.
  unfold class_ok.
  destruct q; cbn [q_form]; intros Hc Hq; try discriminate Hq; injection Hq as <-;
    destruct c; cbn [q_is_map scls_has_map negb orb] in Hc; try discriminate Hc; reflexivity.
Qed.

Lemma q_one_wf q v : q_form q = FOne v -> q_wf q = true.
Proof. destruct q; cbn [q_form]; intros H; try discriminate H; reflexivity. Qed.

(* the DSL expression: the typed tree with the nargs in place of their placeholders *)
Definition termn_of (nas : list narg) (t : qtree) : dslc narg := dslc_map (subn nas) (qterm t).

Lemma build_n_tree nas t : Forall (fun cq => leaf_in_c11n nas (fst cq) (snd cq)) (qleaves t) ->
  build_n (termn_of nas t) = rmap (cmapN nas) (build T idlit (qterm t)).
Proof.
  unfold termn_of. induction t as [c q| |o a IHa b IHb]; cbn [qleaves qterm]; intros H.
  - inversion H as [|? ? [Hcls [_ [k [n [Hq [Hk Hn]]]]]] _]; subst. cbn [fst snd] in *.
    rewrite (build_leaf_term c q Hcls). cbn [rmap cond_map].
    destruct (q_one_inv q _ Hq) as [_ [Hcall _]]. unfold q_term. rewrite Hcall. cbn [dslc_map map build_n check_nargs check_nkw].
    rewrite (subn_at nas k n Hk), (check_narg_good n (narg_ok_paths_good n Hn)). cbn [bind].
    rewrite <- (subn_at nas k n Hk).
    rewrite (build_leaf_one narg NestedArgs.lit_n (subn nas) c q (VObj k) Hcls Hq). reflexivity.
  - reflexivity.
  - apply Forall_app in H as [Ha Hb]. cbn [dslc_map build_n build]. rewrite (IHa Ha), (IHb Hb).
    destruct (build T idlit (qterm a)) as [x|e]; cbn [rmap bind]; [|reflexivity].
    destruct (build T idlit (qterm b)) as [y|e]; cbn [rmap bind]; [|reflexivity].
    apply mk_bin_map.
Qed.

(* Value.in_([DataPath(..), 1]) & ... written with the API builds exactly the condition the theorems are about *)
Theorem C13N_cond_is_built : forall nas t,
  tree_in_c11n nas t -> build_n (termn_of nas t) = Ok (condn_of nas t).
Proof.
  intros nas t [Hl [_ Hm]]. rewrite (build_n_tree nas t Hl).
  assert (Hok : qtree_ok t = true).
  { unfold qtree_ok. apply forallb_forall. intros [c q] Hin. rewrite Forall_forall in Hl.
    destruct (Hl (c, q) Hin) as [Hcls [_ [k [n [Hq _]]]]]. cbn [fst snd] in *.
    unfold class_ok in Hcls. rewrite Hcls. exact (q_one_wf q _ Hq). }
  rewrite (build_qterm t Hok). unfold build_expect. rewrite Hm. reflexivity.
Qed.

(* the rule term: Rule(path, <t with list / mapping / data-path arguments>, cast=casts) *)
Definition c13n_term (pt : pathterm pyval) (nas : list narg) (t : qtree) (casts : list (pytype * castfn)) : ruleterm_n :=
  {| rtn_path := pt; rtn_cond := termn_of nas t; rtn_cast := casts |}.

Theorem C13N_rule_is_built : forall pt nas t casts r,
  tree_in_c11n nas t -> mk_rule_n (c13n_term pt nas t casts) = Ok r ->
  exists p, mk_path T idlit pt = Ok p /\ r = c13n_rule p nas t casts.
Proof.
  intros pt nas t casts r Ht Hr. unfold mk_rule_n, c13n_term in Hr. cbn [rtn_path rtn_cond rtn_cast] in Hr.
  apply bind_ok in Hr as [p [Hp Hr]]. rewrite (C13N_cond_is_built nas t Ht) in Hr. cbn [bind] in Hr. injection Hr as <-.
  exists p. split; [exact Hp|reflexivity].
Qed.

(* THE RULE THEOREM on rules written with the API, in the form of C13P_rule_roundtrip_gen *)
Theorem C13N_rule_roundtrip_api : forall pt nas t casts g r,
  path_roundtrips pt -> tree_in_c11n nas t -> casts_in_c13 casts = true -> flag_ok casts g ->
  mk_rule_n (c13n_term pt nas t casts) = Ok r ->
  exists j ex r',
    rule_n_to_json r g = Ok j /\ json_pure j = true /\
    rule_n_from_spec j = Ok (r', ex) /\ rx_cast_given ex = g /\ rx_doc ex = VNone /\
    r' = rule_n_back nas t r /\
    (path_eqb (rn_path r) (rn_path r) = true -> casts_wf casts -> rule_n_eqb r' r g g = true) /\
    (forall doc copy, rule_test_n r' doc copy = rule_test_n r doc copy) /\
    rule_n_to_json r' g = Ok j.
Proof.
  intros pt nas t casts g r Hp Ht Hc Hg Hr.
  destruct (C13N_rule_is_built pt nas t casts r Ht Hr) as [p [Hmk ->]].
  exact (C13N_rule_roundtrip_gen pt p nas t casts g Hp Hmk Ht Hc Hg).
Qed.

(* the harness entry point NestedRuleIO.run_rule_n_roundtrip_g on a rule of the fragment: (json, True, True) *)
Corollary C13N_run_roundtrip : forall pt nas t casts g r,
  path_roundtrips pt -> tree_in_c11n nas t -> casts_in_c13 casts = true -> flag_ok casts g ->
  mk_rule_n (c13n_term pt nas t casts) = Ok r ->
  path_eqb (rn_path r) (rn_path r) = true -> casts_wf casts ->
  exists j, rule_n_to_json r g = Ok j /\
    run_rule_n_roundtrip_g (c13n_term pt nas t casts) g = Ok (VTuple [j; VBool true; VBool true]).
Proof.
  intros pt nas t casts g r Hp Ht Hc Hg Hr Hpe Hcw.
  destruct (C13N_rule_roundtrip_api pt nas t casts g r Hp Ht Hc Hg Hr)
    as [j [ex [r' [H1 [H2 [H3 [H4 [H5 [H6 [H7 [H8 H9]]]]]]]]]]].
  exists j. split; [exact H1|].
  unfold run_rule_n_roundtrip_g, rule_n_roundtrip. rewrite Hr. cbn [bind]. rewrite H1. cbn [bind]. rewrite H3. cbn [bind].
  rewrite H2, H4, (H7 Hpe Hcw). reflexivity.
Qed.

(* ================================================================== *)
(* 5. schemas: lists of rules, element-wise                             *)

(* rules that agree on path, casts and on every test (cf. C13PathProof.rule_alike) *)
Definition rule_alike_n (r' r : rule_n) : Prop :=
  rn_path r' = rn_path r /\ rn_cast r' = rn_cast r /\
  forall doc copy, rule_test_n r' doc copy = rule_test_n r doc copy.

(* how the rules of the fragment are written with the API *)
Record c13n_spec := {
  nr_path : pathterm pyval;                    (* the rule's path *)
  nr_args : list narg;                         (* the list / mapping / data-path arguments of the condition *)
  nr_tree : qtree;                             (* the condition; VObj k stands for the k-th of them *)
  nr_casts : list (pytype * castfn);
  nr_given : bool
}.

Definition rule_in_c13n (x : c13n_spec) : Prop :=
  path_roundtrips (nr_path x) /\ tree_in_c11n (nr_args x) (nr_tree x) /\ casts_in_c13 (nr_casts x) = true
  /\ flag_ok (nr_casts x) (nr_given x).

Definition mk_rule_obj_n (x : c13n_spec) : res rule_n_obj :=
  let* r := mk_rule_n (c13n_term (nr_path x) (nr_args x) (nr_tree x) (nr_casts x)) in Ok (r, nr_given x).

(* the schema read back, rule by rule *)
Definition obj_back_n (x : c13n_spec) (ro : rule_n_obj) : rule_n_obj :=
  (rule_n_back (nr_args x) (nr_tree x) (fst ro), snd ro).
Fixpoint schema_n_back (xs : list c13n_spec) (s : list rule_n_obj) : list rule_n_obj :=
  match xs, s with x :: xs', ro :: s' => obj_back_n x ro :: schema_n_back xs' s' | _, _ => [] end.

Definition obj_json_n (ro : rule_n_obj) : res pyval := rule_n_to_json (fst ro) (snd ro).
Definition obj_self_eq_n (ro : rule_n_obj) : Prop :=
  path_eqb (rn_path (fst ro)) (rn_path (fst ro)) = true /\ casts_wf (rn_cast (fst ro)).

Lemma rule_obj_roundtrip_n x ro : rule_in_c13n x -> mk_rule_obj_n x = Ok ro ->
  exists j, obj_json_n ro = Ok j /\ json_pure j = true /\ rule_n_from_json j = Ok (obj_back_n x ro) /\
            obj_json_n (obj_back_n x ro) = Ok j /\ rule_alike_n (fst (obj_back_n x ro)) (fst ro) /\
            (obj_self_eq_n ro ->
             rule_n_eqb (fst (obj_back_n x ro)) (fst ro) (snd (obj_back_n x ro)) (snd ro) = true).
Proof.
  intros [Hp [Ht [Hc Hg]]] H. unfold mk_rule_obj_n in H. apply bind_ok in H as [r [Hr H]]. injection H as <-.
  destruct (C13N_rule_roundtrip_api _ _ _ _ _ r Hp Ht Hc Hg Hr)
    as [j [ex [r' [H1 [H2 [H3 [H4 [H5 [H6 [H7 [H8 H9]]]]]]]]]]].
  destruct (C13N_rule_is_built _ _ _ _ r Ht Hr) as [p [_ Er]].
  assert (Hcast : rn_cast r = nr_casts x) by (rewrite Er; reflexivity).
  exists j. unfold obj_json_n, obj_back_n. cbn [fst snd]. subst r'.
  split; [exact H1|]. split; [exact H2|]. split; [|split; [exact H9|split]].
  - unfold rule_n_from_json. rewrite H3. cbn [bind]. rewrite H4. reflexivity.
  - split; [reflexivity|]. split; [reflexivity|]. exact H8.
  - intros [Hpe Hcw]. cbn [fst] in Hpe, Hcw. rewrite Hcast in Hcw. exact (H7 Hpe Hcw).
Qed.

(* A schema of the fragment is written as a pure JSON list and read back as the list of the rules read back
   (schema_n_back: same paths, same casts, conditions over the arguments read back); rule by rule the rebuilt schema
   tests every document exactly like the original, it is written as the same data again, and it is == to the original
   under the side conditions of the reflexivity of == (as in C13_schema_eq / C13P_schema).
   NOTE the behaviour clause is rule-wise (Forall2 rule_alike_n): the model has no Schema.validate over rule_n
   (Rule.validate is typed on Rule.rule); C13PathProof.validate_alike shows that validate depends on the rules only
   through the three components of rule_alike. *)
Theorem C13N_schema : forall xs s,
  Forall rule_in_c13n xs -> mapM mk_rule_obj_n xs = Ok s ->
  exists j s', schema_n_to_json s = Ok j /\ json_pure j = true /\ schema_n_from_json j = Ok s' /\
    s' = schema_n_back xs s /\
    Forall2 rule_alike_n (map fst s') (map fst s) /\
    schema_n_to_json s' = Ok j /\
    (Forall obj_self_eq_n s -> schema_n_eqb s' s = true).
Proof.
  intros xs s Hin Hs.
  assert (G : exists js,
    mapM obj_json_n s = Ok js /\ forallb json_pure js = true /\ mapM rule_n_from_json js = Ok (schema_n_back xs s) /\
    mapM obj_json_n (schema_n_back xs s) = Ok js /\
    Forall2 rule_alike_n (map fst (schema_n_back xs s)) (map fst s) /\
    (Forall obj_self_eq_n s -> schema_n_eqb (schema_n_back xs s) s = true)).
  { revert s Hs. induction Hin as [|x xs Hx _ IH]; cbn [mapM]; intros s Hs.
    - injection Hs as <-. exists []. repeat split; try reflexivity. constructor.
    - apply bind_ok in Hs as [ro [Hro Hs]]. apply bind_ok in Hs as [s' [Hs' Hs]]. injection Hs as <-.
      destruct (rule_obj_roundtrip_n x ro Hx Hro) as [j [H1 [H2 [H3 [H4 [H5 H6]]]]]].
      destruct (IH s' Hs') as [js [G1 [G2 [G3 [G4 [G5 G6]]]]]].
      exists (j :: js). cbn [mapM forallb schema_n_back map]. rewrite H1, G1, H2, G2, H3, G3, H4, G4.
      repeat split; try reflexivity.
      + constructor; [exact H5|exact G5].
      + intros Hok. inversion Hok as [|ro' s'' Hro' Hok']; subst.
        unfold schema_n_eqb. cbn [list_eqb]. fold (schema_n_eqb (schema_n_back xs s') s').
        rewrite (H6 Hro'), (G6 Hok'). reflexivity. }
  destruct G as [js [G1 [G2 [G3 [G4 [G5 G6]]]]]]. exists (VList js), (schema_n_back xs s).
  unfold schema_n_to_json, schema_n_from_json. fold obj_json_n.
  change (fun rg : rule_n_obj => rule_n_to_json (fst rg) (snd rg)) with obj_json_n.
  rewrite G1, G4. cbn [bind py_iter json_pure].
  repeat split; assumption.
Qed.

(* the rules over paths of the C12 fragment *)
Lemma rule_in_c13n_c12 st nas t casts g :
  path_in_c12 st = true -> st_mods st = [] -> st_src st = None ->
  tree_in_c11n nas t -> casts_in_c13 casts = true -> flag_ok casts g ->
  rule_in_c13n {| nr_path := spathterm_term st; nr_args := nas; nr_tree := t; nr_casts := casts; nr_given := g |}.
Proof.
  intros Hin Hm Hs Ht Hc Hg. split; [exact (c12_path_roundtrips st Hin Hm Hs)|]. split; [exact Ht|]. split; [exact Hc|exact Hg].
Qed.

(* ================================================================== *)
(* 6. non-vacuity: the statements evaluated on concrete rules           *)

(* Rule(DataPath("xs", ListValue()), Value.in_([DataPath("a", 0), 1]), cast={str: int}) *)
Definition exn_path : spathterm :=
  {| st_parts := [SPrim (VStr "xs"); STList None None None None]; st_mods := []; st_src := None |}.
Definition exn_arg : narg := NItems false [APath 5%N p_a0; ALit (VInt 1)].
Definition exn_tree : qtree := QLeaf SValue (Q_in (VObj 0)).
Definition exn_term : ruleterm_n := c13n_term (spathterm_term exn_path) [exn_arg] exn_tree [(TStr, CastStrInt)].

(* the term is the one a harness writes (the input of NestedArgs.run_rule_test_n) *)
Example exn_term_is :
  exn_term =
  {| rtn_path := {| pt_parts := [PtPrim (VStr "xs"); PtList None None None None]; pt_mods := []; pt_src := None |};
     rtn_cond := DLeaf "Value" "in_"
                   [NItems false [APath 5%N {| pt_parts := [PtPrim (VStr "a"); PtPrim (VInt 0)]; pt_mods := []; pt_src := None |};
                                  ALit (VInt 1)]] [];
     rtn_cast := [(TStr, CastStrInt)] |}.
Proof. vm_compute. reflexivity. Qed.

Lemma exn_arg_ok : narg_ok exn_arg.
Proof. split; [reflexivity|]. repeat constructor; cbn [item_ok1]; try exact p_a0_good; vm_compute; reflexivity. Qed.

Example exn_tree_in : tree_in_c11n [exn_arg] exn_tree.
Proof.
  split; [|split; [vm_compute; lia|reflexivity]].
  cbn [qleaves exn_tree]. repeat constructor; cbn [fst snd].
  exists 0%N, exn_arg. split; [reflexivity|]. split; [reflexivity|]. exact exn_arg_ok.
Qed.

Definition exn_spec : c13n_spec :=
  {| nr_path := spathterm_term exn_path; nr_args := [exn_arg]; nr_tree := exn_tree;
     nr_casts := [(TStr, CastStrInt)]; nr_given := true |}.

Example exn_in : rule_in_c13n exn_spec.
Proof.
  apply rule_in_c13n_c12; [vm_compute; reflexivity|reflexivity|reflexivity|exact exn_tree_in|vm_compute; reflexivity|].
  intros H. discriminate H.
Qed.

(* the round trip computed by the model, independently of the proofs: (JSON written, pure, rebuilt == original) *)
Example exn_roundtrip :
  run_rule_n_roundtrip exn_term =
  Ok (VTuple [VDict [(VStr "condition",
                       VDict [(VStr "value.in_", VList [VDict [(VStr "path", VList [VStr "a"; VInt 0])]; VInt 1])]);
                     (VStr "cast", VDict [(VStr "str", VStr "int")]);
                     (VStr "path", VList [VStr "xs"; VDict [(VStr "type", VStr "list_value")]])];
              VBool true; VBool true]).
Proof. vm_compute. reflexivity. Qed.

(* {"a": [3, 9], "xs": ["3", 1, 7]}: "3" is cast to 3 = data["a"][0], 1 is in the list, 7 fails *)
Definition exn_doc : pyval := VDict [(VStr "a", VList [VInt 3; VInt 9]); (VStr "xs", VList [VStr "3"; VInt 1; VInt 7])].

(* the original and the rebuilt rule tested on a document: same verdict, same failure, same cast data *)
Example exn_roundtrip_test :
  let cast_doc := VDict [(VStr "a", VList [VInt 3; VInt 9]); (VStr "xs", VList [VInt 3; VInt 1; VInt 7])] in
  let t := VTuple [VTuple [VBool false; VBool true; VInt 1;
                           VList [VTuple [VInt 2; VInt 7; VTuple [VStr "xs"; VInt 2]; VBool true]]];
                   cast_doc; cast_doc] in
  match run_rule_n_roundtrip_test exn_term true exn_doc with
  | Ok (VTuple [_; VBool true; VBool true; t1; t2]) => t1 = t /\ t2 = t
  | _ => False
  end.
Proof. vm_compute. split; reflexivity. Qed.

(* the rebuilt rule is NOT the record that was serialised: the path object tag is lost (APath 0) *)
Example exn_rule_back_differs :
  match mk_rule_n exn_term with
  | Ok r => rn_cond (rule_n_back [exn_arg] exn_tree r) <> rn_cond r
  | Err _ => False
  end.
Proof. vm_compute. intros H. discriminate H. Qed.

(* a mapping argument, and a display without data paths next to it (read back as the literal list):
   Rule(["ms", ListValue()], Value.equal_to({"k": DataPath("b").length(), "j": [1]}) | Value.in_([1, 2])) *)
Definition exn_path2 : spathterm :=
  {| st_parts := [SPrim (VStr "ms"); STList None None None None]; st_mods := []; st_src := None |}.
Definition exn_lits : narg := NItems false [ALit (VInt 1); ALit (VInt 2)].
Definition exn_tree2 : qtree := QBin BoOr (QLeaf SValue (Q_equal_to (VObj 0))) (QLeaf SValue (Q_in (VObj 1))).
Definition exn_spec2 : c13n_spec :=
  {| nr_path := spathterm_term exn_path2; nr_args := [ex_eq_arg; exn_lits]; nr_tree := exn_tree2;
     nr_casts := []; nr_given := false |}.

Lemma exn_lits_ok : narg_ok exn_lits.
Proof. split; [reflexivity|]. repeat constructor; vm_compute; reflexivity. Qed.

Example exn_tree2_in : tree_in_c11n [ex_eq_arg; exn_lits] exn_tree2.
Proof.
  split; [|split; [vm_compute; lia|reflexivity]].
  cbn [qleaves exn_tree2 app]. repeat constructor; cbn [fst snd].
  - exists 0%N, ex_eq_arg. split; [reflexivity|]. split; [reflexivity|]. exact ex_eq_arg_ok.
  - exists 1%N, exn_lits. split; [reflexivity|]. split; [reflexivity|]. exact exn_lits_ok.
Qed.

Example exn_in2 : rule_in_c13n exn_spec2.
Proof.
  apply rule_in_c13n_c12; [vm_compute; reflexivity|reflexivity|reflexivity|exact exn_tree2_in|vm_compute; reflexivity|].
  intros _. reflexivity.
Qed.

Example exn_roundtrip2 :
  run_rule_n_roundtrip (c13n_term (spathterm_term exn_path2) [ex_eq_arg; exn_lits] exn_tree2 []) =
  Ok (VTuple [VDict [(VStr "condition",
                       VDict [(VStr "or", VList [
                         VDict [(VStr "value.equal_to", VDict [(VStr "k", VDict [(VStr "path.length", VList [VStr "b"])]);
                                                               (VStr "j", VList [VInt 1])])];
                         VDict [(VStr "value.in_", VList [VInt 1; VInt 2])]])]);
                     (VStr "cast", VNone);
                     (VStr "path", VList [VStr "ms"; VDict [(VStr "type", VStr "list_value")]])];
              VBool true; VBool true]).
Proof. vm_compute. reflexivity. Qed.

(* a schema of both rules *)
Example exn_schema :
  (let* s := mapM mk_rule_obj_n [exn_spec; exn_spec2] in
   let* j := schema_n_to_json s in
   let* s' := schema_n_from_json j in
   let* j' := schema_n_to_json s' in
   Ok (json_pure j, py_eq j' j, schema_n_eqb s' s, Nat.eqb (List.length s') 2))
  = Ok (true, true, true, true).
Proof. vm_compute. reflexivity. Qed.

(* ================================================================== *)
(* 7. outside the fragment (the counterexamples of C11N and C13, on rules) *)

(* a TUPLE display is written as a list and read back as a list: everything is written and read, the rules test alike,
   but the rebuilt rule is not == to the original (C11NestedProof.ex_tuple_not_equal):
   Rule(["xs", ListValue()], Value.in_((DataPath("a", 0), 1)), cast={str: int}) *)
Example C13N_counterexample_tuple :
  let rt := c13n_term (spathterm_term exn_path) [NItems true [APath 5%N p_a0; ALit (VInt 1)]] exn_tree [(TStr, CastStrInt)] in
  match run_rule_n_roundtrip_test rt true exn_doc with
  | Ok (VTuple [_; VBool true; VBool false; t1; t2]) => t1 = t2
  | _ => False
  end.
Proof. vm_compute. reflexivity. Qed.

(* a modifier on the RULE's path is refused (ValueError), as in C13 / C13P; on a NESTED path it is written (path.length above) *)
Example C13N_modified_rule_path_refused :
  run_rule_n_roundtrip (c13n_term {| pt_parts := [PtPrim (VStr "xs")]; pt_mods := ["length"]; pt_src := None |}
                                  [exn_arg] exn_tree []) = Err ValueError.
Proof. vm_compute. reflexivity. Qed.

(* a mapping argument with "path" in a key and a data path among its values: refused by the serialiser (TypeError) *)
Example C13N_dict_path_key_refused :
  run_rule_n_roundtrip (c13n_term (spathterm_term exn_path) [NDict [(VStr "mypath", APath 5%N p_a0)]]
                                  (QLeaf SValue (Q_equal_to (VObj 0))) []) = Err TypeError.
Proof. vm_compute. reflexivity. Qed.

Print Assumptions rule_n_back_same_test.
Print Assumptions C13N_rule_roundtrip_modular.
Print Assumptions C13N_rule_roundtrip_gen.
Print Assumptions C13N_rule_roundtrip.
Print Assumptions C13N_rule_same_behaviour.
Print Assumptions C13N_rule_eq.
Print Assumptions C13N_cond_is_built.
Print Assumptions C13N_rule_is_built.
Print Assumptions C13N_rule_roundtrip_api.
Print Assumptions C13N_run_roundtrip.
Print Assumptions C13N_schema.
