(* Glue between C12 (paths) and C13 (rules, schemas): the paths of the C12 fragment, built without
   modifiers and source data, satisfy the hypothesis [path_roundtrips] under which C13 is proved. *)
From Coq Require Import ZArith NArith List Bool String Ascii Lia.
From Valida Require Import Py Lang Defs Cond Dsl Check DocSem Path PathSpec Cast Str SpecDefs RuleDefs RuleTerms
  Spec SpecIO SpecSpell Eq Inst RunSpec Rule.
From Valida.Proofs Require Import C11Proof C12Proof C13Proof.
Import ListNotations.
Local Open Scope string_scope.
Local Open Scope list_scope.

Lemma c12_path_roundtrips st :
  path_in_c12 st = true -> st_mods st = [] -> st_src st = None -> path_roundtrips (spathterm_term st).
Proof.
  intros Hin Hm Hs p Hp.
  assert (Hplain : p_dt p = DtNone /\ p_mt p = MtNone /\ p_src p = None).
  { pose proof Hp as Hq. unfold mk_path in Hq. unfold spathterm_term in Hq. cbn [pt_parts pt_mods pt_src] in Hq.
    rewrite Hm, Hs in Hq.
    destruct (mk_parts T idlit (map spterm_term (st_parts st))) as [[ps conc]|e]; cbn [bind apply_mods] in Hq; [|discriminate].
    injection Hq as <-. repeat split; reflexivity. }
  destruct Hplain as [Hdt [Hmt Hsrc]].
  destruct (C12_accepts st p Hin Hp Hdt Hmt Hsrc) as [specs Hsp].
  destruct (C12_roundtrip st p specs Hin Hp Hsp) as [Hj [t' [Hf Hmk]]].
  exists specs, t'. repeat split; assumption.
Qed.

(* rules over paths of the C12 fragment and conditions of the C11 fragment *)
Theorem C13_rule_roundtrip_c12 : forall st q casts g r,
  path_in_c12 st = true -> st_mods st = [] -> st_src st = None ->
  tree_in_c11 q = true -> casts_in_c13 casts = true -> flag_ok casts g ->
  mk_rule T (c13_term (spathterm_term st) q casts) = Ok r ->
  exists j rt' ex,
    rule_to_json T X (r_path r) (r_cond r) (r_cast r) g = Ok j /\ json_pure j = true /\
    rule_from_spec T X j = Ok (rt', ex) /\
    mk_rule T rt' = Ok r /\ rx_cast_given ex = g /\ rx_doc ex = VNone.
Proof.
  intros st q casts g r Hin Hm Hs Hq Hc Hg Hr.
  exact (C13_rule_roundtrip (spathterm_term st) q casts g r (c12_path_roundtrips st Hin Hm Hs) Hq Hc Hg Hr).
Qed.
Print Assumptions C13_rule_roundtrip_c12.
