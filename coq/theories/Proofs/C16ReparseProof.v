(* C16 (second half): re-parsing a spec gives an object that is == to the first parse.

   The parsers of the model are functions, so two parses of one spec give the same model object;
   what is proved here is that this object is == to ITSELF under the models of __eq__ (Eq.v),
   which is not automatic: == is only reflexive on well-formed objects (C14Proof.v).  The work is
   that the parsers PRESERVE well-formedness:

     - every literal stored in the parsed object is a sub-value of the spec, a type object from a
       lookup table, an un-escaped mapping (built by dict insertion, so its keys stay distinct), a
       default of a DSL constructor, or the inert stand-in of a path inside a literal;
     - the keyword names of every leaf are pairwise distinct (they are the distinct string keys of
       a mapping of the spec, or the fixed keyword names of the DSL constructor);
     - a data-path argument built by the parser is buildable (the parser built it) and its parts
       are well-formed;
     - the cast-from types of a rule are distinct (distinct type names of the cast block).

   Main theorems (end of file), all under [wf_val spec = true] only:
     C16_reparse_cond, C16_reparse_part (and _entry), C16_reparse_path (and _literal,
     _part_specs), C16_reparse_rule.                                                        *)
From Coq Require Import ZArith NArith List Bool String Ascii Lia.
From Valida Require Import Py Lang Defs Cond Dsl Path Cast Str SpecDefs RuleDefs Rule Spec SpecIO Eq Inst RunSpec.
From Valida.Proofs Require Import PyFacts C04Proof C14Proof C19Proof.
Import ListNotations.
Local Open Scope string_scope.
Local Open Scope list_scope.

(* ------------------------------------------------------------------ *)
(* A. well-formed values through the dict operations of the parsers     *)

Definition entry_wf (kv : pyval * pyval) : Prop :=
  wf_val (fst kv) = true /\ py_hashable (fst kv) = true /\ wf_val (snd kv) = true.

Lemma wf_entries_Forall : forall d, wf_entries d = true <-> Forall entry_wf d.
Proof.
  induction d as [ | [k v] r IH ]; [ split; [ constructor | reflexivity ] | ].
  cbn [wf_entries]. rewrite !andb_true_iff, IH. split.
  - intros [[[Hk Hh] Hv] Hr]. constructor; [ repeat split; assumption | exact Hr ].
  - intros H. inversion H as [ | ? ? [Hk [Hh Hv]] Hr ]; subst. cbn [fst snd] in *. auto.
Qed.

Lemma wf_dict_intro d : Forall entry_wf d -> keys_distinct (map fst d) = true -> wf_val (VDict d) = true.
Proof.
  intros H1 H2. apply wf_entries_Forall in H1. cbn [wf_val].
  change (wf_entries d && keys_distinct (map fst d) = true). rewrite H1, H2. reflexivity.
Qed.

Lemma wf_dict_elim d : wf_val (VDict d) = true -> Forall entry_wf d /\ keys_distinct (map fst d) = true.
Proof. intros H. destruct (wf_dict_split _ H) as [H1 H2]. split; [ apply wf_entries_Forall; exact H1 | exact H2 ]. Qed.

Lemma wf_list_Forall l : wf_val (VList l) = true <-> Forall (fun v => wf_val v = true) l.
Proof. cbn [wf_val]. rewrite forallb_forall, Forall_forall. reflexivity. Qed.
Lemma wf_tuple_Forall l : wf_val (VTuple l) = true <-> Forall (fun v => wf_val v = true) l.
Proof. cbn [wf_val]. rewrite forallb_forall, Forall_forall. reflexivity. Qed.

Lemma dict_pop_wf k : forall d x d', dict_pop k d = (x, d') -> Forall entry_wf d ->
  Forall entry_wf d' /\ (forall v, x = Some v -> wf_val v = true).
Proof.
  induction d as [ | [k2 v] r IH ]; intros x d' H Hd; cbn [dict_pop] in H.
  - inversion H; subst. split; [ constructor | discriminate ].
  - inversion Hd as [ | ? ? [Hk [Hh Hv]] Hr ]; subst. cbn [fst snd] in *.
    destruct (py_eq (VStr k) k2).
    + inversion H; subst. split; [ exact Hr | ]. intros v' E. inversion E; subst. exact Hv.
    + destruct (dict_pop k r) as [x0 r'] eqn:E. inversion H; subst.
      destruct (IH _ _ eq_refl Hr) as [H1 H2]. split; [ | exact H2 ].
      constructor; [ repeat split; assumption | exact H1 ].
Qed.

Lemma dict_look_wf k : forall d v, dict_look k d = Some v -> Forall entry_wf d -> wf_val v = true.
Proof.
  intros d v H Hd. destruct (dict_look_some _ _ _ H) as [k2 [Hin _]].
  rewrite Forall_forall in Hd. destruct (Hd _ Hin) as [_ [_ Hv]]. exact Hv.
Qed.

Lemma dict_put_entries k v : forall d, entry_wf (k, v) -> Forall entry_wf d -> Forall entry_wf (dict_put k v d).
Proof.
  intros d [Hk [Hh Hv]]. cbn [fst snd] in *. induction d as [ | [k2 v2] r IH ]; intros Hd; cbn [dict_put].
  - constructor; [ repeat split; assumption | constructor ].
  - inversion Hd as [ | ? ? [Hk2 [Hh2 Hv2]] Hr ]; subst. cbn [fst snd] in *.
    destruct (py_eq k k2).
    + constructor; [ repeat split; assumption | exact Hr ].
    + constructor; [ repeat split; assumption | apply IH; exact Hr ].
Qed.

Lemma dict_put_keys k v : forall d, map fst (dict_put k v d) =
  if existsb (py_eq k) (map fst d) then map fst d else map fst d ++ [k].
Proof.
  induction d as [ | [k2 v2] r IH ]; cbn [dict_put map fst existsb]; [ reflexivity | ].
  destruct (py_eq k k2); cbn [orb map fst]; [ reflexivity | ].
  rewrite IH. destruct (existsb (py_eq k) (map fst r)); reflexivity.
Qed.

Lemma keys_distinct_snoc k : forall ks, keys_distinct ks = true ->
  existsb (py_eq k) ks = false -> existsb (fun k2 => py_eq k2 k) ks = false ->
  keys_distinct (ks ++ [k]) = true.
Proof.
  induction ks as [ | k0 r IH ]; intros Hkd H1 H2; [ reflexivity | ].
  cbn [keys_distinct app] in *. cbn [existsb] in H1, H2.
  apply orb_false_iff in H1. destruct H1 as [H1a H1b]. apply orb_false_iff in H2. destruct H2 as [H2a H2b].
  rewrite !andb_true_iff, !negb_true_iff in Hkd. destruct Hkd as [[Ha Hb] Hr].
  rewrite !existsb_app. cbn [existsb]. rewrite Ha, Hb, H1a, H2a. cbn. apply IH; assumption.
Qed.

Lemma existsb_sym_df k ks : dict_free k = true -> existsb (fun k2 => py_eq k2 k) ks = existsb (py_eq k) ks.
Proof.
  intros Hdf. induction ks as [ | k0 r IH ]; [ reflexivity | ]. cbn [existsb].
  rewrite IH, (py_eq_sym_df k k0 Hdf). reflexivity.
Qed.

Lemma dict_put_wf k v d : entry_wf (k, v) -> wf_val (VDict d) = true -> wf_val (VDict (dict_put k v d)) = true.
Proof.
  intros He Hd. destruct (wf_dict_elim _ Hd) as [Hent Hkd].
  apply wf_dict_intro; [ apply dict_put_entries; assumption | ].
  rewrite dict_put_keys. destruct (existsb (py_eq k) (map fst d)) eqn:E; [ exact Hkd | ].
  apply keys_distinct_snoc; [ exact Hkd | exact E | ].
  rewrite existsb_sym_df; [ exact E | ]. apply hashable_dict_free. apply He.
Qed.

Lemma fold_put_wf : forall ps acc, Forall entry_wf ps -> wf_val (VDict acc) = true ->
  wf_val (VDict (fold_left (fun d kv => dict_put (fst kv) (snd kv) d) ps acc)) = true.
Proof.
  induction ps as [ | [k v] r IH ]; intros acc Hps Hacc; cbn [fold_left]; [ exact Hacc | ].
  inversion Hps as [ | ? ? Hkv Hr ]; subst. apply IH; [ exact Hr | ]. cbn [fst snd]. apply dict_put_wf; assumption.
Qed.

Lemma unescape_keys_wf : forall d keep moved found d' b,
  unescape_keys d keep moved found = Ok (d', b) ->
  Forall entry_wf d -> Forall entry_wf keep -> Forall entry_wf moved -> Forall entry_wf d'.
Proof.
  induction d as [ | [k v] r IH ]; intros keep moved found d' b H Hd Hk Hm; cbn [unescape_keys] in H.
  - inversion H; subst. apply Forall_app. split; assumption.
  - inversion Hd as [ | ? ? [Hk1 [Hk2 Hv]] Hr ]; subst. cbn [fst snd] in *.
    assert (Hgen : forall k', wf_val k' = true -> py_hashable k' = true -> Forall entry_wf (keep ++ [(k', v)])).
    { intros k' W1 W2. apply Forall_app. split; [ exact Hk | ]. constructor; [ repeat split; assumption | constructor ]. }
    destruct k as [ | | | | sk | | | | | ]; try (eapply IH; [ exact H | exact Hr | apply Hgen; assumption | exact Hm ]).
    destruct (str_contains esc_code sk);
      (eapply IH; [ exact H | exact Hr | apply Hgen; reflexivity | exact Hm ]).
Qed.

Lemma py_iter_wf v l : py_iter v = Ok l -> wf_val v = true -> Forall (fun x => wf_val x = true) l.
Proof.
  destruct v; cbn [py_iter]; intros H Hw; try discriminate; inversion H; subst.
  - apply Forall_forall. intros x Hx. apply in_map_iff in Hx. destruct Hx as [c [<- _]]. reflexivity.
  - apply wf_list_Forall. exact Hw.
  - apply wf_tuple_Forall. exact Hw.
  - destruct (wf_dict_elim _ Hw) as [Hent _]. apply Forall_forall. intros x Hx.
    apply in_map_iff in Hx. destruct Hx as [[k y] [<- Hin]]. rewrite Forall_forall in Hent.
    apply (Hent _ Hin).
Qed.

(* type names / types to types *)
Lemma to_type_wf X v v' : to_type X v = Ok v' -> wf_val v' = true.
Proof.
  destruct v; cbn [to_type]; intros H; try discriminate;
    repeat match type of H with
           | match ?x with _ => _ end = _ => destruct x
           | (if ?x then _ else _) = _ => destruct x
           end; try discriminate; inversion H; subst; reflexivity.
Qed.

Lemma mapM_to_type_wf X : forall l l', mapM (to_type X) l = Ok l' -> Forall (fun v => wf_val v = true) l'.
Proof.
  induction l as [ | x r IH ]; intros l' H; cbn [mapM] in H.
  - inversion H; subst. constructor.
  - bind_step H. bind_step H. inversion H; subst. constructor; [ eapply to_type_wf; eassumption | eauto ].
Qed.

Lemma convert_types_wf X v v' : convert_types X v = Ok v' -> wf_val v' = true.
Proof.
  destruct v; cbn [convert_types]; intros H; try (eapply to_type_wf; exact H).
  bind_step H. inversion H; subst. apply wf_list_Forall. eapply mapM_to_type_wf. eassumption.
Qed.

(* dict(spec) *)
Lemma pair_of_wf v k x : pair_of v = Ok (k, x) -> wf_val v = true -> entry_wf (k, x).
Proof.
  intros H Hw. destruct v; cbn [pair_of] in H; try discriminate.
  - destruct (str_chars s) as [ | a [ | b [ | ? ? ] ] ]; try discriminate. inversion H; subst. repeat split.
  - destruct l as [ | a [ | b [ | ? ? ] ] ]; try discriminate.
    destruct (py_hashable a) eqn:Eh; [ | discriminate ]. inversion H; subst.
    apply wf_list_Forall in Hw. inversion Hw as [ | ? ? Ha Hw' ]; subst. inversion Hw' as [ | ? ? Hb _ ]; subst.
    repeat split; assumption.
  - destruct l as [ | a [ | b [ | ? ? ] ] ]; try discriminate.
    destruct (py_hashable a) eqn:Eh; [ | discriminate ]. inversion H; subst.
    apply wf_tuple_Forall in Hw. inversion Hw as [ | ? ? Ha Hw' ]; subst. inversion Hw' as [ | ? ? Hb _ ]; subst.
    repeat split; assumption.
  - destruct d as [ | [a ?] [ | [b ?] [ | ? ? ] ] ]; try discriminate. inversion H; subst.
    destruct (wf_dict_elim _ Hw) as [Hent _].
    inversion Hent as [ | ? ? [Ha [Hha _]] Hent' ]; subst. inversion Hent' as [ | ? ? [Hb _] _ ]; subst.
    cbn [fst snd] in *. repeat split; assumption.
Qed.

Lemma mapM_pair_of_wf : forall l ps, mapM pair_of l = Ok ps -> Forall (fun v => wf_val v = true) l -> Forall entry_wf ps.
Proof.
  induction l as [ | x r IH ]; intros ps H Hl; cbn [mapM] in H.
  - inversion H; subst. constructor.
  - bind_step H. bind_step H. inversion H; subst. inversion Hl; subst. destruct a as [k y].
    constructor; [ eapply pair_of_wf; eassumption | eauto ].
Qed.

Lemma dict_of_val_wf v d : dict_of_val v = Ok d -> wf_val v = true -> wf_val (VDict d) = true.
Proof.
  intros H Hw. destruct v; cbn [dict_of_val] in H; try discriminate.
  - bind_step H. inversion H; subst. apply fold_put_wf; [ | reflexivity ].
    eapply mapM_pair_of_wf; [ exact Ha | ]. apply Forall_forall. intros x Hx.
    apply in_map_iff in Hx. destruct Hx as [c [<- _]]. reflexivity.
  - bind_step H. inversion H; subst. apply fold_put_wf; [ | reflexivity ].
    eapply mapM_pair_of_wf; [ exact Ha | ]. apply wf_list_Forall. exact Hw.
  - bind_step H. inversion H; subst. apply fold_put_wf; [ | reflexivity ].
    eapply mapM_pair_of_wf; [ exact Ha | ]. apply wf_tuple_Forall. exact Hw.
  - inversion H; subst. exact Hw.
Qed.

(* string keys that are pairwise non-== are pairwise different *)
Lemma keys_distinct_str_NoDup l : keys_distinct (map VStr l) = true -> NoDup l.
Proof.
  intros H. apply (NoDup_map_inv VStr). apply keys_distinct_NoDup; [ exact H | ].
  intros k Hk. apply in_map_iff in Hk. destruct Hk as [s [<- _]]. cbn. apply String.eqb_refl.
Qed.

(* ------------------------------------------------------------------ *)
(* B. DSL constructors: the stored arguments are the caller's arguments or well-formed defaults,
      and the stored keyword names are pairwise distinct                *)

Fixpoint nodupb (l : list string) : bool :=
  match l with [] => true | x :: r => negb (existsb (String.eqb x) r) && nodupb r end.
Lemma nodupb_NoDup : forall l, nodupb l = true -> NoDup l.
Proof.
  induction l as [ | x r IH ]; intros H; constructor; cbn [nodupb] in H;
    apply andb_true_iff in H; destruct H as [H1 H2]; [ | apply IH; exact H2 ].
  intros Hin. apply negb_true_iff in H1.
  assert (E : existsb (String.eqb x) r = true) by (apply existsb_exists; exists x; split; [ exact Hin | apply String.eqb_refl ]).
  congruence.
Qed.

Definition defaults_wf (ps : list (string * option pyval)) : bool :=
  forallb (fun p => match snd p with Some d => wf_val d | None => true end) ps.

(* keyword names written by the store instructions of a constructor *)
Fixpoint kwn (st : list store) : list string :=
  match st with [] => [] | StKw k _ :: r => k :: kwn r | _ :: r => kwn r end.
Fixpoint dstars (st : list store) : nat :=
  match st with [] => O | StDStar _ :: r => S (dstars r) | _ :: r => dstars r end.
(* either fixed, pairwise distinct keyword names, or the caller's **kwargs alone *)
Definition store_good (st : list store) : bool :=
  ((dstars st =? 0)%nat && nodupb (kwn st))
  || ((dstars st =? 1)%nat && match kwn st with [] => true | _ => false end).
Definition ctor_good (c : ctor) : bool := defaults_wf (c_params c) && store_good (c_store c).
Definition tables_good (T : tables) : bool := forallb ctor_good (t_general T ++ t_map T).

Example tables_good_example : ctor_good
  {| c_name := "equal_to_approx"; c_params := [("value", None); ("tolerance", Some (VFloat false 1%N 0%Z))];
     c_vararg := None; c_kwarg := None; c_target := "equal_to_approx";
     c_store := [StKw "value" "value"; StKw "tolerance" "tolerance"] |} = true.
Proof. vm_compute. reflexivity. Qed.

Section CtorGood.
  Variable A : Type.
  Variable lit : pyval -> A.
  Variable P : A -> Prop.
  Hypothesis P_lit : forall v, wf_val v = true -> P (lit v).

  Lemma cbind_pos_rest : forall params pos e rest extra,
    cbind_pos A params pos = (e, rest, extra) -> defaults_wf params = true -> defaults_wf rest = true.
  Proof.
    induction params as [ | [p d] ps IH ]; intros pos e rest extra H Hd; cbn [cbind_pos] in H.
    - inversion H; subst. reflexivity.
    - destruct pos as [ | v vs ]; [ inversion H; subst; exact Hd | ].
      destruct (cbind_pos A ps vs) as [[e' rest'] extra'] eqn:E. inversion H; subst.
      cbn [defaults_wf forallb] in Hd. apply andb_true_iff in Hd. destruct Hd as [_ Hd].
      eapply IH; [ exact E | exact Hd ].
  Qed.

  Lemma defaults_wf_filter f ms : defaults_wf ms = true -> defaults_wf (filter f ms) = true.
  Proof.
    unfold defaults_wf. rewrite !forallb_forall. intros H x Hx. apply filter_In in Hx. apply H. apply Hx.
  Qed.

  Lemma cbind_kw_missing : forall kw params missing hk e extra e' m' x',
    cbind_kw A params missing hk kw e extra = Ok (e', m', x') -> defaults_wf missing = true -> defaults_wf m' = true.
  Proof.
    induction kw as [ | [k v] r IH ]; intros params missing hk e extra e' m' x' H Hd; cbn [cbind_kw] in H.
    - inversion H; subst. exact Hd.
    - destruct (existsb (fun m => String.eqb k (fst m)) missing).
      + eapply IH; [ exact H | ]. apply defaults_wf_filter. exact Hd.
      + destruct (existsb (String.eqb k) params); [ discriminate | ].
        destruct hk; [ | discriminate ]. eapply IH; [ exact H | exact Hd ].
  Qed.

  (* the names of the caller's keywords left for **kwargs *)
  Lemma cbind_kw_extra_NoDup : forall kw params missing hk e extra e' m' x',
    cbind_kw A params missing hk kw e extra = Ok (e', m', x') ->
    NoDup (map fst extra ++ map fst kw) -> NoDup (map fst x').
  Proof.
    induction kw as [ | [k v] r IH ]; intros params missing hk e extra e' m' x' H Hn; cbn [cbind_kw] in H.
    - inversion H; subst. cbn [map] in Hn. rewrite app_nil_r in Hn. exact Hn.
    - cbn [map fst] in Hn.
      destruct (existsb (fun m => String.eqb k (fst m)) missing).
      + eapply IH; [ exact H | ]. eapply NoDup_remove_1. exact Hn.
      + destruct (existsb (String.eqb k) params); [ discriminate | ].
        destruct hk; [ | discriminate ]. eapply IH; [ exact H | ].
        rewrite map_app. cbn [map fst]. rewrite <- app_assoc. exact Hn.
  Qed.

  Lemma fill_defaults_P' : forall missing e e', defaults_wf missing = true -> Forall P (map snd e) ->
    fill_defaults A lit missing e = Ok e' -> Forall P (map snd e').
  Proof.
    induction missing as [ | [p [d | ]] r IH ]; intros e e' Hd He H; cbn [fill_defaults] in H.
    - inversion H; subst. exact He.
    - cbn [defaults_wf forallb snd] in Hd. apply andb_true_iff in Hd. destruct Hd as [Hw Hd].
      eapply IH; [ exact Hd | | exact H ]. cbn [map snd]. constructor; [ apply P_lit; exact Hw | exact He ].
    - discriminate.
  Qed.

  Definition store_names (xk : list (string * A)) : list store -> list string :=
    fix go st := match st with
                 | [] => []
                 | StKw k _ :: r => k :: go r
                 | StDStar _ :: r => map fst xk ++ go r
                 | _ :: r => go r
                 end.

  Lemma store_go_names e2 xp xk : forall st args kws args' kws',
    store_go A e2 xp xk st args kws = Ok (args', kws') -> map fst kws' = map fst kws ++ store_names xk st.
  Proof.
    induction st as [ | s r IH ]; intros args kws args' kws' H; cbn [store_go] in H.
    - inversion H; subst. cbn. rewrite app_nil_r. reflexivity.
    - destruct s as [ p | k p | p | p ]; cbn [store_names].
      + destruct (aget A p e2); [ | discriminate ]. eapply IH; exact H.
      + destruct (aget A p e2); [ | discriminate ]. rewrite (IH _ _ _ _ H), map_app. cbn [map fst].
        rewrite <- app_assoc. reflexivity.
      + eapply IH; exact H.
      + rewrite (IH _ _ _ _ H), map_app, <- app_assoc. reflexivity.
  Qed.

  Lemma store_names_nodstar xk : forall st, dstars st = O -> store_names xk st = kwn st.
  Proof.
    induction st as [ | s r IH ]; intros H; [ reflexivity | ].
    destruct s; cbn [store_names kwn dstars] in *; try discriminate; rewrite IH by exact H; reflexivity.
  Qed.

  Lemma store_names_onedstar xk : forall st, dstars st = 1%nat -> kwn st = [] -> store_names xk st = map fst xk.
  Proof.
    induction st as [ | s r IH ]; intros H1 H2; [ discriminate | ].
    destruct s; cbn [store_names kwn dstars] in *; try discriminate; try (apply IH; assumption).
    inversion H1 as [H1']. rewrite store_names_nodstar by exact H1'. rewrite H2. apply app_nil_r.
  Qed.

  Lemma store_names_NoDup xk st : store_good st = true -> NoDup (map fst xk) -> NoDup (store_names xk st).
  Proof.
    unfold store_good. intros H Hx. apply orb_true_iff in H. destruct H as [H | H];
      apply andb_true_iff in H; destruct H as [H1 H2]; apply Nat.eqb_eq in H1.
    - rewrite store_names_nodstar by exact H1. apply nodupb_NoDup. exact H2.
    - destruct (kwn st) eqn:E; [ | discriminate ]. rewrite store_names_onedstar by assumption. exact Hx.
  Qed.

  Lemma apply_ctor_good c pos kw args kws : ctor_good c = true ->
    Forall P pos -> Forall P (map snd kw) -> NoDup (map fst kw) ->
    apply_ctor lit c pos kw = Ok (args, kws) ->
    Forall P args /\ Forall P (map snd kws) /\ NoDup (map fst kws).
  Proof.
    intros Hg Hpos Hkw Hnd H. unfold ctor_good in Hg. apply andb_true_iff in Hg. destruct Hg as [Hdf Hst].
    unfold apply_ctor in H.
    destruct (cbind_pos A (c_params c) pos) as [[e0 missing] extra_pos] eqn:E0.
    destruct (cbind_pos_P _ _ _ _ _ _ _ Hpos E0) as [He0 Hxp].
    pose proof (cbind_pos_rest _ _ _ _ _ E0 Hdf) as Hm0.
    match type of H with bind ?r _ = _ => destruct r as [ [] | ]; [ | discriminate H ] end.
    cbn [bind] in H.
    match type of H with bind ?r _ = _ => destruct r as [ [[e1 missing'] extra_kw] | ] eqn:E1; [ | discriminate H ] end.
    cbn [bind] in H.
    assert (Hnil : Forall P (map snd (@nil (string * A)))) by constructor.
    destruct (cbind_kw_P _ _ _ _ _ _ _ _ _ _ _ Hkw He0 Hnil E1) as [He1 Hxk].
    pose proof (cbind_kw_missing _ _ _ _ _ _ _ _ _ E1 Hm0) as Hm1.
    pose proof (cbind_kw_extra_NoDup _ _ _ _ _ _ _ _ _ E1 Hnd) as Hxn.
    destruct (fill_defaults A lit missing' e1) as [ e2 | ] eqn:E2; [ | discriminate H ].
    cbn [bind] in H.
    pose proof (fill_defaults_P' _ _ _ Hm1 He1 E2) as He2.
    change (store_go A e2 extra_pos extra_kw (c_store c) [] [] = Ok (args, kws)) in H.
    assert (Hn0 : Forall P (@nil A)) by constructor.
    destruct (store_go_P A P e2 extra_pos extra_kw He2 Hxp Hxk _ _ _ _ _ Hn0 Hnil H) as [Ha Hk].
    repeat split; [ exact Ha | exact Hk | ].
    rewrite (store_go_names _ _ _ _ _ _ _ _ H). cbn [map app]. apply store_names_NoDup; assumption.
  Qed.
End CtorGood.

Section BuildGood.
  Variable T : tables.
  Hypothesis HT : tables_good T = true.
  Variable A : Type.
  Variable lit : pyval -> A.
  Variable P : A -> Prop.
  Hypothesis P_lit : forall v, wf_val v = true -> P (lit v).

  Lemma find_ctor_good k name c : find_ctor T k name = Some c -> ctor_good c = true.
  Proof.
    intros H. unfold tables_good in HT. rewrite forallb_forall in HT. apply HT. apply in_or_app.
    unfold find_ctor in H.
    destruct (if k_general k then find_ctor_in (t_general T) (alias_of (t_aliases T) name) else None) as [c'|] eqn:E.
    - inversion H; subst. left. destruct (k_general k); [ eapply find_ctor_in_In; eauto | discriminate ].
    - destruct (k_map k); [ right; eapply find_ctor_in_In; eauto | discriminate ].
  Qed.

  (* a condition all of whose leaves have distinct keyword names and arguments in P *)
  Definition cgood (c : cond A) : Prop := cond_wf c /\ Forall P (cond_args c).

  (* DSL terms whose arguments are in P and whose keyword names are distinct *)
  Fixpoint dslc_good (t : dslc A) : Prop :=
    match t with
    | DLeaf _ _ pos kw => Forall P pos /\ Forall P (map snd kw) /\ NoDup (map fst kw)
    | DNull => True
    | DBin _ a b => dslc_good a /\ dslc_good b
    end.

  Lemma build_leaf_good cls m pos kw l :
    Forall P pos -> Forall P (map snd kw) -> NoDup (map fst kw) ->
    build_leaf T lit cls m pos kw = Ok l -> leaf_wf l /\ Forall P (leaf_args l).
  Proof.
    intros Hpos Hkw Hnd H. unfold build_leaf in H.
    destruct (find_class (t_classes T) cls) as [ k | ]; [ | discriminate ].
    destruct (find_ctor T k m) as [ c | ] eqn:Ec; [ | discriminate ].
    destruct (apply_ctor lit c pos kw) as [ [args kws] | ] eqn:E; [ | discriminate ].
    cbn [bind] in H. inversion H; subst. unfold leaf_wf, leaf_args. cbn [l_args l_kwargs].
    destruct (apply_ctor_good A lit P P_lit c pos kw args kws (find_ctor_good _ _ _ Ec) Hpos Hkw Hnd E) as [Ha [Hk Hn]].
    split; [ exact Hn | apply Forall_app; split; assumption ].
  Qed.

  Lemma cgood_null : cgood CNull.
  Proof. split; [ unfold CNull; cbn [cond_wf]; unfold leaf_wf; cbn; constructor | cbn; constructor ]. Qed.

  Lemma mk_bin_good o x y c : cgood x -> cgood y -> mk_bin o x y = Ok c -> cgood c.
  Proof.
    intros [Hx1 Hx2] [Hy1 Hy2] H. split; [ | exact (mk_bin_P A P o x y c Hx2 Hy2 H) ].
    unfold mk_bin in H.
    destruct (is_null y); [ inversion H; subst; exact Hx1 | ].
    destruct (is_null x); [ inversion H; subst; exact Hy1 | ].
    match type of H with (if ?b then _ else _) = _ => destruct b end; [ discriminate | ].
    inversion H; subst. split; assumption.
  Qed.

  Lemma build_good : forall t c, dslc_good t -> build T lit t = Ok c -> cgood c.
  Proof.
    induction t as [ cls m pos kw | | o a IHa b IHb ]; intros c Hg H; cbn [build] in H.
    - destruct Hg as [Hpos [Hkw Hnd]]. bind_step H. inversion H; subst.
      destruct (build_leaf_good _ _ _ _ _ Hpos Hkw Hnd Ha) as [H1 H2]. split; assumption.
    - inversion H; subst. apply cgood_null.
    - destruct Hg as [Hga Hgb]. bind_step H. bind_step H. eapply mk_bin_good; [ | | exact H ]; eauto.
  Qed.
End BuildGood.

(* ------------------------------------------------------------------ *)
(* C. the condition parser, generic in the argument type: the DSL term it returns has arguments
      in P and distinct keyword names, provided the path parser it calls is well behaved *)

Section CondParse.
  Variable T : tables.
  Variable X : spec_tables.
  Variable A : Type.
  Variable lit : pyval -> A.
  Variable mkpath : pathterm pyval -> A.
  Variable inert : pathterm pyval -> pyval.
  Variable pfs : pyval -> res (pathterm pyval + pyval).
  Variable P : A -> Prop.
  Hypothesis P_lit : forall v, wf_val v = true -> P (lit v).
  Hypothesis H_inert : forall p, wf_val (inert p) = true.
  Hypothesis H_inl : forall v p, wf_val v = true -> pfs v = Ok (inl p) -> P (mkpath p).
  Hypothesis H_inr : forall v d, wf_val v = true -> pfs v = Ok (inr d) -> wf_val d = true.

  Definition item_good (x : pathterm pyval + pyval) : Prop :=
    match x with inl p => P (mkpath p) | inr v => wf_val v = true end.
  Definition kitem_good (kx : pyval * (pathterm pyval + pyval)) : Prop :=
    wf_val (fst kx) = true /\ py_hashable (fst kx) = true /\ item_good (snd kx).

  Lemma item_val_wf x : item_good x -> wf_val (item_val inert x) = true.
  Proof. destruct x; cbn [item_good item_val]; intros H; [ apply H_inert | exact H ]. Qed.
  Lemma item_arg_P x : item_good x -> P (item_arg A lit mkpath x).
  Proof. destruct x; cbn [item_good item_arg]; intros H; [ exact H | apply P_lit; exact H ]. Qed.

  Lemma try_path_good v x : wf_val v = true -> try_path pfs v = Ok x -> item_good x.
  Proof.
    intros Hw H. unfold try_path in H. destruct (pfs v) as [ [p | d] | e ] eqn:E.
    - inversion H; subst. cbn. eapply H_inl; eassumption.
    - inversion H; subst. cbn. eapply H_inr; eassumption.
    - destruct e; try discriminate. inversion H; subst. exact Hw.
  Qed.

  Lemma coerce_items_good : forall l xs, Forall (fun v => wf_val v = true) l ->
    coerce_items pfs l = Ok xs -> Forall item_good xs.
  Proof.
    induction l as [ | v r IH ]; intros xs Hl H; cbn [coerce_items] in H.
    - inversion H; subst. constructor.
    - inversion Hl as [ | ? ? Hv Hr ]; subst. bs H x Hx. bs H ys Hys. inversion H; subst.
      constructor; [ eapply try_path_good; eassumption | eapply IH; eassumption ].
  Qed.

  Lemma coerce_kvs_good : forall d xs, Forall entry_wf d ->
    coerce_kvs pfs d = Ok xs -> map fst xs = map fst d /\ Forall kitem_good xs.
  Proof.
    induction d as [ | [k v] r IH ]; intros xs Hd H; cbn [coerce_kvs] in H.
    - inversion H; subst. split; [ reflexivity | constructor ].
    - inversion Hd as [ | ? ? [Hk [Hh Hv]] Hr ]; subst. cbn [fst snd] in *. bs H x Hx. bs H ys Hys. inversion H; subst.
      destruct (IH _ Hr Hys) as [I1 I2]. split; [ cbn [map fst]; rewrite I1; reflexivity | ].
      constructor; [ | exact I2 ]. repeat split; try assumption. cbn [snd]. eapply try_path_good; eassumption.
  Qed.

  Definition coerced_good (cv : coerced) : Prop :=
    match cv with
    | CPath p => P (mkpath p)
    | CVal v => wf_val v = true
    | CDict items => Forall kitem_good items /\ keys_distinct (map fst items) = true
    | CSeq _ items => Forall item_good items
    end.

  Lemma coerce_good v cv : wf_val v = true -> coerce pfs v = Ok cv -> coerced_good cv.
  Proof.
    intros Hw H. destruct v; cbn [coerce] in H; try (inversion H; subst; exact Hw).
    - bs H xs Hxs. inversion H; subst. cbn [coerced_good]. eapply coerce_items_good; [ | exact Hxs ].
      apply wf_list_Forall. exact Hw.
    - bs H u Hu. inversion H; subst. cbn [coerced_good]. apply wf_tuple_Forall in Hw.
      apply Forall_forall. intros x Hx. apply in_map_iff in Hx. destruct Hx as [y [<- Hy]].
      rewrite Forall_forall in Hw. cbn. apply Hw. exact Hy.
    - destruct (pfs (VDict d)) as [ [p | d'] | e ] eqn:E.
      + inversion H; subst. cbn. eapply H_inl; eassumption.
      + pose proof (H_inr _ _ Hw E) as Hd'.
        destruct d' as [ | | | | | | | d'' | | ]; inversion H; subst; try exact Hd'.
        cbn [coerced_good]. destruct (wf_dict_elim _ Hd') as [Hent Hkd]. split.
        * apply Forall_forall. intros x Hx. apply in_map_iff in Hx. destruct Hx as [[k y] [<- Hy]].
          rewrite Forall_forall in Hent. destruct (Hent _ Hy) as [H1 [H2 H3]]. repeat split; assumption.
        * rewrite map_map. cbn [fst]. exact Hkd.
      + destruct e; try discriminate. bs H xs Hxs. inversion H; subst.
        destruct (wf_dict_elim _ Hw) as [Hent Hkd]. destruct (coerce_kvs_good _ _ Hent Hxs) as [I1 I2].
        cbn [coerced_good]. split; [ exact I2 | rewrite I1; exact Hkd ].
  Qed.

  Lemma coerced_val_P cv : coerced_good cv -> P (coerced_val A lit mkpath inert cv).
  Proof.
    destruct cv as [ p | v | items | tup items ]; cbn [coerced_good coerced_val]; intros H.
    - exact H.
    - apply P_lit. exact H.
    - destruct H as [H1 H2]. apply P_lit. apply wf_dict_intro.
      + apply Forall_forall. intros x Hx. apply in_map_iff in Hx. destruct Hx as [[k y] [<- Hy]].
        rewrite Forall_forall in H1. destruct (H1 _ Hy) as [I1 [I2 I3]]. cbn [fst snd] in *.
        repeat split; try assumption. cbn [snd]. apply item_val_wf. exact I3.
      + rewrite map_map. cbn [fst]. exact H2.
    - apply P_lit.
      assert (Hall : Forall (fun v => wf_val v = true) (map (item_val inert) items)).
      { apply Forall_forall. intros x Hx. apply in_map_iff in Hx. destruct Hx as [y [<- Hy]].
        rewrite Forall_forall in H. apply item_val_wf. apply H. exact Hy. }
      destruct tup; [ apply wf_tuple_Forall | apply wf_list_Forall ]; exact Hall.
  Qed.

  Lemma kw_of_good : forall items k, Forall kitem_good items -> kw_of A lit mkpath items = Ok k ->
    map fst items = map VStr (map fst k) /\ Forall P (map snd k).
  Proof.
    induction items as [ | [key x] r IH ]; intros k Hi H; cbn [kw_of] in H.
    - inversion H; subst. split; [ reflexivity | constructor ].
    - inversion Hi as [ | ? ? [_ [_ Hx]] Hr ]; subst. cbn [snd] in Hx.
      destruct key; try discriminate. bs H rest Hrest. inversion H; subst.
      destruct (IH _ Hr Hrest) as [I1 I2]. cbn [map fst snd]. split; [ rewrite I1; reflexivity | ].
      constructor; [ apply item_arg_P; exact Hx | exact I2 ].
  Qed.

  Lemma kw_of_triple items k : Forall kitem_good items -> keys_distinct (map fst items) = true ->
    kw_of A lit mkpath items = Ok k ->
    Forall P (@nil A) /\ Forall P (map snd k) /\ NoDup (map fst k).
  Proof.
    intros Hi Hkd H. destruct (kw_of_good _ _ Hi H) as [I1 I2]. repeat split; [ constructor | exact I2 | ].
    apply keys_distinct_str_NoDup. rewrite <- I1. exact Hkd.
  Qed.

  Lemma seq_triple items : Forall item_good items ->
    Forall P (map (item_arg A lit mkpath) items) /\ Forall P (map snd (@nil (string * A))) /\ NoDup (map fst (@nil (string * A))).
  Proof.
    intros H. repeat split; [ | constructor | constructor ].
    apply Forall_forall. intros x Hx. apply in_map_iff in Hx. destruct Hx as [y [<- Hy]].
    rewrite Forall_forall in H. apply item_arg_P. apply H. exact Hy.
  Qed.

  Lemma dispatch_good c cv b pos kw : coerced_good cv ->
    dispatch A lit mkpath inert c cv b = Ok (pos, kw) ->
    Forall P pos /\ Forall P (map snd kw) /\ NoDup (map fst kw).
  Proof.
    intros Hg H. unfold dispatch in H.
    repeat match type of H with (if ?c then _ else _) = _ => destruct c end; try discriminate.
    - inversion H; subst. repeat split; constructor.
    - inversion H; subst. repeat split; try constructor; [ apply coerced_val_P; exact Hg | constructor ].
    - destruct cv as [ p | v | items | tup items ]; try discriminate.
      + bs H k Hk. inversion H; subst. destruct Hg as [G1 G2]. eapply kw_of_triple; eassumption.
      + inversion H; subst. apply seq_triple. exact Hg.
    - destruct cv as [ p | v | items | tup items ]; try discriminate.
      destruct tup; [ discriminate | ]. inversion H; subst. apply seq_triple. exact Hg.
    - destruct cv as [ p | v | items | tup items ]; try discriminate.
      bs H k Hk. inversion H; subst. destruct Hg as [G1 G2]. eapply kw_of_triple; eassumption.
  Qed.

  Notation tgood := (dslc_good A P).

  Lemma parse_leaf_good key spec_val p : wf_val spec_val = true ->
    parse_leaf T X A lit mkpath inert pfs key spec_val = Ok p -> tgood (fst p).
  Proof.
    intros Hw H. unfold parse_leaf in H. cbv zeta in H.
    destruct (assoc_str _ (sx_datum_types X)) as [cls_name|]; [|discriminate].
    match type of H with (if ?c then _ else _) = _ => destruct c end; [discriminate|].
    destruct (find_class (t_classes T) cls_name) as [k0|] eqn:Ek0; [|discriminate].
    bs H kv Hkv. destruct kv as [k v1].
    assert (Hv1 : wf_val v1 = true).
    { match type of Hkv with (if ?c then _ else _) = _ => destruct c end.
      - bs Hkv v' Hv'. bs Hkv k' Hk'. inversion Hkv; subst.
        match type of Hv' with (if ?c then _ else _) = _ => destruct c end;
          [ eapply convert_types_wf; exact Hv' | inversion Hv'; subst; exact Hw ].
      - inversion Hkv; subst. exact Hw. }
    clear Hkv. bs H v2 Hv2.
    assert (Hw2 : wf_val v2 = true).
    { match type of Hv2 with (if ?c then _ else _) = _ => destruct c end;
        [ eapply convert_types_wf; exact Hv2 | inversion Hv2; subst; exact Hv1 ]. }
    clear Hv2.
    match type of H with match find_ctor T k ?call with _ => _ end = _ => destruct (find_ctor T k call) as [c|] eqn:Ec end;
      [|discriminate].
    bs H cv Hcv. bs H pk Hpk. destruct pk as [pos kw]. bs H l Hl. inversion H; subst.
    cbn [fst dslc_good]. eapply dispatch_good; [ | exact Hpk ]. eapply coerce_good; eassumption.
  Qed.

  Section StepGood.
    Variable self : pyval -> res (dslc A * cond A).
    Hypothesis Hself : forall s p, wf_val s = true -> self s = Ok p -> tgood (fst p).

    Lemma fold_good o : forall items acc p,
      Forall (fun v => wf_val v = true) items -> tgood (fst acc) ->
      (fix fold (items : list pyval) (acc : dslc A * cond A) : res (dslc A * cond A) :=
         match items with
         | [] => Ok acc
         | i :: r =>
             let* (ti, ci) := self i in
             let* c := mk_bin o (snd acc) ci in
             fold r (DBin o (fst acc) ti, c)
         end) items acc = Ok p -> tgood (fst p).
    Proof.
      induction items as [ | i r IH ]; intros acc p Hi Hacc H; [ inversion H; subst; exact Hacc | ].
      inversion Hi as [ | ? ? Hwi Hr ]; subst.
      bs H tc Htc. destruct tc as [ti ci]. bs H c Hc.
      eapply IH; [ exact Hr | | exact H ]. cbn [fst dslc_good]. split; [ exact Hacc | ].
      apply (Hself _ _ Hwi Htc).
    Qed.

    Lemma step_good spec p : wf_val spec = true ->
      cond_from_spec_step T X A lit mkpath inert pfs self spec = Ok p -> tgood (fst p).
    Proof.
      intros Hw H. unfold cond_from_spec_step in H.
      destruct (negb (py_truthy spec)); [ inversion H; subst; exact I | ].
      destruct spec; try discriminate.
      destruct d as [ | [k v] r ]; [ discriminate | ].
      destruct k; destruct r; try discriminate.
      destruct (wf_dict_elim _ Hw) as [Hent _]. inversion Hent as [ | ? ? [_ [_ Hv]] _ ]; subst. cbn [snd] in Hv.
      destruct (assoc_str s (sx_binops X)) as [o|].
      - destruct v; try discriminate.
        + eapply fold_good; [ | | exact H ]; [ apply wf_list_Forall; exact Hv | exact I ].
        + eapply fold_good; [ | | exact H ]; [ apply wf_tuple_Forall; exact Hv | exact I ].
      - eapply parse_leaf_good; eassumption.
    Qed.
  End StepGood.

  Lemma cond_from_spec_good : forall fuel spec p, wf_val spec = true ->
    cond_from_spec T X A lit mkpath inert pfs fuel spec = Ok p -> tgood (fst p).
  Proof.
    induction fuel as [ | f IH ]; intros spec p Hw H; cbn [cond_from_spec] in H; [ discriminate | ].
    eapply step_good; [ | exact Hw | exact H ]. exact IH.
  Qed.
End CondParse.

(* ------------------------------------------------------------------ *)
(* D. parts and paths built from good terms are good                     *)

Definition olabel_wf (l : option pyval) : Prop := match l with Some v => wf_val v = true | None => True end.

Section PathGood.
  Variable T : tables.
  Hypothesis HT : tables_good T = true.
  Variable A : Type.
  Variable lit : pyval -> A.
  Variable P : A -> Prop.
  Hypothesis P_lit : forall v, wf_val v = true -> P (lit v).

  Notation tgood := (dslc_good A P).
  Notation cgd := (cgood A P).

  Definition carg_good (a : option (carg A)) : Prop :=
    match a with Some (KCond t) => tgood t | Some (KLit v) => wf_val v = true | None => True end.

  Definition pterm_good (t : pterm A) : Prop :=
    match t with
    | PtPrim v => wf_val v = true
    | PtMap k v c l => carg_good k /\ carg_good v /\ carg_good c /\ olabel_wf l
    | PtList i v c l => carg_good i /\ carg_good v /\ carg_good c /\ olabel_wf l
    | PtMol k i v lc mc c l =>
        carg_good k /\ carg_good i /\ carg_good v /\ carg_good lc /\ carg_good mc /\ carg_good c /\ olabel_wf l
    end.

  Definition part_good (p : part A) : Prop :=
    match p with
    | PMap c l | PList c l => cgd c /\ olabel_wf l
    | PMol c lc mc l => cgd c /\ cgd lc /\ cgd mc /\ olabel_wf l
    end.

  Lemma norm_arg_good a : carg_good a -> carg_good (norm_arg A a).
  Proof. destruct a as [[[]|]|]; cbn; auto. Qed.

  Lemma datum_build_good cls d dc : carg_good (Some d) ->
    match d with
    | KCond t => build T lit t
    | KLit v => build T lit (DLeaf cls "equal_to" [lit v] [])
    end = Ok dc -> cgd dc.
  Proof.
    intros Hd H. destruct d as [v|t]; (eapply (build_good T HT A lit P P_lit); [ | exact H ]).
    - cbn in Hd. cbn [dslc_good map]. repeat split; try constructor; [ apply P_lit; exact Hd | constructor ].
    - exact Hd.
  Qed.

  Lemma datum_and_good (datum : option (carg A)) cls kind (c1 c2 : cond A) :
    carg_good datum -> cgd c1 ->
    match norm_arg A datum with
    | None => Ok c1
    | Some d =>
        let* dc := match d with KCond t => build T lit t | KLit v => build T lit (DLeaf cls "equal_to" [lit v] []) end in
        if is_null dc then mk_bin BoAnd c1 dc
        else if is_like kind dc then mk_bin BoAnd c1 dc else Err TypeError
    end = Ok c2 -> cgd c2.
  Proof.
    intros Hd Hc1 H. apply norm_arg_good in Hd. destruct (norm_arg A datum) as [d|]; [ | inversion H; subst; exact Hc1 ].
    bs H dc Hdc. pose proof (datum_build_good _ _ _ Hd Hdc) as Hg.
    destruct (is_null dc); [ eapply (mk_bin_good A P); [ | | exact H ]; assumption | ].
    destruct (is_like kind dc); [ eapply (mk_bin_good A P); [ | | exact H ]; assumption | discriminate ].
  Qed.

  Lemma gcvc_good condition datum cls kind c :
    carg_good condition -> carg_good datum ->
    gcvc T lit condition datum cls kind = Ok c -> cgd c.
  Proof.
    intros Hc Hd H. unfold gcvc in H. apply norm_arg_good in Hc.
    bs H c0 Hc0.
    assert (G0 : cgd c0).
    { destruct (norm_arg A condition) as [[v|t]|]; [ discriminate | | inversion Hc0; subst; apply cgood_null ].
      eapply (build_good T HT A lit P P_lit); [ exact Hc | exact Hc0 ]. }
    eapply datum_and_good; [ exact Hd | exact G0 | ].
    destruct (norm_arg A datum) as [d|]; exact H.
  Qed.

  Ltac gg Hx := eapply gcvc_good; [ | | exact Hx ]; cbn [carg_good]; auto.

  Lemma mk_part_good t p b : pterm_good t -> mk_part T lit t = Ok (p, b) -> part_good p.
  Proof.
    intros Hok H. destruct t as [v|key value cnd label|index value cnd label|key index value lcnd mcnd cnd label];
      cbn [mk_part] in H.
    - cbn [pterm_good] in Hok. destruct v; try discriminate.
      + bs H lc Hlc. bs H mc Hmc. inversion H; subst. cbn [part_good].
        split; [ apply cgood_null | split; [ gg Hlc | split; [ gg Hmc | exact I ] ] ].
      + bs H lc Hlc. bs H mc Hmc. inversion H; subst. cbn [part_good].
        split; [ apply cgood_null | split; [ gg Hlc | split; [ gg Hmc | exact I ] ] ].
      + bs H c Hc. inversion H; subst. cbn [part_good]. split; [ gg Hc | exact I ].
      + bs H c Hc. inversion H; subst. cbn [part_good]. split; [ gg Hc | exact I ].
    - destruct Hok as (Hk & Hv & Hc & Hl).
      bs H u1 Hu1. bs H u2 Hu2. bs H u3 Hu3. bs H c1 Hc1. bs H c2 Hc2. inversion H; subst.
      cbn [part_good]. split; [ | exact Hl ].
      eapply datum_and_good; [ exact Hv | | exact Hc2 ]. gg Hc1.
    - destruct Hok as (Hk & Hv & Hc & Hl).
      bs H u1 Hu1. bs H u2 Hu2. bs H u3 Hu3. bs H c1 Hc1. bs H c2 Hc2. inversion H; subst.
      cbn [part_good]. split; [ | exact Hl ].
      eapply datum_and_good; [ exact Hv | | exact Hc2 ]. gg Hc1.
    - destruct Hok as (Hk & Hi & Hv & Hlc & Hmc & Hc & Hl).
      bs H u1 Hu1. bs H u2 Hu2. bs H u3 Hu3. bs H u4 Hu4. bs H u5 Hu5. bs H u6 Hu6.
      bs H lc Hlc'. bs H mc Hmc'. bs H c Hc'. inversion H; subst.
      cbn [part_good].
      split; [ exact (gcvc_good _ _ _ _ _ Hc Hv Hc') | ].
      split; [ exact (gcvc_good _ _ _ _ _ Hlc Hi Hlc') | ].
      split; [ exact (gcvc_good _ _ _ _ _ Hmc Hk Hmc') | exact Hl ].
  Qed.

  Lemma mk_parts_good : forall ts ps conc, Forall pterm_good ts -> mk_parts T lit ts = Ok (ps, conc) -> Forall part_good ps.
  Proof.
    induction ts as [|t r IH]; intros ps conc Hok H; cbn [mk_parts] in H.
    - inversion H; subst. constructor.
    - inversion Hok; subst. bs H pe Hpe. destruct pe as [p explicit]. bs H pc Hpc. destruct pc as [ps' conc'].
      inversion H; subst. constructor; [ eapply mk_part_good; eassumption | eapply IH; eassumption ].
  Qed.

  Lemma apply_mod_same (p p' : dpath A) m : apply_mod p m = Ok p' -> p_parts p' = p_parts p /\ p_src p' = p_src p.
  Proof.
    unfold apply_mod. destruct (dt_of_name m).
    - destruct (p_dt p); intros H; inversion H; subst; split; reflexivity.
    - destruct (mt_of_name m); [ | discriminate ].
      destruct (p_mt p); try discriminate. destruct (p_concrete p); [ discriminate | ].
      intros H; inversion H; subst; split; reflexivity.
  Qed.

  Lemma apply_mods_same : forall ms (p p' : dpath A), apply_mods p ms = Ok p' -> p_parts p' = p_parts p /\ p_src p' = p_src p.
  Proof.
    induction ms as [|m r IH]; intros p p' H; cbn [apply_mods] in H.
    - inversion H; subst. split; reflexivity.
    - bs H q Hq. destruct (apply_mod_same _ _ _ Hq) as [E1 E2]. destruct (IH _ _ H) as [F1 F2]. split; congruence.
  Qed.

  Definition dpath_good (x : dpath A) : Prop := Forall part_good (p_parts x) /\ olabel_wf (p_src x).

  Lemma mk_path_good t x : Forall pterm_good (pt_parts t) -> olabel_wf (pt_src t) -> mk_path T lit t = Ok x -> dpath_good x.
  Proof.
    intros Hp Hs H. unfold mk_path in H. bs H pc Hpc. destruct pc as [ps conc].
    destruct (apply_mods_same _ _ _ H) as [E1 E2]. cbn [p_parts p_src] in E1, E2.
    unfold dpath_good. rewrite E1, E2. split; [ eapply mk_parts_good; eassumption | exact Hs ].
  Qed.
End PathGood.

(* literal arguments: P is well-formedness *)
Definition WFP (v : pyval) : Prop := wf_val v = true.
Lemma WFP_lit : forall v, wf_val v = true -> WFP (id0 v).
Proof. intros v H. exact H. Qed.

Lemma cgood_cond0_ok c : cgood pyval WFP c -> cond0_ok wf_val c.
Proof. intros [H1 H2]. split; [ exact H1 | ]. rewrite Forall_forall in H2. exact H2. Qed.

Lemma olabel_wf_ok l : olabel_wf l -> olabel_ok wf_val l.
Proof. destruct l; cbn; intros H; [ exact H | reflexivity ]. Qed.

Lemma part_good_ok p : part_good pyval WFP p -> part_ok wf_val p.
Proof.
  destruct p; cbn [part_good part_ok].
  - intros [H1 H2]. split; [ apply cgood_cond0_ok; exact H1 | apply olabel_wf_ok; exact H2 ].
  - intros [H1 H2]. split; [ apply cgood_cond0_ok; exact H1 | apply olabel_wf_ok; exact H2 ].
  - intros [H1 [H2 [H3 H4]]]. repeat split; try (apply cgood_cond0_ok; assumption); try apply H1; try apply H2; try apply H3.
    apply olabel_wf_ok; exact H4.
Qed.

Lemma dpath_good_ok x : dpath_good pyval WFP x -> path_ok wf_val x.
Proof.
  intros [H1 H2]. split; [ | apply olabel_wf_ok; exact H2 ].
  intros y Hy. rewrite Forall_forall in H1. apply part_good_ok. apply H1. exact Hy.
Qed.

(* ------------------------------------------------------------------ *)
(* E. the part / path parsers return good terms                          *)

Notation tgood0 := (dslc_good pyval WFP).
Notation pterm_good0 := (pterm_good pyval WFP).

Section PartParse.
  Variable T : tables.
  Variable X : spec_tables.
  Hypothesis HT : tables_good T = true.
  Variable cond0 : pyval -> res (dslc pyval * cond pyval).
  Hypothesis Hc_good : forall s p, wf_val s = true -> cond0 s = Ok p -> tgood0 (fst p).

  Lemma and_on_good acc sub r : tgood0 (fst acc) -> tgood0 (fst sub) -> and_on acc sub = Ok r -> tgood0 (fst r).
  Proof. unfold and_on. intros Ha Hs H. bs H c Hc. inversion H; subst. cbn [fst dslc_good]. split; assumption. Qed.

  Lemma pop_cond_good k d c d' : Forall entry_wf d -> pop_cond cond0 k d = Ok (c, d') ->
    tgood0 (fst c) /\ Forall entry_wf d'.
  Proof.
    unfold pop_cond. intros Hd. destruct (dict_pop k d) as [x d1] eqn:E.
    destruct (dict_pop_wf _ _ _ _ E Hd) as [E1 E2].
    intros H. destruct x as [v|]; [ | inversion H; subst; split; [ exact I | exact E1 ] ].
    pose proof (E2 _ eq_refl) as Hv.
    destruct v; try (inversion H; subst; split; [ exact I | exact E1 ]).
    all: bs H c0 Hc0; inversion H; subst; split; [ eapply Hc_good; [ exact Hv | exact Hc0 ] | exact E1 ].
  Qed.

  Lemma pop_kind_good k kind acc d c d' : tgood0 (fst acc) -> Forall entry_wf d ->
    pop_kind cond0 k kind acc d = Ok (c, d') -> tgood0 (fst c) /\ Forall entry_wf d'.
  Proof.
    unfold pop_kind. intros Hacc Hd. destruct (dict_pop k d) as [x d1] eqn:E.
    destruct (dict_pop_wf _ _ _ _ E Hd) as [E1 E2].
    intros H. destruct x as [v|]; [ | inversion H; subst; split; [ exact Hacc | exact E1 ] ].
    pose proof (E2 _ eq_refl) as Hv.
    destruct v; try (inversion H; subst; split; [ exact Hacc | exact E1 ]).
    all: bs H c0 Hc0; destruct (is_like_strict kind (snd c0)); [ | discriminate ];
      bs H r Hr; inversion H; subst; split; [ | exact E1 ];
      eapply and_on_good; [ exact Hacc | | exact Hr ]; eapply Hc_good; [ exact Hv | exact Hc0 ].
  Qed.

  Lemma split_short_good pre : forall d s o, split_short pre d = Ok (s, o) -> Forall entry_wf d ->
    Forall entry_wf s /\ Forall entry_wf o.
  Proof.
    induction d as [|[k v] r IH]; intros s o H Hd; cbn [split_short] in H.
    - inversion H; subst. split; constructor.
    - inversion Hd as [ | ? ? Hkv Hr ]; subst.
      destruct k as [| | | |sk| | | | |]; bs H so Hso; destruct so as [ss oo]; destruct (IH _ _ Hso Hr) as [H1 H2];
        try (inversion H; subst; split; [ exact H1 | constructor; assumption ]).
      destruct (String.prefix pre sk); inversion H; subst; split; try assumption; constructor; assumption.
  Qed.

  Lemma single_dict_wf k v : entry_wf (k, v) -> wf_val (VDict [(k, v)]) = true.
  Proof. intros H. apply wf_dict_intro; [ constructor; [ exact H | constructor ] | reflexivity ]. Qed.

  Lemma fold_short_good : forall shorts acc r, Forall entry_wf shorts -> tgood0 (fst acc) ->
    fold_short cond0 shorts acc = Ok r -> tgood0 (fst r).
  Proof.
    induction shorts as [|[k v] s IH]; intros acc r Hs Hacc H; cbn [fold_short] in H.
    - inversion H; subst. exact Hacc.
    - inversion Hs as [ | ? ? Hkv Hr ]; subst. bs H c Hc. bs H acc' Hacc'. eapply IH; [ exact Hr | | exact H ].
      eapply and_on_good; [ exact Hacc | | exact Hacc' ]. eapply Hc_good; [ | exact Hc ]. apply single_dict_wf. exact Hkv.
  Qed.

  Lemma shorthands_good pre acc d c d' : tgood0 (fst acc) -> Forall entry_wf d ->
    shorthands cond0 pre acc d = Ok (c, d') -> tgood0 (fst c) /\ Forall entry_wf d'.
  Proof.
    unfold shorthands. intros Hacc Hd H. bs H so Hso. destruct so as [s o].
    destruct (split_short_good _ _ _ _ Hso Hd) as [Hs Ho]. bs H acc' Hacc'. inversion H; subst.
    split; [ exact (fold_short_good _ _ _ Hs Hacc Hacc') | exact Ho ].
  Qed.

  Lemma pop_label_good d label d' : dict_pop "label" d = (label, d') -> Forall entry_wf d -> olabel_wf label.
  Proof.
    intros E Hd. destruct (dict_pop_wf _ _ _ _ E Hd) as [_ E2]. destruct label; cbn; [ apply E2; reflexivity | exact I ].
  Qed.

  Lemma part_from_spec_good d0 t : Forall entry_wf d0 -> part_from_spec T X cond0 d0 = Ok t -> pterm_good0 t.
  Proof.
    intros W0 H. unfold part_from_spec in H.
    destruct (dict_pop "type" d0) as [ty d1] eqn:E0. destruct (dict_pop_wf _ _ _ _ E0 W0) as [W1 _].
    bs H cls Hcls. clear Hcls.
    bs H r Hr. destruct r as [cnd d2]. apply pop_cond_good in Hr as [G1 W2]; [ | exact W1 ].
    bs H r Hr. destruct r as [lcnd d3]. apply pop_cond_good in Hr as [G2 W3]; [ | exact W2 ].
    bs H r Hr. destruct r as [mcnd d4]. apply pop_cond_good in Hr as [G3 W4]; [ | exact W3 ].
    bs H r Hr. destruct r as [cnd1 d5]. apply pop_kind_good in Hr as [G4 W5]; [ | exact G1 | exact W4 ].
    bs H r Hr. destruct r as [cnd2 d6]. apply shorthands_good in Hr as [G5 W6]; [ | exact G4 | exact W5 ].
    destruct (String.eqb cls "MapValue"); [ | destruct (String.eqb cls "ListValue") ].
    - bs H r Hr. destruct r as [c3 d7]. apply shorthands_good in Hr as [G6 W7]; [ | exact G5 | exact W6 ].
      bs H r Hr. destruct r as [c4 d8]. apply pop_kind_good in Hr as [G7 W8]; [ | exact G6 | exact W7 ].
      destruct (dict_pop "label" d8) as [label d9] eqn:EL. pose proof (pop_label_good _ _ _ EL W8) as GL.
      destruct d9; [ | discriminate ]. bs H r Hr. inversion H; subst.
      cbn [pterm_good carg_good to_carg]. repeat split; try exact I; assumption.
    - bs H r Hr. destruct r as [c3 d7]. apply shorthands_good in Hr as [G6 W7]; [ | exact G5 | exact W6 ].
      bs H r Hr. destruct r as [c4 d8]. apply pop_kind_good in Hr as [G7 W8]; [ | exact G6 | exact W7 ].
      destruct (dict_pop "label" d8) as [label d9] eqn:EL. pose proof (pop_label_good _ _ _ EL W8) as GL.
      destruct d9; [ | discriminate ]. bs H r Hr. inversion H; subst.
      cbn [pterm_good carg_good to_carg]. repeat split; try exact I; assumption.
    - bs H r Hr. destruct r as [l1 d7]. apply shorthands_good in Hr as [G6 W7]; [ | exact G2 | exact W6 ].
      bs H r Hr. destruct r as [m1 d8]. apply shorthands_good in Hr as [G7 W8]; [ | exact G3 | exact W7 ].
      bs H r Hr. destruct r as [l2 d9]. apply pop_kind_good in Hr as [G8 W9]; [ | exact G6 | exact W8 ].
      bs H r Hr. destruct r as [m2 d10]. apply pop_kind_good in Hr as [G9 W10]; [ | exact G7 | exact W9 ].
      destruct (dict_pop "label" d10) as [label d11] eqn:EL. pose proof (pop_label_good _ _ _ EL W10) as GL.
      destruct d11; [ | discriminate ]. cbv zeta in H. bs H r Hr. inversion H; subst.
      cbn [pterm_good carg_good to_carg]. repeat split; try exact I; assumption.
  Qed.

  Lemma parts_from_specs_good : forall l ps, Forall (fun v => wf_val v = true) l ->
    parts_from_specs T X cond0 l = Ok ps -> Forall pterm_good0 ps.
  Proof.
    induction l as [|v r IH]; intros ps Hl H; cbn [parts_from_specs] in H.
    - inversion H; subst. constructor.
    - inversion Hl as [ | ? ? Hv Hr ]; subst.
      destruct v; try (bs H ps' Hps; inversion H; subst; constructor; [ exact Hv | eauto ]).
      bs H p0 Hp0. bs H ps' Hps. inversion H; subst. constructor; [ | eauto ].
      eapply part_from_spec_good; [ | exact Hp0 ]. apply wf_dict_elim. exact Hv.
  Qed.

  (* a path term the parser has built: good parts, no source data, and mk_path succeeded on it *)
  Definition pathterm_good (t : pathterm pyval) : Prop :=
    Forall pterm_good0 (pt_parts t) /\ pt_src t = None /\ exists x, mk_path T id0 t = Ok x.

  Lemma path_from_part_specs_good l t : Forall (fun v => wf_val v = true) l ->
    path_from_part_specs T X cond0 l = Ok t -> pathterm_good t /\ pt_mods t = [].
  Proof.
    intros Hl H. unfold path_from_part_specs in H. bs H ps Hps. cbv zeta in H. bs H x Hx. inversion H; subst.
    split; [ | reflexivity ]. split; [ | split; [ reflexivity | exists x; exact Hx ] ].
    cbn [pt_parts]. eapply parts_from_specs_good; eassumption.
  Qed.

  Lemma mod_loop_good (t : pathterm pyval) : forall ms done r,
    (exists x, mk_path T id0 {| pt_parts := pt_parts t; pt_mods := done; pt_src := None |} = Ok x) ->
    (fix go (ms done : list string) : res (pathterm pyval + pyval) :=
       match ms with
       | [] => Ok (inl {| pt_parts := pt_parts t; pt_mods := done; pt_src := None |})
       | m :: r =>
           if negb (existsb (String.eqb m) (sx_allowed_suffixes X)) then Err MalformedPath
           else
             let t' := {| pt_parts := pt_parts t; pt_mods := done ++ [m]; pt_src := None |} in
             let* _ := mk_path T id0 t' in go r (done ++ [m])
       end) ms done = Ok r ->
    exists t', r = inl t' /\ pt_parts t' = pt_parts t /\ pt_src t' = None /\ exists x, mk_path T id0 t' = Ok x.
  Proof.
    induction ms as [|m0 r0 IH]; intros done r Hb H.
    - inversion H; subst. eexists. split; [ reflexivity | ]. cbn [pt_parts pt_src]. repeat split. exact Hb.
    - destruct (negb (existsb (String.eqb m0) (sx_allowed_suffixes X))); [ discriminate | ].
      cbv zeta in H. bs H x Hx. eapply IH; [ | exact H ]. exists x. exact Hx.
  Qed.

  Lemma path_from_spec0_good spec r : wf_val spec = true -> path_from_spec0 T X cond0 spec = Ok r ->
    match r with inl t => pathterm_good t | inr d => wf_val d = true end.
  Proof.
    intros Hw H. unfold path_from_spec0 in H.
    destruct spec; try discriminate.
    destruct d as [|[k0 v0] rest]; [ discriminate | ].
    cbv zeta in H. bs H de Hde. destruct de as [d' escaped].
    destruct (wf_dict_elim _ Hw) as [Hent _].
    destruct escaped.
    - inversion H; subst. apply fold_put_wf; [ | reflexivity ].
      eapply unescape_keys_wf; [ exact Hde | exact Hent | constructor | constructor ].
    - destruct rest; [ | discriminate ].
      destruct k0; try discriminate.
      match type of H with (if ?c then _ else _) = _ => destruct c end; [ discriminate | ].
      bs H parts Hparts. bs H t Ht.
      inversion Hent as [ | ? ? [_ [_ Hv0]] _ ]; subst. cbn [snd] in Hv0.
      destruct (path_from_part_specs_good _ _ (py_iter_wf _ _ Hparts Hv0) Ht) as [[G1 [G2 G3]] G4].
      assert (Hb : exists x, mk_path T id0 {| pt_parts := pt_parts t; pt_mods := []; pt_src := None |} = Ok x).
      { destruct t as [tp tm ts]. cbn [pt_parts pt_mods pt_src] in *. subst. exact G3. }
      destruct (mod_loop_good t _ _ _ Hb H) as [t' [-> [F1 [F2 F3]]]].
      split; [ rewrite F1; exact G1 | split; [ exact F2 | exact F3 ] ].
  Qed.
End PartParse.

(* tying the knot *)
Lemma inert0_wf : forall p, wf_val (inert0 p) = true.
Proof. intros p. reflexivity. Qed.

Lemma cond0_from_spec_good T X (HT : tables_good T = true) : forall f s p, wf_val s = true ->
  cond0_from_spec T X f s = Ok p -> tgood0 (fst p).
Proof.
  induction f as [|f IH]; intros s p Hw H; cbn [cond0_from_spec] in H; [ discriminate | ].
  eapply (step_good T X pyval id0 inert0 inert0 (path_from_spec0 T X (cond0_from_spec T X f)) WFP WFP_lit inert0_wf);
    [ | | exact IH | exact Hw | exact H ].
  - intros v q _ _. reflexivity.
  - intros v d Hv Hd. exact (path_from_spec0_good T X (cond0_from_spec T X f) IH v (inr d) Hv Hd).
Qed.

(* ------------------------------------------------------------------ *)
(* F. the generated tables; arguments of rule conditions                 *)

Lemma T_tables_good : tables_good T = true.
Proof. vm_compute. reflexivity. Qed.

Lemma cond0_good : forall s p, wf_val s = true -> cond0_from_spec T X spec_fuel s = Ok p -> tgood0 (fst p).
Proof. exact (cond0_from_spec_good T X T_tables_good spec_fuel). Qed.

Lemma path_from_spec_good spec r : wf_val spec = true -> path_from_spec T X spec = Ok r ->
  match r with inl t => pathterm_good T t | inr d => wf_val d = true end.
Proof. unfold path_from_spec. apply (path_from_spec0_good T X _ cond0_good). Qed.

Lemma pathterm_good_path t x : pathterm_good T t -> mk_path T id0 t = Ok x -> path_ok wf_val x.
Proof.
  intros [G1 [G2 _]] H. apply dpath_good_ok.
  eapply (mk_path_good T T_tables_good pyval id0 WFP WFP_lit); [ exact G1 | rewrite G2; exact I | exact H ].
Qed.

(* an argument of a rule condition: well-formed, and buildable when it is a data path *)
Definition P1 (a : arg1) : Prop := arg1_ok wf_val T a /\ arg1_buildable T a.

Lemma P1_lit : forall v, wf_val v = true -> P1 (ALit v).
Proof. intros v H. split; [ exact H | exact I ]. Qed.

Lemma P1_path : forall v p, wf_val v = true -> path_from_spec T X v = Ok (inl p) -> P1 (APath 0%N p).
Proof.
  intros v p Hv H. pose proof (path_from_spec_good v (inl p) Hv H) as G. cbn in G. split.
  - cbn [arg1_ok]. intros x Hx. eapply pathterm_good_path; [ exact G | exact Hx ].
  - cbn [arg1_buildable]. destruct G as [_ [_ [x Hx]]]. exists x. exact Hx.
Qed.

Lemma P1_inr : forall v d, wf_val v = true -> path_from_spec T X v = Ok (inr d) -> wf_val d = true.
Proof. intros v d Hv H. exact (path_from_spec_good v (inr d) Hv H). Qed.

Lemma cond1_from_spec_tgood spec tm c : wf_val spec = true -> cond1_from_spec T X spec = Ok (tm, c) -> dslc_good arg1 P1 tm.
Proof.
  intros Hw H. unfold cond1_from_spec in H.
  exact (cond_from_spec_good T X arg1 ALit (APath 0%N) inert0 (path_from_spec T X) P1 P1_lit inert0_wf P1_path P1_inr
           spec_fuel spec (tm, c) Hw H).
Qed.

Lemma cgood1_split c : cgood arg1 P1 c -> cond1_ok wf_val T c /\ path_args_buildable T c.
Proof.
  intros [H1 H2]. rewrite Forall_forall in H2. split; [ split; [ exact H1 | ] | ]; intros a Ha; apply (H2 a Ha).
Qed.

Lemma cond1_from_spec_cgood spec tm c : wf_val spec = true -> cond1_from_spec T X spec = Ok (tm, c) -> cgood arg1 P1 c.
Proof.
  intros Hw H. pose proof (cond1_from_spec_tgood _ _ _ Hw H) as G.
  unfold cond1_from_spec in H. apply cond_from_spec_wf in H. unfold wfres in H. cbn [fst snd] in H.
  exact (build_good T T_tables_good arg1 ALit P1 P1_lit tm c G H).
Qed.

Lemma build1_build : forall t c, build1 T t = Ok c -> build T ALit t = Ok c.
Proof.
  induction t as [ cls m pos kw | | o a IHa b IHb ]; intros c H; cbn [build1] in H; cbn [build].
  - bs H u1 Hu1. bs H u2 Hu2. exact H.
  - exact H.
  - bs H x Hx. bs H y Hy. rewrite (IHa _ Hx), (IHb _ Hy). exact H.
Qed.

(* ------------------------------------------------------------------ *)
(* G. casts of a rule: distinct type names give distinct cast-from types *)

Lemma assoc_str_In {V} s : forall (l : list (string * V)) t, assoc_str s l = Some t -> In t (map snd l).
Proof.
  induction l as [ | [a x] r IH ]; intros t H; cbn [assoc_str] in H; [ discriminate | ].
  destruct (String.eqb a s); [ inversion H; subst; left; reflexivity | right; apply IH; exact H ].
Qed.

Lemma assoc_str_inj {V} : forall (l : list (string * V)), NoDup (map snd l) ->
  forall s1 s2 t, assoc_str s1 l = Some t -> assoc_str s2 l = Some t -> s1 = s2.
Proof.
  induction l as [ | [a x] r IH ]; intros Hn s1 s2 t H1 H2; cbn [assoc_str] in H1, H2; [ discriminate | ].
  cbn [map snd] in Hn. inversion Hn as [ | ? ? Hnotin Hn' ]; subst.
  destruct (String.eqb a s1) eqn:E1; destruct (String.eqb a s2) eqn:E2.
  - apply String.eqb_eq in E1, E2. congruence.
  - inversion H1; subst. exfalso. apply Hnotin. eapply assoc_str_In. exact H2.
  - inversion H2; subst. exfalso. apply Hnotin. eapply assoc_str_In. exact H1.
  - eapply IH; eassumption.
Qed.

Lemma mapM_keys_NoDup {V C} (tbl : list (string * pytype)) (F : pyval * V -> res (pytype * C)) :
  NoDup (map snd tbl) ->
  (forall kv c, F kv = Ok c -> exists s, fst kv = VStr s /\ assoc_str s tbl = Some (fst c)) ->
  forall d l, mapM F d = Ok l -> keys_distinct (map fst d) = true ->
  NoDup (map fst l) /\
  (forall t, In t (map fst l) -> exists s, In (VStr s) (map fst d) /\ assoc_str s tbl = Some t).
Proof.
  intros Hn HF. induction d as [ | kv r IH ]; intros l H Hkd; cbn [mapM] in H.
  - inversion H; subst. split; [ constructor | intros t [] ].
  - bs H c Hc. bs H l' Hl'. inversion H; subst.
    cbn [map keys_distinct] in Hkd. rewrite !andb_true_iff, !negb_true_iff in Hkd. destruct Hkd as [[Hno _] Hr].
    destruct (IH _ Hl' Hr) as [I1 I2]. destruct (HF _ _ Hc) as [s0 [Ek Es]].
    split.
    + cbn [map fst]. constructor; [ | exact I1 ]. intros Hin.
      destruct (I2 _ Hin) as [s [Hs1 Hs2]].
      assert (s = s0) by (eapply assoc_str_inj; eassumption). subst s.
      assert (E : existsb (py_eq (fst kv)) (map fst r) = true).
      { apply existsb_exists. exists (VStr s0). split; [ exact Hs1 | ]. rewrite Ek. cbn. apply String.eqb_refl. }
      congruence.
    + intros t [ <- | Hin ].
      * exists s0. split; [ left; exact Ek | exact Es ].
      * destruct (I2 _ Hin) as [s [Hs1 Hs2]]. exists s. split; [ right; exact Hs1 | exact Hs2 ].
Qed.

Lemma X_cast_dtype_NoDup : NoDup (map snd (sx_cast_dtype X)).
Proof. cbn. repeat (constructor; [ cbn; intuition discriminate | ]). constructor. Qed.

Lemma parse_casts_good cast casts given :
  match cast with Some v => wf_val v = true | None => True end ->
  parse_casts X cast = Ok (casts, given) -> casts_wf casts.
Proof.
  intros Hw H. unfold parse_casts in H.
  destruct cast as [ v | ]; [ | inversion H; subst; constructor ].
  destruct v; try discriminate; [ inversion H; subst; constructor | ].
  bs H l Hl. inversion H; subst. unfold casts_wf.
  destruct (wf_dict_elim _ Hw) as [_ Hkd].
  refine (proj1 (mapM_keys_NoDup (sx_cast_dtype X) _ X_cast_dtype_NoDup _ d casts Hl Hkd)).
  intros kv c Hc. cbv beta in Hc. bs Hc from_t Hf. bs Hc to_t Ht.
  destruct (fst kv) as [ | | | | s | | | | | ]; try discriminate.
  destruct (assoc_str s (sx_cast_dtype X)) as [ t | ] eqn:E; [ | discriminate ]. inversion Hf; subst.
  exists s. split; [ reflexivity | ].
  destruct (filter _ (sx_cast_lookup X)) as [ | [[? ?] ?] ? ]; [ discriminate | ]. inversion Hc; subst. exact E.
Qed.

(* ------------------------------------------------------------------ *)
(* H. C16: two parses of one well-formed spec give == objects            *)

(* the parsed objects are well-formed (the preservation results, for the generated tables) *)
Theorem cond_from_spec_ok spec tm c : wf_val spec = true -> cond1_from_spec T X spec = Ok (tm, c) ->
  cond1_ok wf_val T c /\ path_args_buildable T c.
Proof. intros Hw H. apply cgood1_split. eapply cond1_from_spec_cgood; eassumption. Qed.

Theorem part_from_spec_ok d t p b : wf_val (VDict d) = true -> part_spec_parse T X d = Ok t ->
  mk_part T idlit t = Ok (p, b) -> part_ok wf_val p.
Proof.
  intros Hw H Hp. apply part_good_ok.
  refine (mk_part_good T T_tables_good pyval id0 WFP WFP_lit t p b _ Hp).
  unfold part_spec_parse in H. eapply (part_from_spec_good T X _ cond0_good); [ | exact H ].
  apply wf_dict_elim. exact Hw.
Qed.

Theorem path_from_spec_ok spec t p : wf_val spec = true -> path_from_spec T X spec = Ok (inl t) ->
  mk_path T idlit t = Ok p -> path_ok wf_val p.
Proof.
  intros Hw H Hp. pose proof (path_from_spec_good spec (inl t) Hw H) as G. cbn in G.
  eapply pathterm_good_path; [ exact G | exact Hp ].
Qed.

(* a path the parser returns can always be built (the run_* entry points never fail there) *)
Theorem path_from_spec_buildable spec t : wf_val spec = true -> path_from_spec T X spec = Ok (inl t) ->
  exists p, mk_path T idlit t = Ok p.
Proof. intros Hw H. pose proof (path_from_spec_good spec (inl t) Hw H) as G. cbn in G. apply G. Qed.

Theorem from_part_specs_ok l t p : wf_val (VList l) = true -> from_part_specs T X l = Ok t ->
  mk_path T idlit t = Ok p -> path_ok wf_val p.
Proof.
  intros Hw H Hp. unfold from_part_specs in H. apply wf_list_Forall in Hw.
  destruct (path_from_part_specs_good T X _ cond0_good l t Hw H) as [G _].
  eapply pathterm_good_path; [ exact G | exact Hp ].
Qed.

Theorem rule_from_spec_ok spec rt ex r : wf_val spec = true -> rule_from_spec T X spec = Ok (rt, ex) ->
  mk_rule T rt = Ok r -> rule_ok wf_val T r /\ path_args_buildable T (r_cond r).
Proof.
  intros Hw H Hr. unfold rule_from_spec in H.
  bs H pv Hpv. bs H parts Hparts. bs H pt Hpt. bs H cv Hcv. bs H ctc Hct. destruct ctc as [ct c0].
  bs H doc Hdoc. bs H cg Hcg. destruct cg as [casts given]. inversion H; subst.
  destruct spec as [ | | | | | | | d | | ]; try discriminate.
  destruct (wf_dict_elim _ Hw) as [Hent _].
  cbn [get_item] in Hpv, Hcv.
  destruct (dict_look (VStr "path") d) as [ pv' | ] eqn:E1; [ | discriminate ]. inversion Hpv; subst.
  destruct (dict_look (VStr "condition") d) as [ cv' | ] eqn:E2; [ | discriminate ]. inversion Hcv; subst.
  pose proof (dict_look_wf _ _ _ E1 Hent) as Wp. pose proof (dict_look_wf _ _ _ E2 Hent) as Wc.
  unfold from_part_specs in Hpt.
  destruct (path_from_part_specs_good T X _ cond0_good _ _ (py_iter_wf _ _ Hparts Wp) Hpt) as [Gp _].
  pose proof (cond1_from_spec_tgood _ _ _ Wc Hct) as Gc.
  assert (Gk : casts_wf casts).
  { eapply parse_casts_good; [ | exact Hcg ]. cbn [get_opt].
    destruct (dict_look (VStr "cast") d) as [ kv | ] eqn:E3; [ | exact I ]. exact (dict_look_wf _ _ _ E3 Hent). }
  unfold mk_rule in Hr. cbn [rt_path_t rt_cond_t rt_cast_t] in Hr.
  bs Hr p Hp. bs Hr c Hc. inversion Hr; subst. cbn [r_path r_cond r_cast].
  apply build1_build in Hc.
  destruct (cgood1_split _ (build_good T T_tables_good arg1 ALit P1 P1_lit ct c Gc Hc)) as [C1 C2].
  split; [ | exact C2 ]. split; [ | split; [ exact C1 | exact Gk ] ].
  eapply pathterm_good_path; [ exact Gp | exact Hp ].
Qed.

(* ---- the C16 statements: parse twice, compare with == ---- *)

Theorem C16_reparse_cond spec tm c tm' c' : wf_val spec = true ->
  cond1_from_spec T X spec = Ok (tm, c) -> cond1_from_spec T X spec = Ok (tm', c') ->
  cond1_eqb T c' c = true.
Proof.
  intros Hw H1 H2. rewrite H1 in H2. inversion H2; subst.
  destruct (cond_from_spec_ok _ _ _ Hw H1) as [G1 G2]. apply C14_cond1_refl; assumption.
Qed.

(* ContainerValue.from_spec on a mapping *)
Theorem C16_reparse_part d t p b t' p' b' : wf_val (VDict d) = true ->
  part_spec_parse T X d = Ok t -> mk_part T idlit t = Ok (p, b) ->
  part_spec_parse T X d = Ok t' -> mk_part T idlit t' = Ok (p', b') ->
  part_eqb p' p = true.
Proof.
  intros Hw H1 P1' H2 P2. rewrite H1 in H2. inversion H2; subst. rewrite P1' in P2. inversion P2; subst.
  apply C14_part_refl. eapply part_from_spec_ok; eassumption.
Qed.

(* ... and on anything dict() accepts (run_part_from_spec) *)
Theorem C16_reparse_part_entry spec d t p b d' t' p' b' : wf_val spec = true ->
  dict_of_val spec = Ok d -> part_spec_parse T X d = Ok t -> mk_part T idlit t = Ok (p, b) ->
  dict_of_val spec = Ok d' -> part_spec_parse T X d' = Ok t' -> mk_part T idlit t' = Ok (p', b') ->
  part_eqb p' p = true.
Proof.
  intros Hw D1 H1 P1' D2 H2 P2. rewrite D1 in D2. inversion D2; subst.
  eapply C16_reparse_part; [ | exact H1 | exact P1' | exact H2 | exact P2 ].
  eapply dict_of_val_wf; eassumption.
Qed.

(* DataPath.from_spec: a path ... *)
Theorem C16_reparse_path spec t p t' p' : wf_val spec = true ->
  path_from_spec T X spec = Ok (inl t) -> mk_path T idlit t = Ok p ->
  path_from_spec T X spec = Ok (inl t') -> mk_path T idlit t' = Ok p' ->
  path_eqb p' p = true.
Proof.
  intros Hw H1 P1' H2 P2. rewrite H1 in H2. inversion H2; subst. rewrite P1' in P2. inversion P2; subst.
  apply C14_path_refl. eapply path_from_spec_ok; eassumption.
Qed.

(* ... or the un-escaped literal mapping *)
Theorem C16_reparse_path_literal spec v v' : wf_val spec = true ->
  path_from_spec T X spec = Ok (inr v) -> path_from_spec T X spec = Ok (inr v') -> py_eq v' v = true.
Proof.
  intros Hw H1 H2. rewrite H1 in H2. inversion H2; subst.
  apply py_eq_refl_wf. exact (path_from_spec_good spec (inr v') Hw H1).
Qed.

(* DataPath.from_part_specs *)
Theorem C16_reparse_part_specs l t p t' p' : wf_val (VList l) = true ->
  from_part_specs T X l = Ok t -> mk_path T idlit t = Ok p ->
  from_part_specs T X l = Ok t' -> mk_path T idlit t' = Ok p' ->
  path_eqb p' p = true.
Proof.
  intros Hw H1 P1' H2 P2. rewrite H1 in H2. inversion H2; subst. rewrite P1' in P2. inversion P2; subst.
  apply C14_path_refl. eapply from_part_specs_ok; eassumption.
Qed.

(* Rule.from_spec *)
Theorem C16_reparse_rule spec rt ex r rt' ex' r' : wf_val spec = true ->
  rule_from_spec T X spec = Ok (rt, ex) -> mk_rule T rt = Ok r ->
  rule_from_spec T X spec = Ok (rt', ex') -> mk_rule T rt' = Ok r' ->
  rule_eqb T r' r (rx_cast_given ex') (rx_cast_given ex) = true.
Proof.
  intros Hw H1 R1 H2 R2. rewrite H1 in H2. inversion H2; subst. rewrite R1 in R2. inversion R2; subst.
  destruct (rule_from_spec_ok _ _ _ _ Hw H1 R1) as [G1 G2]. apply C14_rule_refl; assumption.
Qed.

(* ------------------------------------------------------------------ *)
(* I. the theorems are not vacuous: specs with data-path arguments, un-escaped mappings (with a
      colliding key), **kwargs constructors, type names, casts, labels, shorthands, modifiers *)

Definition ex_cond : pyval :=
  VDict [(VStr "and", VList [
    VDict [(VStr "value.equal_to", VDict [(VStr "path", VList [VStr "a"; VInt 1])])];
    VDict [(VStr "value.in_range", VDict [(VStr "lower", VInt 1);
                                          (VStr "upper", VDict [(VStr "\path", VInt 3); (VStr "path", VInt 4)])])];
    VDict [(VStr "value.items_contain", VDict [(VStr "x", VList [VDict [(VStr "path.length", VList [VStr "b"])]]);
                                               (VStr "y", VFloat false 1%N 0%Z)])];
    VDict [(VStr "value.dtype.in", VList [VStr "int"; VStr "str"])] ])].
Example ex_cond_parses : wf_val ex_cond = true /\
  match cond1_from_spec T X ex_cond with Ok (_, c) => cond1_eqb T c c | Err _ => false end = true.
Proof. split; vm_compute; reflexivity. Qed.

Definition ex_part : pyval :=
  VList [VTuple [VStr "type"; VStr "map_value"]; VTuple [VStr "key.in"; VList [VStr "a"; VStr "b"]];
         VTuple [VStr "value.length.gt"; VInt 2]; VTuple [VStr "label"; VStr "L"]].
Example ex_part_parses : wf_val ex_part = true /\
  match dict_of_val ex_part with
  | Ok d => match part_spec_parse T X d with
            | Ok t => match mk_part T idlit t with Ok (p, _) => part_eqb p p | Err _ => false end
            | Err _ => false end
  | Err _ => false end = true.
Proof. split; vm_compute; reflexivity. Qed.

Definition ex_path : pyval :=
  VDict [(VStr "path.first.len", VList [VStr "a"; VInt 0;
     VDict [(VStr "type", VStr "map_value"); (VStr "value.eq", VDict [(VStr "\path", VInt 1)])]])].
Example ex_path_parses : wf_val ex_path = true /\
  match path_from_spec T X ex_path with
  | Ok (inl t) => match mk_path T idlit t with Ok p => path_eqb p p | Err _ => false end
  | _ => false end = true.
Proof. split; vm_compute; reflexivity. Qed.

Definition ex_rule : pyval :=
  VDict [(VStr "path", VList [VStr "a"; VDict [(VStr "type", VStr "list_value"); (VStr "index.lte", VInt 3); (VStr "label", VStr "L")]]);
         (VStr "condition", VDict [(VStr "value.dtype.equal_to", VStr "int")]);
         (VStr "cast", VDict [(VStr "str", VStr "int")])].
Example ex_rule_parses : wf_val ex_rule = true /\
  match rule_from_spec T X ex_rule with
  | Ok (rt, ex) => match mk_rule T rt with Ok r => rule_eqb T r r (rx_cast_given ex) (rx_cast_given ex) | Err _ => false end
  | Err _ => false end = true.
Proof. split; vm_compute; reflexivity. Qed.

(* [wf_val spec] is needed: a model value that is not a Python value (a "dict" holding the two ==
   keys 1 and True, [bad_dict] of C14Proof.v) is stored as a literal argument, and the parsed
   condition is not == to itself.  Not a defect of the library: Python cannot build this dict. *)
Definition bad_spec : pyval := VDict [(VStr "value.equal_to", bad_dict)].
Example C16_reparse_cond_counterexample : wf_val bad_spec = false /\
  match cond1_from_spec T X bad_spec with Ok (_, c) => cond1_eqb T c c | Err _ => true end = false.
Proof. split; vm_compute; reflexivity. Qed.

Print Assumptions C16_reparse_cond.
Print Assumptions C16_reparse_part.
Print Assumptions C16_reparse_part_entry.
Print Assumptions C16_reparse_path.
Print Assumptions C16_reparse_path_literal.
Print Assumptions C16_reparse_part_specs.
Print Assumptions C16_reparse_rule.
Print Assumptions cond_from_spec_ok.
Print Assumptions part_from_spec_ok.
Print Assumptions path_from_spec_ok.
Print Assumptions path_from_spec_buildable.
Print Assumptions from_part_specs_ok.
Print Assumptions rule_from_spec_ok.
Print Assumptions C16_reparse_cond_counterexample.
