(* C09 for NESTED arguments: a condition spec whose callable has ONE parameter and whose argument is a LIST with data-path
   specs among its items, or a MAPPING with data-path specs among its values, parses (ConditionLike.from_spec, instance
   NestedIO.condn_from_spec of Spec.cond_from_spec) to the condition the Python DSL builds from the corresponding term
   (NestedArgs.build_n), e.g.

       from_spec({"value.in": [{"path": ["a", 0]}, 1, {"\path": 2}]})  ==  Value.in_([DataPath("a", 0), 1, {"path": 2}])

   Model of the spellings: NestedSpell.v (item_spec / narg_spec / nlist_spec / ndict_spec / nleaf_spec / ntree_spec,
   entry point run_c09n).

   The condition parsed is given EXACTLY: it is the DSL-built condition in which every data path is the path term
   from_spec reads back from the path's spec (C11PathProof.path_back: a term building the same path object), and a display
   without any data path is the literal container it denotes (C11NestedProof.back_n); that condition is == to the
   DSL-built one (NestedIO.condn_eqb).  The term from_spec calls the DSL with is given exactly too.

   Route: the spec of the term is what to_json_like() writes for the DSL-built condition, so the parser facts of the round
   trip C11NestedProof (coerce_wjn, tree_js_n_parse) apply, and C13NestedProof.build_n_tree ties cmapN to build_n.
   On top of that: the key of a leaf in ANY accepted spelling (letter case, aliases `in` / `type` / `len` ...), as in
   C09Proof.

   Main theorems: C09N_case / C09N_aliases (keys; arbitrary argument values), C09N_leaf (one narg),
   C09N_leaf_list, C09N_leaf_dict (the two cases spelled out), C09N_tree (and / or / xor trees; TypeError on both sides for a
   Key / Index mix), C09N_run_leaf / C09N_run_tree (the harness entry point returns True),
   C09N_tree_full_gen / C09N_tree_full (MIXED trees: nested leaves next to the literal / data-path leaves of C11PathProof,
   the fragment of C11NestedFullProof). *)
From Coq Require Import ZArith NArith List Bool String Ascii Lia.
From Valida Require Import Py Lang Defs Cond Dsl Check DocSem Path PathSpec Cast Str SpecDefs RuleDefs RuleTerms
  Spec SpecIO SpecSpell Eq Inst RunSpec Rule NestedArgs NestedIO NestedRuleIO NestedSpell.
From Valida.Proofs Require Import PyFacts Tie C01Proof C02Proof RuleProof C09Proof C11Proof C11EscProof C12Proof C14Proof
  C13Proof C13Glue C11PathProof C13PathProof C11NestedProof C13NestedProof C11NestedFullProof C17NestedProof.
From Valida Require Import Rule SpecSpell NestedIO NestedRuleIO NestedSpell.
Import ListNotations.
Local Open Scope string_scope.
Local Open Scope list_scope.

(* ================================================================== *)
(* 0. NestedSpell's spellings are what C11NestedProof writes            *)

Lemma path_spec_json t : path_spec t = path_json t.
Proof. reflexivity. Qed.

Lemma item_spec_wj1 a : item_spec a = wj1 a.
Proof. destruct a; reflexivity. Qed.

Lemma map_item_spec items : map item_spec items = map wj1 items.
Proof. apply map_ext. exact item_spec_wj1. Qed.

Lemma map_kv_spec kvs : map kv_spec kvs = vmap wj1 kvs.
Proof. unfold vmap. apply map_ext. intros [k a]. unfold kv_spec. cbn [fst snd]. rewrite item_spec_wj1. reflexivity. Qed.

Lemma lit_arg_spec_wr v : lit_arg_spec v = wr v.
Proof. destruct v; reflexivity. Qed.

Lemma narg_spec_wjn n : narg_spec n = wjn n.
Proof.
  destruct n as [[v|tag t]|tup items|kvs]; cbn [narg_spec wjn].
  - apply lit_arg_spec_wr.
  - reflexivity.
  - rewrite map_item_spec. reflexivity.
  - rewrite map_kv_spec. reflexivity.
Qed.

Lemma nsub_subn nas v : nsub nas v = subn nas v.
Proof. reflexivity. Qed.

Lemma nleaf_key_eq c q : nleaf_key c q = leaf_key c q.
Proof. reflexivity. Qed.

Lemma q_one_arg_form q : q_one_arg q = match q_form q with FOne v => Some v | _ => None end.
Proof. destruct q; reflexivity. Qed.

Lemma nleaf_spec_js nas c q : nleaf_spec nas c q = leaf_js_n nas c q.
Proof.
  unfold nleaf_spec, leaf_js_n. rewrite q_one_arg_form, nleaf_key_eq.
  destruct (q_form q); reflexivity.
Qed.

Lemma ntree_spec_js nas t : ntree_spec nas t = tree_js_n nas t.
Proof.
  induction t as [c q| |o a IHa b IHb]; cbn [ntree_spec tree_js_n]; [apply nleaf_spec_js|reflexivity|].
  rewrite IHa, IHb. reflexivity.
Qed.

Lemma ntree_term_eq nas t : ntree_term nas t = termn_of nas t.
Proof. reflexivity. Qed.

(* ================================================================== *)
(* 1. the key of a leaf: letter case and aliases (ARBITRARY values)      *)

(* a one-key mapping whose key is not an operator is a leaf spec *)
Lemma selfn_leaf f k v :
  assoc_str k (sx_binops X) = None -> selfn (S f) (VDict [(VStr k, v)]) = run_head_n (head_of (lower_tokens k)) v.
Proof. intros H. rewrite selfn_S, stepn_leaf by exact H. apply parse_leaf_head_n. Qed.

Lemma condn_leaf k v :
  assoc_str k (sx_binops X) = None -> condn_from_spec (VDict [(VStr k, v)]) = run_head_n (head_of (lower_tokens k)) v.
Proof. intros H. rewrite condn_unfold. exact (selfn_leaf 39 k v H). Qed.

Theorem C09N_case : forall k k' v,
  lower_tokens k = lower_tokens k' ->
  assoc_str k (sx_binops X) = None -> assoc_str k' (sx_binops X) = None ->
  condn_from_spec (VDict [(VStr k, v)]) = condn_from_spec (VDict [(VStr k', v)]).
Proof. intros k k' v Ht Hk Hk'. rewrite !condn_leaf by assumption. rewrite Ht. reflexivity. Qed.

(* the parser depends on the key only through its canonical tokens (C09Proof.canon_tokens: lower case, aliases applied) *)
Theorem C09N_aliases : forall k k' v,
  canon_tokens (lower_tokens k) = canon_tokens (lower_tokens k') ->
  assoc_str k (sx_binops X) = None -> assoc_str k' (sx_binops X) = None ->
  condn_from_spec (VDict [(VStr k, v)]) = condn_from_spec (VDict [(VStr k', v)]).
Proof.
  intros k k' v Ht Hk Hk'. rewrite !condn_leaf by assumption.
  rewrite (head_of_canon (lower_tokens k)), (head_of_canon (lower_tokens k')), Ht. reflexivity.
Qed.

(* "in" / "in_" *)
Theorem C09N_alias_in : forall c v,
  condn_from_spec (VDict [(VStr (scls_label c ++ ".in"), v)]) = condn_from_spec (VDict [(VStr (scls_label c ++ ".in_"), v)]).
Proof. intros c v. apply C09N_aliases; destruct c; reflexivity. Qed.

(* [key] is an accepted spelling of the key of the leaf (c, q): it reads `<label>.<callable>` up to letter case and the
   documented aliases, and is not an operator name *)
Definition spells (key : string) (c : scls) (q : dsl) : Prop :=
  canon_tokens (lower_tokens key) = canon_tokens (lower_tokens (nleaf_key c q)) /\ assoc_str key (sx_binops X) = None.

Lemma spells_canonical c q : spells (nleaf_key c q) c q.
Proof. split; [reflexivity|exact (leaf_key_not_binop c q)]. Qed.

Lemma spells_head key c q : spells key c q -> head_of (lower_tokens key) = head_of (lower_tokens (leaf_key c q)).
Proof.
  intros [H _]. rewrite (head_of_canon (lower_tokens key)), H, nleaf_key_eq. symmetry. apply head_of_canon.
Qed.

Example spells_examples : forall v,
  spells "value.in_" SValue (Q_in v) /\ spells "value.in" SValue (Q_in v) /\ spells "VALUE.In" SValue (Q_in v) /\
  spells "Value.LEN.Equal_To" SValueLength (Q_equal_to v) /\ spells "key.length.equal_to" SKeyLength (Q_equal_to v).
Proof. intros v. repeat split. Qed.

(* ================================================================== *)
(* 2. a leaf                                                            *)

(* the value-dependent part of parse_leaf on a one-parameter callable: the term the DSL is called with and its result *)
Lemma head_one nas c q v0 jv cv :
  class_ok c q = true -> casts c q = false -> q_form q = FOne v0 ->
  coerce pfs jv = Ok cv -> cvaln cv = subn nas v0 ->
  run_head_n (head_of (lower_tokens (leaf_key c q))) jv =
  Ok (DLeaf (scls_name c) (q_method q) [subn nas v0] [], CLeaf (nleaf nas c q)).
Proof.
  intros Hcls Hc Hq Hco Hv. destruct (casts_false c q Hc) as [Ht Hi]. destruct (q_one_inv q v0 Hq) as [Hs [Hcall _]].
  rewrite (head_leaf c q Hcls). cbn [run_head_n]. rewrite Ht, Hi. cbn [conv bind].
  unfold leaf_tail_n. rewrite Hco. cbn [bind].
  pose proof (q_ctor_shape c q Hcls) as Hsh. rewrite Hs in Hsh. unfold ctor_shape in Hsh. injection Hsh as H1 H2 H3.
  unfold dispatch. cbv zeta. rewrite H1, H2, H3. cbn [Nat.eqb negb andb bind]. rewrite Hv, scls_class_name.
  rewrite (build_leaf_ext narg lit_n (subn nas) _ _ _ _ (subn_plain_default nas)).
  change [subn nas v0] with (map (subn nas) [v0]).
  change (@nil (string * narg)) with (kmap pyval narg (subn nas) []).
  rewrite (build_leaf_map pyval narg (subn nas) idlit (subn nas) (fun v => eq_refl) T (scls_name c) (q_method q) [v0] []).
  pose proof (tie_build c q Hcls) as Hb. unfold built in Hb. rewrite Hcall in Hb. rewrite Hb. reflexivity.
Qed.

(* the DSL side: <Class>.<callable>(n) builds the typed leaf with n in place *)
Lemma build_n_leaf c q n : class_ok c q = true -> q_form q = FOne (VObj 0%N) -> paths_good_n n ->
  build_n (nleaf_term c q n) = Ok (CLeaf (nleaf [n] c q)).
Proof.
  intros Hcls Hq Hg. unfold nleaf_term. cbn [build_n check_nargs check_nkw].
  rewrite (check_narg_good n Hg). cbn [bind].
  pose proof (build_leaf_one narg NestedArgs.lit_n (subn [n]) c q (VObj 0%N) Hcls Hq) as Hb.
  change (subn [n] (VObj 0%N)) with n in Hb. rewrite Hb. reflexivity.
Qed.

(* the data paths read back build (they build the same path objects: path_good) *)
Definition item_builds (a : arg1) : Prop :=
  match a with ALit _ => True | APath _ t => exists p, mk_path T idlit t = Ok p end.

Lemma check_args_builds l : Forall item_builds l -> check_args T l = Ok tt.
Proof.
  induction 1 as [|a l Ha Hl IH]; cbn [check_args]; [reflexivity|].
  destruct a as [v|tag t]; cbn [check_arg bind]; [exact IH|].
  destruct Ha as [p Hp]. change Rule.id0 with idlit. rewrite Hp. cbn [bind]. exact IH.
Qed.

Lemma back1_builds a : item_ok1 a -> item_builds (back1 a).
Proof.
  destruct a as [v|tag t]; cbn [item_ok1 back1 item_builds]; intros H; [exact I|].
  destruct H as [p [d [_ [_ [_ [_ [_ [Hb _]]]]]]]]. exists p. exact Hb.
Qed.

Lemma check_back_n n : narg_ok n -> check_narg (back_n n) = Ok tt.
Proof.
  unfold check_narg. destruct n as [[v|tag t]|tup items|kvs]; cbn [narg_ok back_n]; intros Hn.
  - destruct Hn.
  - apply check_args_builds. cbn [nitems]. constructor; [|constructor]. exact (back1_builds (APath tag t) Hn).
  - destruct Hn as [_ Hi]. destruct (forallb is_lit1 items); [reflexivity|].
    apply check_args_builds. cbn [nitems].
    induction Hi as [|a l Ha Hl IH]; cbn [map]; constructor; [exact (back1_builds a Ha)|exact IH].
  - destruct Hn as [_ Hi]. destruct (forallb (fun kv => is_lit1 (snd kv)) kvs); [reflexivity|].
    apply check_args_builds. unfold amap. cbn [nitems]. rewrite map_map. cbn [snd].
    induction kvs as [|[k a] r IH]; cbn [map]; [constructor|].
    cbn [map snd] in Hi. inversion Hi as [|? ? Ha Hr]; subst. constructor; [exact (back1_builds a Ha)|exact (IH Hr)].
Qed.

(* THE LEAF THEOREM.  c, q: a class and a one-parameter constructor on it (q_form q = FOne _: equal_to, not_equal_to,
   less_than, ..., in_, not_in, factor_of, has_factor, keys_contain, keys_contain_at_least_one_of,
   keys_contain_at_most_one_of), not a dtype class (casts c q = false: under `dtype` from_spec converts the argument to
   types and raises TypeError on a path spec, see ex_dtype_refused);
   n: the argument, in the fragment C11NestedProof.narg_ok (a data path; a list display of data paths (path_good) and
   literal items (lit_item_ok); a mapping display of such values with keys dkeys_ok);
   key: any accepted spelling of the key.
   Then from_spec calls the DSL with the term <Class>.<callable>(back_n n) and returns the condition it builds; the DSL
   expression <Class>.<callable>(n) builds the same leaf with n in place; the two are ==. *)
Theorem C09N_leaf : forall c q n key,
  class_ok c q = true -> casts c q = false -> q_form q = FOne (VObj 0%N) -> narg_ok n -> spells key c q ->
  condn_from_spec (VDict [(VStr key, narg_spec n)]) = Ok (nleaf_term c q (back_n n), CLeaf (nleaf [back_n n] c q)) /\
  build_n (nleaf_term c q n) = Ok (CLeaf (nleaf [n] c q)) /\
  build_n (nleaf_term c q (back_n n)) = Ok (CLeaf (nleaf [back_n n] c q)) /\
  condn_eqb (CLeaf (nleaf [back_n n] c q)) (CLeaf (nleaf [n] c q)) = true.
Proof.
  intros c q n key Hcls Hc Hq Hn Hkey.
  destruct (coerce_wjn n Hn) as [cv [Hco Hv]].
  split; [|split; [|split]].
  - destruct Hkey as [Hcan Hb]. rewrite (condn_leaf _ _ Hb), (spells_head key c q (conj Hcan Hb)), narg_spec_wjn.
    exact (head_one [back_n n] c q (VObj 0%N) (wjn n) cv Hcls Hc Hq Hco Hv).
  - exact (build_n_leaf c q n Hcls Hq (narg_ok_paths_good n Hn)).
  - unfold nleaf_term. cbn [build_n check_nargs check_nkw].
    rewrite (check_back_n n Hn). cbn [bind].
    pose proof (build_leaf_one narg NestedArgs.lit_n (subn [back_n n]) c q (VObj 0%N) Hcls Hq) as Hb.
    change (subn [back_n n] (VObj 0%N)) with (back_n n) in Hb. rewrite Hb. reflexivity.
  - change (leafn_eqb (nleaf [back_n n] c q) (nleaf [n] c q) = true).
    apply (leafn_eqb_sub _ _ c q (VObj 0%N) Hq). exact (narg_eqb_back n Hn).
Qed.

(* the harness entry point on a leaf of the fragment: True *)
Theorem C09N_run_leaf : forall c q n key,
  class_ok c q = true -> casts c q = false -> q_form q = FOne (VObj 0%N) -> narg_ok n -> spells key c q ->
  run_c09n (VDict [(VStr key, narg_spec n)]) (nleaf_term c q n) = Ok (VBool true).
Proof.
  intros c q n key Hcls Hc Hq Hn Hkey.
  destruct (C09N_leaf c q n key Hcls Hc Hq Hn Hkey) as [Hp [Hb [_ He]]].
  unfold run_c09n. rewrite Hp. cbn [bind]. rewrite Hb. cbn [bind snd]. rewrite He. reflexivity.
Qed.

(* ---- the two cases spelled out ---- *)

(* {"<key>": [item specs]}  vs  <Class>.<callable>([items]) *)
Theorem C09N_leaf_list : forall c q items key,
  class_ok c q = true -> casts c q = false -> q_form q = FOne (VObj 0%N) ->
  Forall item_ok1 items -> spells key c q ->
  let n := NItems false items in
  condn_from_spec (nlist_spec key items) = Ok (nleaf_term c q (back_n n), CLeaf (nleaf [back_n n] c q)) /\
  build_n (nleaf_term c q n) = Ok (CLeaf (nleaf [n] c q)) /\
  condn_eqb (CLeaf (nleaf [back_n n] c q)) (CLeaf (nleaf [n] c q)) = true /\
  run_c09n (nlist_spec key items) (nleaf_term c q n) = Ok (VBool true).
Proof.
  intros c q items key Hcls Hc Hq Hi Hkey n.
  assert (Hn : narg_ok n) by (split; [reflexivity|exact Hi]).
  destruct (C09N_leaf c q n key Hcls Hc Hq Hn Hkey) as [Hp [Hb [_ He]]].
  split; [exact Hp|]. split; [exact Hb|]. split; [exact He|].
  exact (C09N_run_leaf c q n key Hcls Hc Hq Hn Hkey).
Qed.

(* with a data path among the items the condition parsed holds the list display again, the path terms read back in place *)
Lemma back_n_list_paths items : forallb is_lit1 items = false ->
  back_n (NItems false items) = NItems false (map back1 items).
Proof. intros H. cbn [back_n]. rewrite H. reflexivity. Qed.

(* {"<key>": {k: item spec, ...}}  vs  <Class>.<callable>({k: item, ...}) *)
Theorem C09N_leaf_dict : forall c q kvs key,
  class_ok c q = true -> casts c q = false -> q_form q = FOne (VObj 0%N) ->
  dkeys_ok kvs = true -> Forall item_ok1 (map snd kvs) -> spells key c q ->
  let n := NDict kvs in
  condn_from_spec (ndict_spec key kvs) = Ok (nleaf_term c q (back_n n), CLeaf (nleaf [back_n n] c q)) /\
  build_n (nleaf_term c q n) = Ok (CLeaf (nleaf [n] c q)) /\
  condn_eqb (CLeaf (nleaf [back_n n] c q)) (CLeaf (nleaf [n] c q)) = true /\
  run_c09n (ndict_spec key kvs) (nleaf_term c q n) = Ok (VBool true).
Proof.
  intros c q kvs key Hcls Hc Hq Hk Hi Hkey n.
  assert (Hn : narg_ok n) by (split; [exact Hk|exact Hi]).
  destruct (C09N_leaf c q n key Hcls Hc Hq Hn Hkey) as [Hp [Hb [_ He]]].
  split; [exact Hp|]. split; [exact Hb|]. split; [exact He|].
  exact (C09N_run_leaf c q n key Hcls Hc Hq Hn Hkey).
Qed.

Lemma back_n_dict_paths kvs : forallb (fun kv => is_lit1 (snd kv)) kvs = false ->
  back_n (NDict kvs) = NDict (amap back1 kvs).
Proof. intros H. cbn [back_n]. rewrite H. reflexivity. Qed.

(* ================================================================== *)
(* 3. and / or / xor trees                                              *)

(* trees of leaves of the fragment over a placeholder list nas (C11NestedProof.leaf_in_c11n), keys in the canonical
   spelling, operator lists nested pairwise as in C09Proof: the spec parses to the condition the DSL operators build from
   the term with the nargs in place (null operands are identities); mixing Key and Index conditions is a TypeError on
   both sides.  The depth bound is the fuel of the model (spec_fuel = 40). *)
Theorem C09N_tree_gen : forall nas t,
  Forall (fun cq => leaf_in_c11n nas (fst cq) (snd cq)) (qleaves t) -> tree_depth t <= 40 ->
  if qmixed (qnorm t)
  then condn_from_spec (ntree_spec nas t) = Err TypeError /\ build_n (ntree_term nas t) = Err TypeError
  else exists tm,
         condn_from_spec (ntree_spec nas t) = Ok (tm, condn_back nas t) /\
         build_n (ntree_term nas t) = Ok (condn_of nas t) /\
         condn_eqb (condn_back nas t) (condn_of nas t) = true.
Proof.
  intros nas t Hl Hd.
  assert (Hrt : leaves_rt_n nas t).
  { unfold leaves_rt_n. revert Hl. apply Forall_impl. intros [c q]. apply leaf_in_c11n_rt. }
  assert (Hok : qtree_ok t = true).
  { unfold qtree_ok. apply forallb_forall. intros [c q] Hin. rewrite Forall_forall in Hl.
    destruct (Hl (c, q) Hin) as [Hcls [_ [k [n [Hq _]]]]]. cbn [fst snd] in *.
    unfold class_ok in Hcls. rewrite Hcls. exact (q_one_wf q _ Hq). }
  pose proof (tree_js_n_parse nas t 40 Hd Hrt) as Hp. rewrite <- ntree_spec_js, <- condn_unfold in Hp.
  pose proof (build_n_tree nas t Hl) as Hb. rewrite (build_qterm t Hok) in Hb. unfold build_expect in Hb.
  rewrite ntree_term_eq.
  destruct (qmixed (qnorm t)).
  - split; [exact Hp|exact Hb].
  - destruct Hp as [tm Hp]. exists tm. split; [exact Hp|]. split; [exact Hb|].
    exact (condn_eqb_tree nas (qnorm t) (leaves_rt_n_qnorm nas t Hrt)).
Qed.

Theorem C09N_tree : forall nas t,
  tree_in_c11n nas t ->
  exists tm,
    condn_from_spec (ntree_spec nas t) = Ok (tm, condn_back nas t) /\
    build_n (ntree_term nas t) = Ok (condn_of nas t) /\
    condn_eqb (condn_back nas t) (condn_of nas t) = true.
Proof.
  intros nas t [Hl [Hd Hm]]. pose proof (C09N_tree_gen nas t Hl Hd) as H. rewrite Hm in H. exact H.
Qed.

(* the harness entry point on a tree: True, or TypeError for a Key / Index mix *)
Theorem C09N_run_tree : forall nas t,
  Forall (fun cq => leaf_in_c11n nas (fst cq) (snd cq)) (qleaves t) -> tree_depth t <= 40 ->
  run_c09n (ntree_spec nas t) (ntree_term nas t) = if qmixed (qnorm t) then Err TypeError else Ok (VBool true).
Proof.
  intros nas t Hl Hd. pose proof (C09N_tree_gen nas t Hl Hd) as H. unfold run_c09n.
  destruct (qmixed (qnorm t)).
  - destruct H as [Hp _]. rewrite Hp. reflexivity.
  - destruct H as [tm [Hp [Hb He]]]. rewrite Hp. cbn [bind]. rewrite Hb. cbn [bind snd]. rewrite He. reflexivity.
Qed.

(* ================================================================== *)
(* 3b. MIXED trees: nested leaves next to literal / data-path leaves     *)

(* The full fragment of C11NestedFullProof: placeholder list  embp pts ++ ns  (first data paths, then nargs); a leaf is
   either a nested leaf (section 2) or a leaf of C11PathProof over pts (leaf_in_c11p: literal leaves with any callable shape,
   under type conversion or not; several-parameter / *args / **kwargs callables with data-path or literal arguments).
   The spec of a C11PathProof leaf is the one C11PathProof.leaf_js writes (leaf_js_full). *)

Lemma dslc_leaf_emb pts ns c q : forallb (argv_ok (List.length pts)) (q_args q) = true ->
  dslc_map (subn (embp pts ++ ns)) (q_term c q) = dslc_map NA (dslc_map (sub pts) (q_term c q)).
Proof.
  intros H. unfold q_term. unfold q_args in H. destruct (q_call q) as [[m pos] kw]. cbn [dslc_map].
  rewrite forallb_app in H. apply andb_true_iff in H as [Hp Hk]. rewrite forallb_forall in Hp, Hk. f_equal.
  - rewrite map_map. apply map_ext_in. intros v Hv. apply subn_emb. exact (Hp v Hv).
  - rewrite map_map. apply map_ext_in. intros [k v] Hv. cbn [fst snd]. f_equal. apply subn_emb.
    apply Hk. apply in_map_iff. exists (k, v). split; [reflexivity|exact Hv].
Qed.

(* the DSL side of one leaf *)
Definition leaf_builds_n (nas : list narg) (c : scls) (q : dsl) : Prop :=
  class_ok c q = true /\ q_wf q = true /\
  build_n (dslc_map (subn nas) (q_term c q)) = Ok (CLeaf (nleaf nas c q)).

Lemma leaf_builds_nested nas c q : leaf_in_c11n nas c q -> leaf_builds_n nas c q.
Proof.
  intros H. pose proof H as [Hcls [_ [k [n [Hq _]]]]].
  split; [exact Hcls|]. split; [exact (q_one_wf q _ Hq)|].
  pose proof (build_n_tree nas (QLeaf c q)) as Hb. unfold termn_of in Hb. cbn [qleaves qterm] in Hb.
  rewrite Hb by (constructor; [exact H|constructor]).
  rewrite (build_leaf_term c q Hcls). reflexivity.
Qed.

Lemma leaf_builds_c11p pts ns c q : Forall path_good pts -> leaf_in_c11p pts c q = true ->
  leaf_builds_n (embp pts ++ ns) c q.
Proof.
  intros Hg H. destruct (leaf_in_c11p_qok pts c q H) as [Hcls Hw]. pose proof (c11p_args_ok pts c q H) as Ha.
  split; [exact Hcls|]. split; [exact Hw|].
  rewrite (dslc_leaf_emb pts ns c q Ha), build_n_emb, (build1_sub pts _ Hg), (build_leaf_term c q Hcls).
  cbn [rmap cond_map]. unfold emb. cbn [cond_map]. rewrite (nleaf_emb pts ns c q Ha). reflexivity.
Qed.

Lemma build_n_tree_g nas t : Forall (fun cq => leaf_builds_n nas (fst cq) (snd cq)) (qleaves t) ->
  build_n (termn_of nas t) = rmap (cmapN nas) (build T idlit (qterm t)).
Proof.
  unfold termn_of. induction t as [c q| |o a IHa b IHb]; cbn [qleaves qterm]; intros H.
  - inversion H as [|? ? [Hcls [_ Hb]] _]; subst. cbn [fst snd] in *.
    rewrite Hb, (build_leaf_term c q Hcls). reflexivity.
  - reflexivity.
  - apply Forall_app in H as [Ha Hb]. cbn [dslc_map build_n build]. rewrite (IHa Ha), (IHb Hb).
    destruct (build T idlit (qterm a)) as [x|e]; cbn [rmap bind]; [|reflexivity].
    destruct (build T idlit (qterm b)) as [y|e]; cbn [rmap bind]; [|reflexivity].
    apply mk_bin_map.
Qed.

(* the spec of a mixed tree *)
Definition ntree_spec_full (pts : list (pathterm pyval)) (ns : list narg) (t : qtree) : pyval :=
  tree_js_g (leaf_js_full pts ns) t.

(* on nested leaves it is NestedSpell's *)
Lemma leaf_js_full_nested pts ns c q k : q_form q = FOne (VObj k) ->
  leaf_js_full pts ns c q = nleaf_spec (embp pts ++ ns) c q.
Proof. intros Hq. unfold leaf_js_full. rewrite Hq, nleaf_spec_js. reflexivity. Qed.

Theorem C09N_tree_full_gen : forall pts ns t,
  Forall path_good pts ->
  Forall (fun cq => leaf_in_c11n_full pts ns (fst cq) (snd cq)) (qleaves t) -> tree_depth t <= 40 ->
  let nas := embp pts ++ ns in
  if qmixed (qnorm t)
  then condn_from_spec (ntree_spec_full pts ns t) = Err TypeError /\ build_n (ntree_term nas t) = Err TypeError
  else exists tm,
         condn_from_spec (ntree_spec_full pts ns t) = Ok (tm, condn_back nas t) /\
         build_n (ntree_term nas t) = Ok (condn_of nas t) /\
         condn_eqb (condn_back nas t) (condn_of nas t) = true.
Proof.
  intros pts ns t Hg Hl Hd nas.
  assert (Hrt : leaves_rt_g nas (leaf_js_full pts ns) t).
  { unfold leaves_rt_g. revert Hl. apply Forall_impl. intros [c q]. cbn [fst snd]. exact (leaf_full_rt pts ns c q Hg). }
  assert (Hbl : Forall (fun cq => leaf_builds_n nas (fst cq) (snd cq)) (qleaves t)).
  { revert Hl. apply Forall_impl. intros [c q]. cbn [fst snd]. intros [H|H];
      [exact (leaf_builds_nested nas c q H)|exact (leaf_builds_c11p pts ns c q Hg H)]. }
  assert (Hok : qtree_ok t = true).
  { unfold qtree_ok. apply forallb_forall. intros [c q] Hin. rewrite Forall_forall in Hbl.
    destruct (Hbl (c, q) Hin) as [Hcls [Hw _]]. cbn [fst snd] in *.
    unfold class_ok in Hcls. unfold q_wf in Hw. rewrite Hcls. exact Hw. }
  pose proof (tree_js_g_parse nas (leaf_js_full pts ns) t 40 Hd Hrt) as Hp. rewrite <- condn_unfold in Hp.
  pose proof (build_n_tree_g nas t Hbl) as Hb. rewrite (build_qterm t Hok) in Hb. unfold build_expect in Hb.
  rewrite ntree_term_eq. unfold ntree_spec_full.
  destruct (qmixed (qnorm t)).
  - split; [exact Hp|exact Hb].
  - destruct Hp as [tm Hp]. exists tm. split; [exact Hp|]. split; [exact Hb|].
    exact (condn_eqb_tree_g nas (leaf_js_full pts ns) (qnorm t) (leaves_rt_g_qnorm nas _ t Hrt)).
Qed.

Theorem C09N_tree_full : forall pts ns t,
  Forall path_good pts ->
  Forall (fun cq => leaf_in_c11n_full pts ns (fst cq) (snd cq)) (qleaves t) -> tree_depth t <= 40 ->
  qmixed (qnorm t) = false ->
  let nas := embp pts ++ ns in
  run_c09n (ntree_spec_full pts ns t) (ntree_term nas t) = Ok (VBool true).
Proof.
  intros pts ns t Hg Hl Hd Hm nas. pose proof (C09N_tree_full_gen pts ns t Hg Hl Hd) as H. cbv zeta in H.
  rewrite Hm in H. destruct H as [tm [Hp [Hb He]]].
  unfold run_c09n. fold nas in Hp, Hb, He. rewrite Hp. cbn [bind]. rewrite Hb. cbn [bind snd]. rewrite He. reflexivity.
Qed.

(* ================================================================== *)
(* 4. non-vacuity                                                       *)

(* {"value.in": [{"path": ["a", 0]}, 1, {"\path": 2}]}  vs  Value.in_([DataPath("a", 0), 1, {"path": 2}]) *)
Definition ex9_items : list arg1 := [APath 5%N p_a0; ALit (VInt 1); ALit (VDict [(VStr "path", VInt 2)])].

Example ex9_spec :
  nlist_spec "value.in" ex9_items =
  VDict [(VStr "value.in", VList [VDict [(VStr "path", VList [VStr "a"; VInt 0])]; VInt 1; VDict [(VStr "\path", VInt 2)]])].
Proof. vm_compute. reflexivity. Qed.

Lemma ex9_items_ok : Forall item_ok1 ex9_items.
Proof. repeat constructor; cbn [item_ok1]; try exact p_a0_good; vm_compute; reflexivity. Qed.

(* by the theorem *)
Example ex9_by_theorem :
  run_c09n (nlist_spec "value.in" ex9_items) (nleaf_term SValue (Q_in (VObj 0)) (NItems false ex9_items)) = Ok (VBool true).
Proof.
  apply (C09N_leaf_list SValue (Q_in (VObj 0)) ex9_items "value.in"); try reflexivity; [exact ex9_items_ok|].
  split; reflexivity.
Qed.

(* by computation, on the term as a harness writes it *)
Example ex9_run :
  run_c09n (VDict [(VStr "value.in", VList [VDict [(VStr "path", VList [VStr "a"; VInt 0])]; VInt 1;
                                            VDict [(VStr "\path", VInt 2)]])])
           (DLeaf "Value" "in_" [NItems false ex9_items] []) = Ok (VBool true).
Proof. vm_compute. reflexivity. Qed.

(* the condition parsed: the list display, path term read back, literal mapping un-escaped; the term from_spec calls the DSL with *)
Example ex9_parsed :
  condn_from_spec (nlist_spec "VALUE.In" ex9_items) =
  Ok (DLeaf "Value" "in_" [NItems false [APath 0%N p_a0; ALit (VInt 1); ALit (VDict [(VStr "path", VInt 2)])]] [],
      CLeaf {| l_cls := "Value"; l_kind := DValue; l_pre := PNone; l_call := "in_"; l_args := [];
               l_kwargs := [("value", NItems false [APath 0%N p_a0; ALit (VInt 1); ALit (VDict [(VStr "path", VInt 2)])])] |}).
Proof. vm_compute. reflexivity. Qed.

(* {"value.equal_to": {"k": {"path.length": ["b"]}, "j": [1]}}  vs  Value.equal_to({"k": DataPath("b").length(), "j": [1]}) *)
Definition ex9_kvs : list (pyval * arg1) := [(VStr "k", APath 7%N p_blen); (VStr "j", ALit (VList [VInt 1]))].

Example ex9_dict_spec :
  ndict_spec "value.equal_to" ex9_kvs =
  VDict [(VStr "value.equal_to", VDict [(VStr "k", VDict [(VStr "path.length", VList [VStr "b"])]); (VStr "j", VList [VInt 1])])].
Proof. vm_compute. reflexivity. Qed.

Example ex9_dict_by_theorem :
  run_c09n (ndict_spec "Value.Equal_To" ex9_kvs) (nleaf_term SValue (Q_equal_to (VObj 0)) (NDict ex9_kvs)) = Ok (VBool true).
Proof.
  apply (C09N_leaf_dict SValue (Q_equal_to (VObj 0)) ex9_kvs "Value.Equal_To"); try reflexivity.
  - repeat constructor; cbn [item_ok1 map snd]; try exact p_blen_good; vm_compute; reflexivity.
  - split; reflexivity.
Qed.

Example ex9_dict_run :
  run_c09n (VDict [(VStr "value.equal_to", VDict [(VStr "k", VDict [(VStr "path.length", VList [VStr "b"])]); (VStr "j", VList [VInt 1])])])
           (DLeaf "Value" "equal_to" [NDict ex9_kvs] []) = Ok (VBool true).
Proof. vm_compute. reflexivity. Qed.

(* a tree: {"and": [{"value.in_": [...]}, {"or": [{"value.equal_to": {...}}, {"value.less_than": {"path": ["a", 0]}}]}]} *)
Example ex9_tree_by_theorem :
  run_c09n (ntree_spec ex_nas ex_ntree) (ntree_term ex_nas ex_ntree) = Ok (VBool true).
Proof.
  destruct ex_ntree_in as [Hl [Hd _]]. rewrite (C09N_run_tree ex_nas ex_ntree Hl Hd). reflexivity.
Qed.

Example ex9_tree_spec :
  ntree_spec ex_nas ex_ntree =
  VDict [(VStr "and", VList [
    VDict [(VStr "value.in_", VList [VDict [(VStr "path", VList [VStr "a"; VInt 0])]; VInt 1; VDict [(VStr "\path", VInt 2)]])];
    VDict [(VStr "or", VList [
      VDict [(VStr "value.equal_to", VDict [(VStr "k", VDict [(VStr "path.length", VList [VStr "b"])]); (VStr "j", VList [VInt 1])])];
      VDict [(VStr "value.less_than", VDict [(VStr "path", VList [VStr "a"; VInt 0])])]])]])].
Proof. vm_compute. reflexivity. Qed.

(* a mixed tree: (Value.in_([DataPath("a", 0), 1]) & Value.in_range(lower=DataPath("b"), upper=5)) | Value.equal_to({"path": 2}) *)
Example ex9_mixed_by_theorem :
  run_c09n (ntree_spec_full [p_b] [ex_mix_list] ex_mix_tree) (ntree_term ex_mix_nas ex_mix_tree) = Ok (VBool true).
Proof.
  apply (C09N_tree_full [p_b] [ex_mix_list] ex_mix_tree).
  - repeat constructor. exact p_b_good.
  - cbn [qleaves ex_mix_tree app]. apply Forall_cons; [|apply Forall_cons; [|apply Forall_cons; [|apply Forall_nil]]]; cbn [fst snd].
    + left. split; [reflexivity|]. split; [reflexivity|]. exists 1%N, ex_mix_list. split; [reflexivity|]. split; [reflexivity|].
      split; [reflexivity|]. repeat constructor; cbn [item_ok1]; try exact p_a0_good; vm_compute; reflexivity.
    + right. vm_compute. reflexivity.
    + right. vm_compute. reflexivity.
  - vm_compute. lia.
  - reflexivity.
Qed.

Example ex9_mixed_spec :
  ntree_spec_full [p_b] [ex_mix_list] ex_mix_tree =
  VDict [(VStr "or", VList [
    VDict [(VStr "and", VList [
      VDict [(VStr "value.in_", VList [VDict [(VStr "path", VList [VStr "a"; VInt 0])]; VInt 1])];
      VDict [(VStr "value.in_range", VDict [(VStr "lower", VDict [(VStr "path", VList [VStr "b"])]); (VStr "upper", VInt 5)])]])];
    VDict [(VStr "value.equal_to", VDict [(VStr "\path", VInt 2)])]])].
Proof. vm_compute. reflexivity. Qed.


(* ================================================================== *)
(* 5. outside the fragment                                              *)

(* a TUPLE argument holding a path spec: from_spec assigns the DataPath into the tuple -> TypeError
   (Spec.coerce_tuple), whereas the DSL expression Value.in_((DataPath("a", 0), 1)) builds *)
Example C09N_counterexample_tuple :
  condn_from_spec (VDict [(VStr "value.in", VTuple [VDict [(VStr "path", VList [VStr "a"; VInt 0])]; VInt 1])]) = Err TypeError /\
  run_c09n (VDict [(VStr "value.in", VTuple [VDict [(VStr "path", VList [VStr "a"; VInt 0])]; VInt 1])])
           (DLeaf "Value" "in_" [NItems true [APath 5%N p_a0; ALit (VInt 1)]] []) = Err TypeError /\
  (exists c, build_n (DLeaf "Value" "in_" [NItems true [APath 5%N p_a0; ALit (VInt 1)]] []) = Ok c).
Proof. split; [vm_compute; reflexivity|]. split; [vm_compute; reflexivity|]. eexists. vm_compute. reflexivity. Qed.

(* ... and the list spelling of a tuple display parses to the LIST display, which is not == to the tuple display *)
Example C09N_counterexample_tuple_as_list :
  run_c09n (nlist_spec "value.in" [APath 5%N p_a0; ALit (VInt 1)])
           (DLeaf "Value" "in_" [NItems true [APath 5%N p_a0; ALit (VInt 1)]] []) = Ok (VBool false).
Proof. vm_compute. reflexivity. Qed.

(* a tuple WITHOUT path specs / escaped mappings is taken literally *)
Example ex9_tuple_plain :
  run_c09n (VDict [(VStr "value.in", VTuple [VInt 1; VInt 2])]) (DLeaf "Value" "in_" [NA (ALit (VTuple [VInt 1; VInt 2]))] [])
  = Ok (VBool true).
Proof. vm_compute. reflexivity. Qed.

(* under a `dtype` class the argument is converted to types first: a path spec among the items is a TypeError
   (hence casts c q = false in the theorems) *)
Example ex_dtype_refused :
  condn_from_spec (nlist_spec "value.dtype.in" [APath 5%N p_a0; ALit (VType TInt)]) = Err TypeError.
Proof. vm_compute. reflexivity. Qed.

(* a literal mapping item with a 'path' key that is NOT escaped is read as a path spec: not the DSL's literal *)
Example C09N_counterexample_unescaped :
  run_c09n (VDict [(VStr "value.in", VList [VDict [(VStr "path", VList [VStr "a"; VInt 0])]; VInt 1; VDict [(VStr "path", VList [VInt 2])]])])
           (DLeaf "Value" "in_" [NItems false [APath 5%N p_a0; ALit (VInt 1); ALit (VDict [(VStr "path", VList [VInt 2])])]] [])
  = Ok (VBool false).
Proof. vm_compute. reflexivity. Qed.

(* NOT covered by the theorems although it holds: a mapping argument with "path" inside a key (dkeys_ok, inherited from the
   round trip: the SERIALISER refuses such a mapping, from_spec does not) *)
Example ex9_dict_path_key_holds :
  dkeys_ok [(VStr "mypath", APath 5%N p_a0)] = false /\
  run_c09n (ndict_spec "value.equal_to" [(VStr "mypath", APath 5%N p_a0)])
           (DLeaf "Value" "equal_to" [NDict [(VStr "mypath", APath 5%N p_a0)]] []) = Ok (VBool true).
Proof. vm_compute. split; reflexivity. Qed.

Print Assumptions C09N_case.
Print Assumptions C09N_aliases.
Print Assumptions C09N_alias_in.
Print Assumptions C09N_leaf.
Print Assumptions C09N_run_leaf.
Print Assumptions C09N_leaf_list.
Print Assumptions C09N_leaf_dict.
Print Assumptions C09N_tree_gen.
Print Assumptions C09N_tree.
Print Assumptions C09N_run_tree.
Print Assumptions C09N_tree_full_gen.
Print Assumptions C09N_tree_full.
