(* C11 on narg trees, FULL: next to the leaves of C11NestedProof (one-parameter callables with a data path / list display /
   mapping display argument) a tree may hold
   (1) leaves whose arguments are plain literals (the C11E fragment, C11EscProof.leaf_in_c11e), all callable shapes;
   (2) leaves of several-parameter / *args / **kwargs callables whose arguments are data paths or literals at item level
       (the C11P fragment, C11PathProof.leaf_in_c11p).
   Route: every argument of such a leaf is of the form NA a; there the narg serialiser coincides with the arg1 one
   (leafn_to_json_NA), == coincides (leafn_eqb_NA), and the narg instance of from_spec SIMULATES the arg1 instance
   (sim_tail / sim_leaf): on a spec value without tuples two levels down (nt2: all JSON data, all type lists) no marker
   can occur, so lit_n v = NA (ALit v) on every literal the parser hands to the constructor.  For a ONE-parameter callable
   the simulation additionally needs that no item of a list / mapping argument is read as a path (there the arg1 instance
   loses the path, the narg instance keeps it): supplied by C11EscProof.coerce_wr / C11Proof.coerce_plain2. *)
From Coq Require Import ZArith NArith List Bool String Ascii Lia.
From Valida Require Import Py Lang Defs Cond Dsl Check DocSem Path PathSpec Cast Str SpecDefs RuleDefs RuleTerms
  Spec SpecIO SpecSpell Eq Inst RunSpec Rule NestedArgs NestedIO.
From Valida.Proofs Require Import PyFacts Tie C01Proof C02Proof RuleProof C09Proof C11Proof C11EscProof C12Proof C11PathProof
  C11NestedProof.
From Valida Require Import Rule SpecSpell NestedIO.
Import ListNotations.
Local Open Scope string_scope.
Local Open Scope list_scope.

(* ================================================================== *)
(* 1. values without markers                                            *)

Definition nt (v : pyval) : bool := match v with VTuple _ => false | _ => true end.
(* v and its items / values are not tuples *)
Definition nt1 (v : pyval) : bool :=
  nt v && match v with VList l => forallb nt l | VDict d => forallb (fun kv => nt (snd kv)) d | _ => true end.
(* ... two levels down *)
Definition nt2 (v : pyval) : bool :=
  nt v && match v with VList l => forallb nt1 l | VDict d => forallb (fun kv => nt1 (snd kv)) d | _ => true end.

Definition lit_na (v : pyval) : Prop := lit_n v = NA (ALit v).

Lemma nt_no_marker v : nt v = true -> has_marker v = false.
Proof. destruct v; try reflexivity. discriminate. Qed.

Lemma existsb_marker_nt l : forallb nt l = true -> existsb has_marker l = false.
Proof.
  induction l as [|v l IH]; cbn [forallb existsb]; [reflexivity|].
  intros H. apply andb_true_iff in H as [Hv Hl]. rewrite (nt_no_marker v Hv), (IH Hl). reflexivity.
Qed.

Lemma existsb_marker_nt_kv (d : list (pyval * pyval)) :
  forallb (fun kv => nt (snd kv)) d = true -> existsb (fun kv => has_marker (snd kv)) d = false.
Proof.
  induction d as [|kv d IH]; cbn [forallb existsb]; [reflexivity|].
  intros H. apply andb_true_iff in H as [Hv Hl]. rewrite (nt_no_marker _ Hv), (IH Hl). reflexivity.
Qed.

Lemma nt1_lit_na v : nt1 v = true -> lit_na v.
Proof.
  unfold nt1, lit_na. intros H. apply andb_true_iff in H as [Hn H]. destruct v; try reflexivity.
  - cbn [lit_n]. rewrite (existsb_marker_nt _ H). reflexivity.
  - discriminate Hn.
  - cbn [lit_n]. rewrite (existsb_marker_nt_kv _ H). reflexivity.
Qed.

Lemma json_pure_nt v : json_pure v = true -> nt v = true.
Proof. destruct v; try reflexivity. discriminate. Qed.

Lemma jp_ents_forall (P : pyval -> bool) d : (forall v, json_pure v = true -> P v = true) ->
  jp_ents d = true -> forallb (fun kv => P (snd kv)) d = true.
Proof.
  intros HP. induction d as [|[k v] d IH]; [reflexivity|].
  destruct k; try discriminate. cbn [jp_ents forallb snd]. fold jp_ents.
  intros H. apply andb_true_iff in H as [Hv Hd]. rewrite (HP v Hv), (IH Hd). reflexivity.
Qed.

Lemma forallb_imp {Y} (f g : Y -> bool) l : (forall x, f x = true -> g x = true) -> forallb f l = true -> forallb g l = true.
Proof.
  intros H. induction l as [|x l IH]; cbn [forallb]; [reflexivity|].
  intros Hl. apply andb_true_iff in Hl as [Hx Hl]. rewrite (H x Hx), (IH Hl). reflexivity.
Qed.

Lemma json_pure_nt1 v : json_pure v = true -> nt1 v = true.
Proof.
  intros H. unfold nt1. rewrite (json_pure_nt v H). cbn [andb]. destruct v; try reflexivity.
  - rewrite json_pure_list in H. exact (forallb_imp _ _ l json_pure_nt H).
  - rewrite C11EscProof.json_pure_dict in H. exact (jp_ents_forall nt d json_pure_nt H).
Qed.

Lemma json_pure_nt2 v : json_pure v = true -> nt2 v = true.
Proof.
  intros H. unfold nt2. rewrite (json_pure_nt v H). cbn [andb]. destruct v; try reflexivity.
  - rewrite json_pure_list in H. exact (forallb_imp _ _ l json_pure_nt1 H).
  - rewrite C11EscProof.json_pure_dict in H. exact (jp_ents_forall nt1 d json_pure_nt1 H).
Qed.

Lemma known_type_nt1 v : is_known_type v = true -> nt1 v = true.
Proof. destruct v; try discriminate. reflexivity. Qed.

Lemma types_only_nt2 v : types_only v = true -> nt2 v = true.
Proof.
  destruct v; try discriminate; intros H; try reflexivity.
  unfold nt2. cbn [nt andb]. cbn [types_only] in H. exact (forallb_imp _ _ l known_type_nt1 H).
Qed.

Lemma types_only_nt1 v : types_only v = true -> nt1 v = true.
Proof.
  destruct v; try discriminate; intros H; try reflexivity.
  unfold nt1. cbn [nt andb]. cbn [types_only] in H.
  refine (forallb_imp _ _ l _ H). intros x Hx. destruct x; try discriminate Hx. reflexivity.
Qed.

(* ---- the single argument of a one-parameter callable ---- *)

Definition flat1 (w : pyval) : bool := match w with VObj _ | VTuple _ => false | _ => true end.
(* no object and no tuple among the items / values *)
Definition flat (v : pyval) : bool :=
  match v with VList l | VTuple l => forallb flat1 l | VDict d => forallb (fun kv => flat1 (snd kv)) d | _ => true end.

Lemma flat1_no_marker w : flat1 w = true -> has_marker w = false.
Proof. destruct w; try reflexivity; discriminate. Qed.

Lemma flat_lit_na v : flat v = true -> lit_na v.
Proof.
  unfold lit_na. destruct v; try reflexivity; cbn [flat lit_n]; intros H.
  - assert (E : existsb has_marker l = false).
    { induction l as [|w l IH]; [reflexivity|]. cbn [forallb existsb] in *. apply andb_true_iff in H as [Hw Hl].
      rewrite (flat1_no_marker w Hw), (IH Hl). reflexivity. }
    rewrite E. reflexivity.
  - assert (E : existsb has_marker l = false).
    { induction l as [|w l IH]; [reflexivity|]. cbn [forallb existsb] in *. apply andb_true_iff in H as [Hw Hl].
      rewrite (flat1_no_marker w Hw), (IH Hl). reflexivity. }
    rewrite E. reflexivity.
  - assert (E : existsb (fun kv : pyval * pyval => has_marker (snd kv)) d = false).
    { induction d as [|w d IH]; [reflexivity|]. cbn [forallb existsb] in *. apply andb_true_iff in H as [Hw Hl].
      rewrite (flat1_no_marker _ Hw), (IH Hl). reflexivity. }
    rewrite E. reflexivity.
Qed.

Lemma json_pure_flat1 w : json_pure w = true -> flat1 w = true.
Proof. destruct w; try reflexivity; discriminate. Qed.

Lemma json_pure_flat v : json_pure v = true -> flat v = true.
Proof.
  destruct v; try reflexivity; try discriminate; intros H; cbn [flat].
  - rewrite json_pure_list in H. exact (forallb_imp _ _ l json_pure_flat1 H).
  - rewrite C11EscProof.json_pure_dict in H. exact (jp_ents_forall flat1 d json_pure_flat1 H).
Qed.

Lemma types_only_flat v : types_only v = true -> flat v = true.
Proof.
  destruct v; try discriminate; intros H; try reflexivity. cbn [flat]. cbn [types_only] in H.
  refine (forallb_imp _ _ l _ H). intros x Hx. destruct x; try discriminate Hx. reflexivity.
Qed.

Lemma item_val_flat (xs : list (pathterm pyval + pyval)) :
  forallb flat1 (map (item_val inert0) xs) = true -> map (item_val inert_n) xs = map (item_val inert0) xs.
Proof.
  induction xs as [|x xs IH]; cbn [map forallb]; [reflexivity|].
  intros H. apply andb_true_iff in H as [Hx Hl]. rewrite (IH Hl).
  destruct x as [p|w]; [discriminate Hx|reflexivity].
Qed.

Lemma item_val_flat_kv (xs : list (pyval * (pathterm pyval + pyval))) :
  forallb (fun kv : pyval * pyval => flat1 (snd kv)) (map (fun kv => (fst kv, item_val inert0 (snd kv))) xs) = true ->
  map (fun kv => (fst kv, item_val inert_n (snd kv))) xs = map (fun kv => (fst kv, item_val inert0 (snd kv))) xs.
Proof.
  induction xs as [|[k x] xs IH]; cbn [map forallb fst snd]; [reflexivity|].
  intros H. apply andb_true_iff in H as [Hx Hl]. rewrite (IH Hl).
  destruct x as [p|w]; [discriminate Hx|reflexivity].
Qed.

(* if the arg1 instance ends up with a literal without objects one level down, no item was read as a path, and the narg
   instance ends up with the same literal *)
Lemma one_sim cv v : cval cv = ALit v -> flat v = true -> cvaln cv = NA (ALit v).
Proof.
  destruct cv as [p|w|items|tup items]; cbn [coerced_val]; intros H Hf.
  - discriminate H.
  - injection H as ->. exact (flat_lit_na v Hf).
  - injection H as <-. cbn [flat] in Hf. rewrite (item_val_flat_kv items Hf).
    apply flat_lit_na. exact Hf.
  - injection H as <-.
    assert (Hf' : forallb flat1 (map (item_val inert0) items) = true) by (destruct tup; exact Hf).
    rewrite (item_val_flat items Hf'). apply flat_lit_na. exact Hf.
Qed.

(* ================================================================== *)
(* 2. what coerce hands on holds no marker                              *)

Definition vals_ok (P : pyval -> bool) (d : list (pyval * pyval)) : bool := forallb (fun kv => P (snd kv)) d.

Lemma vals_ok_app P a b : vals_ok P (a ++ b) = vals_ok P a && vals_ok P b.
Proof. apply forallb_app. Qed.

Lemma unescape_vals P d : forall keep moved found r b,
  unescape_keys d keep moved found = Ok (r, b) ->
  vals_ok P d = true -> vals_ok P keep = true -> vals_ok P moved = true -> vals_ok P r = true.
Proof.
  induction d as [|[k v] r0 IH]; intros keep moved found r b H Hd Hk Hm; cbn [unescape_keys] in H.
  - injection H as <- _. rewrite vals_ok_app, Hk, Hm. reflexivity.
  - cbn [vals_ok forallb snd] in Hd. apply andb_true_iff in Hd as [Hv Hr]. fold (vals_ok P r0) in Hr.
    assert (Hstep : forall k', vals_ok P (keep ++ [(k', v)]) = true).
    { intros k'. rewrite vals_ok_app, Hk. cbn [vals_ok forallb snd]. rewrite Hv. reflexivity. }
    destruct k; try (exact (IH _ _ _ _ _ H Hr (Hstep _) Hm)).
    destruct (str_contains esc_code s); exact (IH _ _ _ _ _ H Hr (Hstep _) Hm).
Qed.

Lemma dict_put_vals P k v d : P v = true -> vals_ok P d = true -> vals_ok P (dict_put k v d) = true.
Proof.
  intros Hv. induction d as [|[k2 v2] r IH]; cbn [dict_put vals_ok forallb snd]; [rewrite Hv; reflexivity|].
  intros H. apply andb_true_iff in H as [H2 Hr]. destruct (py_eq k k2); cbn [vals_ok forallb snd].
  - rewrite Hv. exact Hr.
  - rewrite H2. exact (IH Hr).
Qed.

Lemma fold_put_vals P d : forall acc, vals_ok P d = true -> vals_ok P acc = true ->
  vals_ok P (fold_left (fun acc kv => dict_put (fst kv) (snd kv) acc) d acc) = true.
Proof.
  induction d as [|[k v] r IH]; intros acc Hd Ha; [exact Ha|].
  cbn [vals_ok forallb snd] in Hd. apply andb_true_iff in Hd as [Hv Hr].
  cbn [fold_left fst snd]. apply IH; [exact Hr|]. exact (dict_put_vals P k v acc Hv Ha).
Qed.

(* DataPath.from_spec returns a literal only as the un-escaped copy of a mapping: same values *)
Lemma pfs_inr v w : pfs v = Ok (inr w) ->
  exists d0 d, v = VDict d0 /\ w = VDict d /\ forall P, vals_ok P d0 = true -> vals_ok P d = true.
Proof.
  unfold path_from_spec, path_from_spec0. destruct v as [| | | | | | |d0| |]; try discriminate.
  destruct d0 as [|[k0 v0] rest]; [discriminate|].
  destruct (unescape_keys ((k0, v0) :: rest) [] [] false) as [[d' esc]|e] eqn:Eu; cbn [bind]; [|discriminate].
  destruct esc.
  - intros [= <-]. eexists. eexists. split; [reflexivity|]. split; [reflexivity|].
    intros P HP. apply fold_put_vals; [|reflexivity]. exact (unescape_vals P _ _ _ _ _ _ Eu HP eq_refl eq_refl).
  - destruct rest; [|discriminate]. destruct k0; try discriminate.
    match goal with |- (if ?b then _ else _) = _ -> _ => destruct b end; [discriminate|].
    destruct (py_iter v0) as [parts|e]; cbn [bind]; [|discriminate].
    match goal with |- (let* _ := ?x in _) = _ -> _ => destruct x as [t|e] end; cbn [bind]; [|discriminate]. cbv zeta.
    match goal with |- ?F ?ms (@nil string) = _ -> _ =>
      assert (HF : forall ms' dn, F ms' dn <> Ok (inr w)); [|intros H; destruct (HF _ _ H)] end.
    induction ms' as [|m r IH]; intros dn; [discriminate|].
    match goal with |- (if ?b then _ else _) <> _ => destruct b end; [discriminate|].
    match goal with |- (let* _ := ?x in _) <> _ => destruct x end; cbn [bind]; [apply IH|discriminate].
Qed.

Definition xok (x : pathterm pyval + pyval) : Prop := match x with inl _ => True | inr w => nt1 w = true end.

Definition cv_items_ok (cv : coerced) : Prop :=
  match cv with
  | CDict items => Forall (fun kv => xok (snd kv)) items
  | CSeq _ items => Forall xok items
  | _ => True
  end.

Lemma try_path_ok v x : try_path pfs v = Ok x -> nt1 v = true -> xok x.
Proof.
  unfold try_path. destruct (pfs v) as [[p|w]|e] eqn:E.
  - intros [= <-] _. exact I.
  - intros [= <-] Hv. destruct (pfs_inr v w E) as [d0 [d [-> [-> HP]]]]. cbn [xok].
    unfold nt1 in *. cbn [nt andb] in *. exact (HP nt Hv).
  - destruct e; try discriminate. intros [= <-] Hv. exact Hv.
Qed.

Lemma coerce_items_ok l : forall xs, coerce_items pfs l = Ok xs -> forallb nt1 l = true -> Forall xok xs.
Proof.
  induction l as [|v l IH]; intros xs; cbn [coerce_items forallb].
  - intros [= <-] _. constructor.
  - destruct (try_path pfs v) as [x|e] eqn:E; cbn [bind]; [|discriminate].
    destruct (coerce_items pfs l) as [xs'|e]; cbn [bind]; [|discriminate].
    intros [= <-] H. apply andb_true_iff in H as [Hv Hl]. constructor; [exact (try_path_ok v x E Hv)|exact (IH _ eq_refl Hl)].
Qed.

Lemma coerce_kvs_ok d : forall xs, coerce_kvs pfs d = Ok xs -> vals_ok nt1 d = true -> Forall (fun kv => xok (snd kv)) xs.
Proof.
  induction d as [|[k v] d IH]; intros xs; cbn [coerce_kvs vals_ok forallb snd].
  - intros [= <-] _. constructor.
  - destruct (try_path pfs v) as [x|e] eqn:E; cbn [bind]; [|discriminate].
    destruct (coerce_kvs pfs d) as [xs'|e]; cbn [bind]; [|discriminate].
    intros [= <-] H. apply andb_true_iff in H as [Hv Hl]. constructor; [exact (try_path_ok v x E Hv)|exact (IH _ eq_refl Hl)].
Qed.

Lemma coerce_ok v cv : coerce pfs v = Ok cv -> nt2 v = true -> cv_items_ok cv.
Proof.
  destruct v as [| | | | |l|l|d| |].
  6: { cbn [coerce]. destruct (coerce_items pfs l) as [xs|e] eqn:E; cbn [bind]; [|discriminate].
       intros [= <-] H. exact (coerce_items_ok l xs E H). }
  6: { intros _ H. discriminate H. }
  6: { unfold coerce. destruct (pfs (VDict d)) as [[p|w]|e] eqn:E.
    + intros [= <-] _. exact I.
    + intros Hc H. destruct (pfs_inr _ w E) as [d0 [d' [[= <-] [-> HP]]]].
      injection Hc as <-. cbn [cv_items_ok]. specialize (HP nt1 H).
      clear E. induction d' as [|kv d' IH]; cbn [map]; constructor.
      * cbn [snd xok]. cbn [vals_ok forallb] in HP. apply andb_true_iff in HP as [HP _]. exact HP.
      * apply IH. cbn [vals_ok forallb] in HP. apply andb_true_iff in HP as [_ HP]. exact HP.
    + destruct e; try discriminate.
      destruct (coerce_kvs pfs d) as [xs|e] eqn:Ek; cbn [bind]; [|discriminate].
      intros [= <-] H. exact (coerce_kvs_ok d xs Ek H). }
  all: cbn [coerce]; intros [= <-] _; exact I.
Qed.

(* ================================================================== *)
(* 3. dispatch and the constructor call                                 *)

Lemma item_arg_sim x : xok x -> item_arg narg lit_n mkpath_n x = NA (item_arg arg1 ALit (APath 0%N) x).
Proof. destruct x as [p|w]; cbn [xok item_arg]; [reflexivity|]. intros H. exact (nt1_lit_na w H). Qed.

Lemma map_item_arg_sim xs : Forall xok xs ->
  map (item_arg narg lit_n mkpath_n) xs = map NA (map (item_arg arg1 ALit (APath 0%N)) xs).
Proof.
  induction 1 as [|x xs Hx Hxs IH]; cbn [map]; [reflexivity|]. rewrite (item_arg_sim x Hx), IH. reflexivity.
Qed.

Lemma kw_of_sim items : Forall (fun kv => xok (snd kv)) items ->
  kw_of narg lit_n mkpath_n items = rmap (kmap arg1 narg NA) (kw_of arg1 ALit (APath 0%N) items).
Proof.
  induction 1 as [|[k x] r Hx Hr IH]; [reflexivity|].
  destruct k; try reflexivity. cbn [kw_of]. rewrite IH. cbn [snd] in Hx.
  destruct (kw_of arg1 ALit (APath 0%N) r) as [rest|e]; cbn [bind rmap]; [|reflexivity].
  rewrite (item_arg_sim x Hx). reflexivity.
Qed.

Definition NApk (pk : list arg1 * list (string * arg1)) : list narg * list (string * narg) :=
  (map NA (fst pk), kmap arg1 narg NA (snd pk)).

Lemma dispatch_sim ct cv raw :
  cv_items_ok cv -> (ctor_shape ct = (1, false, false)%nat -> cvaln cv = NA (cval cv)) ->
  dispatchn ct cv raw = rmap NApk (dispatch1 ct cv raw).
Proof.
  intros Hi H1. unfold dispatch. unfold ctor_shape in H1. cbv zeta.
  destruct (List.length (c_params ct)) as [|[|n]]; destruct (c_vararg ct); destruct (c_kwarg ct);
    cbn [Nat.eqb Nat.ltb Nat.leb negb andb]; try reflexivity.
  all: try (rewrite (H1 eq_refl); reflexivity).
  all: destruct cv as [p|w|items|tup items]; try reflexivity; cbn [cv_items_ok] in Hi.
  all: try (rewrite (kw_of_sim items Hi); destruct (kw_of arg1 ALit (APath 0%N) items); reflexivity).
  all: try (rewrite (map_item_arg_sim items Hi); reflexivity).
  all: destruct tup; try reflexivity; rewrite (map_item_arg_sim items Hi); reflexivity.
Qed.

(* building a leaf depends on the literal embedding only through the defaults (C11PathProof.LitExt with a predicate) *)
Section LitExtP.
  Variable A : Type.
  Variables lit lit' : pyval -> A.
  Variable P : pyval -> bool.
  Hypothesis Hlit : forall d, P d = true -> lit d = lit' d.

  Definition default_P (pd : string * option pyval) : bool := match snd pd with Some d => P d | None => true end.

  Lemma fill_defaults_extP : forall missing e,
    forallb default_P missing = true -> fill_defaults A lit missing e = fill_defaults A lit' missing e.
  Proof.
    induction missing as [|[p [d|]] r IH]; intros e H; cbn [fill_defaults]; try reflexivity.
    cbn [forallb] in H. apply andb_true_iff in H as [Hd Hr]. unfold default_P in Hd. cbn [snd] in Hd.
    rewrite (Hlit d Hd). exact (IH _ Hr).
  Qed.

  Lemma cbind_pos_rest_P : forall params pos,
    forallb default_P params = true ->
    forallb default_P (snd (fst (cbind_pos A params pos))) = true.
  Proof.
    induction params as [|[p d] ps IH]; intros pos H; cbn [cbind_pos]; [reflexivity|].
    destruct pos as [|v vs]; [exact H|].
    cbn [forallb] in H. apply andb_true_iff in H as [_ Hr]. specialize (IH vs Hr).
    destruct (cbind_pos A ps vs) as [[e rest] extra]. exact IH.
  Qed.

  Lemma cbind_kw_missing_P params hk : forall kw missing e extra r,
    forallb default_P missing = true ->
    cbind_kw A params missing hk kw e extra = Ok r -> forallb default_P (snd (fst r)) = true.
  Proof.
    induction kw as [|[k v] kw IH]; intros missing e extra r Hm; cbn [cbind_kw].
    - intros [= <-]. exact Hm.
    - destruct (existsb (fun m => String.eqb k (fst m)) missing).
      + apply IH. apply forallb_filter. exact Hm.
      + destruct (existsb (String.eqb k) params); [discriminate|].
        destruct hk; [|discriminate]. apply IH. exact Hm.
  Qed.

  Lemma apply_ctor_extP c pos kw :
    forallb default_P (c_params c) = true -> apply_ctor lit c pos kw = apply_ctor lit' c pos kw.
  Proof.
    intros Hc. rewrite !apply_ctor_unfold.
    pose proof (cbind_pos_rest_P (c_params c) pos Hc) as Hrest.
    destruct (cbind_pos A (c_params c) pos) as [[e0 missing] xp]. cbn [fst snd] in Hrest.
    destruct (match c_vararg c with Some _ => Ok tt | None => match xp with [] => Ok tt | _ :: _ => Err TypeError end end);
      cbn [bind]; [|reflexivity].
    destruct (cbind_kw A (map fst (c_params c)) missing _ kw e0 []) as [[[e1 missing'] xk]|err] eqn:Ek; cbn [bind]; [|reflexivity].
    pose proof (cbind_kw_missing_P _ _ _ _ _ _ _ Hrest Ek) as Hm'. cbn [fst snd] in Hm'.
    rewrite (fill_defaults_extP missing' e1 Hm'). reflexivity.
  Qed.
End LitExtP.

(* closed fact about the tables: no default holds a tuple one level down *)
Lemma ctor_defaults_nt1 : forallb (fun c => forallb (default_P nt1) (c_params c)) (t_general T ++ t_map T) = true.
Proof. vm_compute. reflexivity. Qed.

Definition litNA (v : pyval) : narg := NA (ALit v).

Lemma build_leaf_NA cls m pos kw :
  build_leaf T lit_n cls m (map NA pos) (kmap arg1 narg NA kw) = rmap (leaf_map arg1 narg NA) (build_leaf T ALit cls m pos kw).
Proof.
  rewrite <- (build_leaf_map arg1 narg NA ALit litNA (fun v => eq_refl) T cls m pos kw).
  unfold build_leaf.
  destruct (find_class (t_classes T) cls) as [k|]; [|reflexivity].
  destruct (find_ctor T k m) as [c|] eqn:Ec; [|reflexivity].
  rewrite (apply_ctor_extP narg lit_n litNA nt1 nt1_lit_na c); [reflexivity|].
  pose proof ctor_defaults_nt1 as H. rewrite forallb_forall in H. exact (H c (find_ctor_In k m c Ec)).
Qed.

(* ---- the value-dependent part of parse_leaf ---- *)

Lemma sim_tail k call ct v2 tm l1 :
  leaf_tail k call ct v2 = Ok (tm, CLeaf l1) -> nt2 v2 = true ->
  (ctor_shape ct = (1, false, false)%nat -> exists cv v0, coerce pfs v2 = Ok cv /\ cval cv = ALit v0 /\ flat v0 = true) ->
  exists tm', leaf_tail_n k call ct v2 = Ok (tm', CLeaf (leaf_map arg1 narg NA l1)).
Proof.
  unfold leaf_tail, leaf_tail_n. intros H Hn H1.
  destruct (coerce pfs v2) as [cv|e] eqn:Ec; cbn [bind] in *; [|discriminate H].
  assert (Hd : dispatchn ct cv (is_none v2) = rmap NApk (dispatch1 ct cv (is_none v2))).
  { apply dispatch_sim; [exact (coerce_ok v2 cv Ec Hn)|].
    intros Hs. destruct (H1 Hs) as [cv' [v0 [Hc' [Hv Hf]]]]. injection Hc' as <-.
    rewrite Hv. exact (one_sim cv v0 Hv Hf). }
  rewrite Hd. destruct (dispatch1 ct cv (is_none v2)) as [[pos kw]|e]; cbn [bind rmap NApk fst snd] in *; [|discriminate H].
  rewrite build_leaf_NA.
  destruct (build_leaf T ALit (k_name k) call pos kw) as [l|e]; cbn [bind rmap] in *; [|discriminate H].
  injection H as _ <-. eexists. reflexivity.
Qed.

(* a leaf spec under the key of a typed DSL leaf *)
Lemma sim_leaf c q v v1 v2 f tm l1 :
  class_ok c q = true ->
  conv (typed c) v = Ok v1 -> conv (q_is_inst q) v1 = Ok v2 -> nt2 v2 = true ->
  (q_shape q = (1, false, false)%nat -> exists cv v0, coerce pfs v2 = Ok cv /\ cval cv = ALit v0 /\ flat v0 = true) ->
  self1 (S f) (VDict [(VStr (leaf_key c q), v)]) = Ok (tm, CLeaf l1) ->
  exists tm', selfn (S f) (VDict [(VStr (leaf_key c q), v)]) = Ok (tm', CLeaf (leaf_map arg1 narg NA l1)).
Proof.
  intros Hcls H1 H2 Hn Hone.
  rewrite self1_S, (step1_leaf _ _ _ (leaf_key_not_binop c q)), parse_leaf_head, (head_leaf c q Hcls).
  rewrite selfn_S, (stepn_leaf _ _ _ (leaf_key_not_binop c q)), parse_leaf_head_n, (head_leaf c q Hcls).
  cbn [run_head run_head_n]. rewrite H1. cbn [bind]. rewrite H2. cbn [bind].
  intros H. apply (sim_tail _ _ _ _ _ _ H Hn). rewrite (q_ctor_shape c q Hcls). exact Hone.
Qed.

(* ================================================================== *)
(* 4. the serialiser and == on leaves whose arguments are all NA a      *)

Notation lmapNA := (leaf_map arg1 narg NA).
Notation kmapNA := (kmap arg1 narg NA).

Lemma existsb_path_kmapNA (kws : list (string * arg1)) :
  existsb (fun ka : string * narg => str_contains "path" (fst ka)) (kmapNA kws)
  = existsb (fun ka : string * arg1 => str_contains "path" (fst ka)) kws.
Proof. unfold kmap. induction kws as [|[k a] r IH]; cbn [map existsb fst]; [reflexivity|]. rewrite IH. reflexivity. Qed.

Lemma mapM_item_NA cast (l : list arg1) :
  mapM (arg_item X narg narg_to_json narg_raw cast) (map NA l) = mapM (a2i cast) l.
Proof.
  induction l as [|a l IH]; cbn [map mapM]; [reflexivity|]. rewrite IH. reflexivity.
Qed.

Lemma leafn_to_json_NA (l : leaf arg1) : leafn_to_json (lmapNA l) = l2j l.
Proof.
  unfold leafn_to_json, leaf_to_json. unfold is_null_leaf. cbn [leaf_map l_cls l_call l_args l_kwargs].
  destruct (String.eqb (l_cls l) "NullCondition"); [reflexivity|].
  destruct (find_class (t_classes T) (l_cls l)) as [k|]; [|reflexivity].
  destruct (find_def (t_defs T) (l_call l)) as [fd|]; [|reflexivity]. cbv zeta.
  match goal with |- (bind ?a _) = (bind ?b _) => assert (Hab : a = b); [|rewrite Hab; reflexivity] end.
  rewrite existsb_path_kmapNA, mapM_item_NA.
  repeat (match goal with |- (if ?b then _ else _) = (if ?b then _ else _) => destruct b end); try reflexivity.
  - destruct (l_args l) as [|a r]; [|reflexivity]. cbn [map app].
    destruct (l_kwargs l) as [|[k' a] r]; reflexivity.
  - match goal with |- (bind ?a _) = (bind ?b _) => assert (Hgo : a = b); [|rewrite Hgo; reflexivity] end.
    unfold kmap. induction (l_kwargs l) as [|[k' a] r IH]; [reflexivity|]. cbn [map fst snd]. rewrite IH. reflexivity.
  - match goal with |- (bind ?a _) = (bind ?b _) => assert (Hgo : a = b); [|rewrite Hgo; reflexivity] end.
    unfold kmap. induction (l_kwargs l) as [|[k' a] r IH]; [reflexivity|]. cbn [map fst snd]. rewrite IH. reflexivity.
  - match goal with |- (bind ?a _) = (bind ?b _) => assert (Hgo : a = b); [|rewrite Hgo; reflexivity] end.
    unfold kmap. induction (l_kwargs l) as [|[k' a] r IH]; [reflexivity|]. cbn [map fst snd]. rewrite IH. reflexivity.
Qed.

Lemma narg_eqb_NA x y : narg_eqb (NA x) (NA y) = arg1_eqb T x y.
Proof. reflexivity. Qed.

Lemma list_eqb_NA a b : list_eqb narg_eqb (map NA a) (map NA b) = list_eqb (arg1_eqb T) a b.
Proof.
  revert b. induction a as [|x a IH]; intros [|y b]; cbn [map list_eqb]; try reflexivity. rewrite IH. reflexivity.
Qed.

Lemma kw_look_NA k (l : list (string * arg1)) : kw_look narg k (kmapNA l) = option_map NA (kw_look arg1 k l).
Proof.
  unfold kmap. induction l as [|[k2 v] r IH]; cbn [map kw_look fst snd]; [reflexivity|].
  destruct (String.eqb k k2); [reflexivity|exact IH].
Qed.

Lemma kw_eqb_NA a b : kw_eqb narg narg_eqb (kmapNA a) (kmapNA b) = kw_eqb arg1 (arg1_eqb T) a b.
Proof.
  unfold kw_eqb. f_equal.
  - unfold kmap. rewrite !map_length. reflexivity.
  - induction a as [|[k x] a IH]; [reflexivity|].
    change (kmapNA ((k, x) :: a)) with ((k, NA x) :: kmapNA a). cbn [forallb fst snd].
    rewrite kw_look_NA, IH. destruct (kw_look arg1 k b); reflexivity.
Qed.

Lemma leafn_eqb_NA a b : leafn_eqb (lmapNA a) (lmapNA b) = leaf_eqb arg1 (arg1_eqb T) a b.
Proof.
  unfold leafn_eqb, leaf_eqb. cbn [leaf_map l_cls l_call l_args l_kwargs]. rewrite list_eqb_NA, kw_eqb_NA. reflexivity.
Qed.

(* ================================================================== *)
(* 5. C11E / C11P leaves inside a narg tree                             *)

(* the placeholder list of a mixed tree: first the data paths of the C11P leaves (as arguments NA (APath 0 t)), then the
   nargs of the nested leaves *)
Definition embp (pts : list (pathterm pyval)) : list narg := map (fun t => NA (APath 0%N t)) pts.

Definition leaf_rt_g (nas : list narg) (j : pyval) (c : scls) (q : dsl) : Prop :=
  leafn_to_json (nleaf nas c q) = Ok j /\ json_pure j = true /\
  (forall f, exists tm, selfn (S f) j = Ok (tm, CLeaf (nleaf (backs_n nas) c q))) /\
  leafn_to_json (nleaf (backs_n nas) c q) = Ok j /\
  leafn_eqb (nleaf (backs_n nas) c q) (nleaf nas c q) = true.

Definition argv_ok (n : nat) (v : pyval) : bool := match v with VObj k => (N.to_nat k <? n)%nat | _ => nt1 v end.

Lemma subn_emb pts ns v : argv_ok (List.length pts) v = true -> subn (embp pts ++ ns) v = NA (sub pts v).
Proof.
  intros H. destruct v as [| | | | | | | | |k]; try exact (nt1_lit_na _ H).
  cbn [argv_ok] in H. apply Nat.ltb_lt in H. cbn [subn sub].
  destruct (nth_error pts (N.to_nat k)) as [t|] eqn:E; [|apply nth_error_None in E; lia].
  rewrite nth_error_app1 by (unfold embp; rewrite map_length; exact H).
  unfold embp. rewrite (map_nth_error _ _ _ E). reflexivity.
Qed.

Lemma backs_n_emb pts ns : backs_n (embp pts ++ ns) = embp (backs pts) ++ backs_n ns.
Proof. unfold backs_n, embp, backs. rewrite map_app, !map_map. reflexivity. Qed.

Lemma backs_length pts : List.length (backs pts) = List.length pts.
Proof. unfold backs. apply map_length. Qed.

Lemma leaf_map_ext_vals (f g : pyval -> narg) l :
  (forall v, In v (leaf_vals l) -> f v = g v) -> leaf_map pyval narg f l = leaf_map pyval narg g l.
Proof.
  intros H. unfold leaf_vals in H. unfold leaf_map, kmap. f_equal.
  - apply map_ext_in. intros v Hv. apply H. apply in_or_app. left. exact Hv.
  - apply map_ext_in. intros [k v] Hv. cbn [fst snd]. rewrite (H v); [reflexivity|].
    apply in_or_app. right. apply in_map_iff. exists (k, v). split; [reflexivity|exact Hv].
Qed.

Lemma leaf_map_NA_comp (f : pyval -> arg1) l : lmapNA (leaf_map pyval arg1 f l) = leaf_map pyval narg (fun v => NA (f v)) l.
Proof. unfold leaf_map, kmap. cbn [l_cls l_kind l_pre l_call l_args l_kwargs]. rewrite !map_map. reflexivity. Qed.

Lemma nleaf_emb pts ns c q : forallb (argv_ok (List.length pts)) (q_args q) = true ->
  nleaf (embp pts ++ ns) c q = lmapNA (lmapS pts (expected_leaf c q)).
Proof.
  intros H. unfold nleaf. rewrite leaf_map_NA_comp. apply leaf_map_ext_vals. intros v Hv.
  rewrite expected_vals in Hv. apply subn_emb. rewrite forallb_forall in H. exact (H v Hv).
Qed.

Lemma parg_argv n v : parg_ok n v = true -> argv_ok n v = true.
Proof.
  destruct v; cbn [parg_ok argv_ok]; intros H; try exact H;
    apply andb_true_iff in H as [H _]; apply andb_true_iff in H as [H _]; exact (json_pure_nt1 _ H).
Qed.

Lemma c11p_args_ok pts c q : leaf_in_c11p pts c q = true -> forallb (argv_ok (List.length pts)) (q_args q) = true.
Proof.
  unfold leaf_in_c11p. destruct (has_ph q); intros H.
  - destruct (leaf_path_ok_inv pts c q H) as [_ [_ [_ [_ [_ Hf]]]]].
    rewrite q_args_form. exact (forallb_imp _ _ _ (parg_argv _) (form_ok_p_args pts _ Hf)).
  - unfold leaf_in_c11e in H. destruct (casts c q) eqn:Ec.
    + destruct (leaf_in_c11_inv c q H) as [_ [_ [Hty _]]].
      refine (forallb_imp _ _ _ _ (cast_args_types c q Hty Ec)). intros v Hv.
      destruct v; try discriminate Hv; exact (types_only_nt1 _ Hv).
    + destruct (leaf_esc_inv c q H) as [_ [_ [_ [Hj _]]]].
      refine (forallb_imp _ _ _ _ Hj). intros v Hv. destruct v; try discriminate Hv; exact (json_pure_nt1 _ Hv).
Qed.

(* the argument value written for a C11P / C11E leaf *)
Definition jval (pts : list (pathterm pyval)) (c : scls) (q : dsl) : pyval :=
  if has_ph q then form_json_p pts (q_form q) else if casts c q then q_json_val c q else q_json3 q.

Lemma leaf_js_eq pts c q : leaf_js pts c q = VDict [(VStr (leaf_key c q), jval pts c q)].
Proof.
  unfold leaf_js, leaf_json_p, leaf_json_e, leaf_json, leaf_json3, jval.
  destruct (has_ph q); [reflexivity|]. destruct (casts c q); reflexivity.
Qed.

Lemma shape_one_form q : q_shape q = (1, false, false)%nat -> exists v, q_form q = FOne v.
Proof. destruct q; cbn [q_shape q_form]; intros H; try discriminate H; eexists; reflexivity. Qed.

Lemma q_json3_one q v : q_form q = FOne v -> q_json3 q = wr v /\ q_frag3 q = plain3 v.
Proof. destruct q; cbn [q_form]; intros H; try discriminate H; injection H as <-; split; reflexivity. Qed.

(* the type conversion steps and the side conditions of the simulation *)
Lemma c11p_conv pts c q : Forall path_good pts -> leaf_in_c11p pts c q = true ->
  exists v1 v2, conv (typed c) (jval pts c q) = Ok v1 /\ conv (q_is_inst q) v1 = Ok v2 /\ nt2 v2 = true /\
    (q_shape q = (1, false, false)%nat -> (forall k, q_form q <> FOne (VObj k)) ->
     exists cv v0, coerce pfs v2 = Ok cv /\ cval cv = ALit v0 /\ flat v0 = true).
Proof.
  intros Hg. unfold leaf_in_c11p, jval. destruct (has_ph q) eqn:Eph; intros H.
  - destruct (leaf_path_ok_inv pts c q H) as [_ [Hc [_ [_ [_ Hf]]]]]. destruct (casts_false c q Hc) as [Ht Hi].
    exists (form_json_p pts (q_form q)), (form_json_p pts (q_form q)). rewrite Ht, Hi. split; [reflexivity|]. split; [reflexivity|]. split.
    + apply json_pure_nt2. pose proof (leaf_json_p_pure pts Hg c q Hf) as Hp. unfold leaf_json_p in Hp.
      rewrite json_pure_single in Hp. exact Hp.
    + intros Hs Hno. destruct (shape_one_form q Hs) as [v Hq]. rewrite Hq in Hf. cbn [form_ok_p] in Hf.
      apply andb_true_iff in Hf as [Hv _]. destruct v; try discriminate Hv. destruct (Hno _ Hq).
  - unfold leaf_in_c11e in H. destruct (casts c q) eqn:Ec.
    + destruct (leaf_in_c11_inv c q H) as [_ [Hpl [Hty _]]].
      destruct (conv_json c q Hty) as [v1 [H1 H2]]. exists v1, (q_spec_val q). split; [exact H1|]. split; [exact H2|].
      destruct (cast_form c q Hty Ec) as [Hto _]. split; [exact (types_only_nt2 _ Hto)|].
      intros Hs _. destruct (shape_one_form q Hs) as [v0 Hq].
      assert (Hv : q_spec_val q = v0) by (rewrite q_spec_form, Hq; reflexivity). rewrite Hv in *.
      unfold q_plain2 in Hpl. rewrite q_args_form, Hq in Hpl. cbn [form_args forallb] in Hpl. apply andb_true_iff in Hpl as [Hpl _].
      destruct (coerce_plain2 v0 Hpl) as [cv [Hco Hcv]]. exists cv, v0. split; [exact Hco|]. split; [exact Hcv|exact (types_only_flat _ Hto)].
    + destruct (leaf_esc_inv c q H) as [_ [_ [Hf [Hj [Hw _]]]]]. destruct (casts_false c q Ec) as [Ht Hi].
      exists (q_json3 q), (q_json3 q). rewrite Ht, Hi. split; [reflexivity|]. split; [reflexivity|]. split.
      * apply json_pure_nt2. pose proof (leaf_json3_pure c q Hj) as Hp. unfold leaf_json3 in Hp. rewrite json_pure_single in Hp. exact Hp.
      * intros Hs _. destruct (shape_one_form q Hs) as [v0 Hq]. destruct (q_json3_one q v0 Hq) as [-> Hfr]. rewrite Hfr in Hf.
        rewrite q_args_form, Hq in Hj, Hw. cbn [form_args forallb] in Hj, Hw.
        apply andb_true_iff in Hj as [Hj _]. apply andb_true_iff in Hw as [Hw _].
        destruct (coerce_wr v0 Hj Hf Hw) as [cv [Hco Hcv]]. exists cv, v0. split; [exact Hco|]. split; [exact Hcv|exact (json_pure_flat _ Hj)].
Qed.

(* a C11P / C11E leaf (other than a one-parameter callable whose argument is a path placeholder: that one is a leaf of
   C11NestedProof) round-trips inside a narg tree, with the very data C11PathProof.leaf_js writes for it *)
Lemma c11p_leaf_rt_g pts ns c q : Forall path_good pts -> leaf_in_c11p pts c q = true ->
  (forall k, q_form q <> FOne (VObj k)) -> leaf_rt_g (embp pts ++ ns) (leaf_js pts c q) c q.
Proof.
  intros Hg H Hno. pose proof (c11p_args_ok pts c q H) as Ha.
  assert (Ha' : forallb (argv_ok (List.length (backs pts))) (q_args q) = true) by (rewrite backs_length; exact Ha).
  destruct (leaf_in_c11p_rt pts c q Hg H) as [R1 [R2 [R3 [R4 R5]]]].
  unfold leaf_rt_g. rewrite backs_n_emb, (nleaf_emb pts ns c q Ha), (nleaf_emb (backs pts) (backs_n ns) c q Ha').
  rewrite !leafn_to_json_NA, leafn_eqb_NA.
  split; [exact R1|]. split; [exact R2|]. split; [|split; [exact R4|exact R5]].
  intros f. destruct (R3 f) as [tm Hp]. rewrite leaf_js_eq in *.
  destruct (c11p_conv pts c q Hg H) as [v1 [v2 [H1 [H2 [Hn Hone]]]]].
  assert (Hcls : class_ok c q = true).
  { destruct (leaf_in_c11p_qok pts c q H) as [Hc _]. exact Hc. }
  exact (sim_leaf c q _ v1 v2 f tm _ Hcls H1 H2 Hn (fun Hs => Hone Hs Hno) Hp).
Qed.

(* ================================================================== *)
(* 6. and / or / xor trees with an arbitrary leaf serialisation         *)

Section TreesG.
  Variable nas : list narg.
  Variable ljs : scls -> dsl -> pyval.

  Fixpoint tree_js_g (t : qtree) : pyval :=
    match t with
    | QLeaf c q => ljs c q
    | QNull => VDict []
    | QBin o a b => VDict [(VStr (bop_name o), VList [tree_js_g a; tree_js_g b])]
    end.

  Definition leaves_rt_g (t : qtree) : Prop := Forall (fun cq => leaf_rt_g nas (ljs (fst cq) (snd cq)) (fst cq) (snd cq)) (qleaves t).

  Lemma leaves_rt_g_bin o a b : leaves_rt_g (QBin o a b) -> leaves_rt_g a /\ leaves_rt_g b.
  Proof. unfold leaves_rt_g. cbn [qleaves]. rewrite Forall_app. exact (fun H => H). Qed.

  Lemma leaves_rt_g_leaf c q : leaves_rt_g (QLeaf c q) -> leaf_rt_g nas (ljs c q) c q.
  Proof. unfold leaves_rt_g. cbn [qleaves]. intros H. inversion H; subst. assumption. Qed.

  Lemma leaves_rt_g_qnorm t : leaves_rt_g t -> leaves_rt_g (qnorm t).
  Proof. unfold leaves_rt_g. rewrite qleaves_qnorm. exact (fun H => H). Qed.

  Lemma condn_to_json_tree_g n : leaves_rt_g n ->
    condn_to_json (cmapN nas (cond_of n)) = Ok (tree_js_g n) /\
    condn_to_json (cmapN (backs_n nas) (cond_of n)) = Ok (tree_js_g n).
  Proof.
    unfold condn_to_json. induction n as [c q| |o a IHa b IHb]; intros H.
    - cbn [cond_of cond_map cond_to_json tree_js_g].
      destruct (leaves_rt_g_leaf c q H) as [H1 [_ [_ [H4 _]]]]. split; assumption.
    - split; reflexivity.
    - apply leaves_rt_g_bin in H as [Ha Hb]. destruct (IHa Ha) as [A1 A2]. destruct (IHb Hb) as [B1 B2].
      cbn [cond_of cond_map cond_to_json tree_js_g]. rewrite A1, A2, B1, B2. cbn [bind].
      rewrite bop_symbol_name. split; reflexivity.
  Qed.

  Lemma tree_js_g_pure n : leaves_rt_g n -> json_pure (tree_js_g n) = true.
  Proof.
    induction n as [c q| |o a IHa b IHb]; intros H.
    - destruct (leaves_rt_g_leaf c q H) as [_ [H2 _]]. exact H2.
    - reflexivity.
    - apply leaves_rt_g_bin in H as [Ha Hb]. cbn [tree_js_g]. rewrite json_pure_single, json_pure_list.
      cbn [forallb]. rewrite (IHa Ha), (IHb Hb). reflexivity.
  Qed.

  Lemma tree_js_g_parse t : forall f,
    tree_depth t <= f -> leaves_rt_g t ->
    if qmixed (qnorm t) then selfn f (tree_js_g t) = Err TypeError
    else exists tm, selfn f (tree_js_g t) = Ok (tm, cmapN (backs_n nas) (cond_of (qnorm t))).
  Proof.
    induction t as [c q| |o a IHa b IHb]; intros f Hd Hin.
    - cbn [tree_depth] in Hd. destruct f as [|f]; [lia|].
      cbn [qnorm tree_js_g]. rewrite qmixed_leaf.
      destruct (leaves_rt_g_leaf c q Hin) as [_ [_ [H3 _]]]. exact (H3 f).
    - cbn [tree_depth] in Hd. destruct f as [|f]; [lia|].
      cbn [qnorm tree_js_g]. rewrite qmixed_null, selfn_S, stepn_null. eexists. reflexivity.
    - cbn [tree_depth] in Hd. destruct f as [|f]; [lia|].
      apply leaves_rt_g_bin in Hin as [Hina Hinb].
      assert (Hda : tree_depth a <= f) by lia. assert (Hdb : tree_depth b <= f) by lia.
      specialize (IHa f Hda Hina). specialize (IHb f Hdb Hinb).
      cbn [tree_js_g]. rewrite selfn_S, stepn_bin.
      destruct (qmixed (qnorm a)) eqn:Ma.
      { rewrite (qmixed_qnorm_bin_l o a b Ma), IHa. reflexivity. }
      destruct IHa as [ta Ea]. rewrite Ea. cbn [bind]. rewrite mk_bin_null_l_n. cbn [bind].
      destruct (qmixed (qnorm b)) eqn:Mb.
      { rewrite (qmixed_qnorm_bin_r o a b Mb), IHb. reflexivity. }
      destruct IHb as [tb Eb]. rewrite Eb. cbn [bind]. rewrite mk_bin_map, mk_bin_cond_of.
      cbn [qnorm].
      destruct (q_is_null (qnorm b)); [rewrite Ma; eexists; reflexivity|].
      destruct (q_is_null (qnorm a)); [rewrite Mb; eexists; reflexivity|].
      destruct (qmixed (QBin o (qnorm a) (qnorm b))); [reflexivity|eexists; reflexivity].
  Qed.

  Lemma condn_eqb_tree_g n : leaves_rt_g n ->
    condn_eqb (cmapN (backs_n nas) (cond_of n)) (cmapN nas (cond_of n)) = true.
  Proof.
    unfold condn_eqb. induction n as [c q| |o a IHa b IHb]; intros H.
    - cbn [cond_of cond_map cond_eqb].
      destruct (leaves_rt_g_leaf c q H) as [_ [_ [_ [_ H5]]]]. exact H5.
    - reflexivity.
    - apply leaves_rt_g_bin in H as [Ha Hb].
      cbn [cond_of cond_map cond_eqb]. rewrite bop_eqb_refl, (IHa Ha), (IHb Hb). reflexivity.
  Qed.

  (* C11NestedProof.C11N_roundtrip_modular with the data written for a leaf as a parameter *)
  Theorem C11N_roundtrip_modular_g : forall t,
    leaves_rt_g t -> tree_depth t <= 40 -> qmixed (qnorm t) = false ->
    let c := cmapN nas (cond_of (qnorm t)) in
    let c2 := cmapN (backs_n nas) (cond_of (qnorm t)) in
    let j := tree_js_g (qnorm t) in
    condn_to_json c = Ok j /\ json_pure j = true /\
    (exists tm, condn_from_spec j = Ok (tm, c2)) /\
    condn_eqb c2 c = true /\ condn_to_json c2 = Ok j.
  Proof.
    intros t Hl Hd Hm. cbv zeta.
    pose proof (leaves_rt_g_qnorm t Hl) as Hln.
    destruct (condn_to_json_tree_g _ Hln) as [J1 J2].
    split; [exact J1|]. split; [exact (tree_js_g_pure _ Hln)|].
    split; [|split; [exact (condn_eqb_tree_g _ Hln)|exact J2]].
    rewrite condn_unfold.
    assert (Hdn : tree_depth (qnorm t) <= 40) by (pose proof (depth_qnorm t); lia).
    pose proof (tree_js_g_parse (qnorm t) 40 Hdn Hln) as H. rewrite qnorm_idem, Hm in H. exact H.
  Qed.
End TreesG.

(* ================================================================== *)
(* 7. the full fragment                                                 *)

(* A leaf of a mixed tree over the placeholder list  embp pts ++ ns :
   - a leaf of C11NestedProof (one-parameter callable; argument: a data path, a list display, a mapping display), or
   - a leaf of C11PathProof over the paths pts (leaf_in_c11p: literal leaves of C11EscProof with any callable shape, under
     type conversion or not; leaves of several-parameter / *args / **kwargs callables with path or literal arguments). *)
Definition leaf_in_c11n_full (pts : list (pathterm pyval)) (ns : list narg) (c : scls) (q : dsl) : Prop :=
  leaf_in_c11n (embp pts ++ ns) c q \/ leaf_in_c11p pts c q = true.

(* what is written for a leaf *)
Definition leaf_js_full (pts : list (pathterm pyval)) (ns : list narg) (c : scls) (q : dsl) : pyval :=
  match q_form q with
  | FOne (VObj _) => leaf_js_n (embp pts ++ ns) c q
  | _ => leaf_js pts c q
  end.

Lemma c11p_one_in_c11n pts ns c q k : Forall path_good pts -> leaf_in_c11p pts c q = true ->
  q_form q = FOne (VObj k) -> leaf_in_c11n (embp pts ++ ns) c q.
Proof.
  intros Hg H Hq.
  assert (Eph : has_ph q = true) by (unfold has_ph; rewrite q_args_form, Hq; reflexivity).
  unfold leaf_in_c11p in H. rewrite Eph in H.
  destruct (leaf_path_ok_inv pts c q H) as [Hcls [Hc [_ [_ [_ Hf]]]]].
  rewrite Hq in Hf. cbn [form_ok_p is_ph parg_ok andb] in Hf. apply Nat.ltb_lt in Hf.
  destruct (nth_error pts (N.to_nat k)) as [t|] eqn:E; [|apply nth_error_None in E; lia].
  split; [exact Hcls|]. split; [exact Hc|]. exists k, (NA (APath 0%N t)). split; [exact Hq|]. split.
  - rewrite nth_error_app1 by (unfold embp; rewrite map_length; exact Hf).
    unfold embp. rewrite (map_nth_error _ _ _ E). reflexivity.
  - cbn [narg_ok]. rewrite Forall_forall in Hg. exact (Hg t (nth_error_In _ _ E)).
Qed.

Lemma form_one_obj_dec q : (exists k, q_form q = FOne (VObj k)) \/ (forall k, q_form q <> FOne (VObj k)).
Proof.
  destruct (q_form q) as [|v|items|l]; try (right; intros k H; discriminate H).
  destruct v; try (right; intros k H; discriminate H). left. eexists. reflexivity.
Qed.

Lemma leaf_full_rt pts ns c q : Forall path_good pts -> leaf_in_c11n_full pts ns c q ->
  leaf_rt_g (embp pts ++ ns) (leaf_js_full pts ns c q) c q.
Proof.
  intros Hg H.
  assert (HA : leaf_in_c11n (embp pts ++ ns) c q -> leaf_rt_g (embp pts ++ ns) (leaf_js_full pts ns c q) c q).
  { intros Hn. pose proof (leaf_in_c11n_rt _ c q Hn) as R. destruct Hn as [_ [_ [k [n [Hq _]]]]].
    unfold leaf_js_full. rewrite Hq. exact R. }
  destruct H as [H|H]; [exact (HA H)|].
  destruct (form_one_obj_dec q) as [[k Hq]|Hno].
  - exact (HA (c11p_one_in_c11n pts ns c q k Hg H Hq)).
  - assert (Ej : leaf_js_full pts ns c q = leaf_js pts c q).
    { unfold leaf_js_full. destruct (q_form q) as [|v|items|l] eqn:E; try reflexivity.
      destruct v; try reflexivity. destruct (Hno _ eq_refl). }
    rewrite Ej. exact (c11p_leaf_rt_g pts ns c q Hg H Hno).
Qed.

(* THE FRAGMENT.  [nas]: the placeholder list, first data paths (path_good: C12 discharges it, c12_path_good), then nargs;
   [t]: an and / or / xor tree of typed DSL leaves in which an argument [VObj k] stands for the k-th entry; every leaf in
   leaf_in_c11n_full; depth within the fuel of from_spec; no Key / Index mix. *)
Definition tree_in_c11n_full (nas : list narg) (t : qtree) : Prop :=
  exists pts ns, nas = embp pts ++ ns /\ Forall path_good pts /\
    Forall (fun cq => leaf_in_c11n_full pts ns (fst cq) (snd cq)) (qleaves t) /\
    tree_depth t <= 40 /\ qmixed (qnorm t) = false.

Theorem C11N_roundtrip : forall nas t,
  tree_in_c11n_full nas t ->
  exists j tm c2,
    condn_to_json (cmapN nas (cond_of (qnorm t))) = Ok j /\ json_pure j = true /\
    condn_from_spec j = Ok (tm, c2) /\ condn_eqb c2 (cmapN nas (cond_of (qnorm t))) = true /\
    condn_to_json c2 = Ok j.
Proof.
  intros nas t [pts [ns [-> [Hg [Hl [Hd Hm]]]]]].
  assert (Hrt : leaves_rt_g (embp pts ++ ns) (leaf_js_full pts ns) t).
  { unfold leaves_rt_g. revert Hl. apply Forall_impl. intros [c q]. cbn [fst snd]. exact (leaf_full_rt pts ns c q Hg). }
  destruct (C11N_roundtrip_modular_g _ _ t Hrt Hd Hm) as [H1 [H2 [[tm H3] [H4 H5]]]].
  exists (tree_js_g (leaf_js_full pts ns) (qnorm t)), tm, (cmapN (backs_n (embp pts ++ ns)) (cond_of (qnorm t))).
  repeat split; assumption.
Qed.

(* the data spelled out *)
Theorem C11N_roundtrip_eq : forall pts ns t,
  Forall path_good pts ->
  Forall (fun cq => leaf_in_c11n_full pts ns (fst cq) (snd cq)) (qleaves t) -> tree_depth t <= 40 -> qmixed (qnorm t) = false ->
  let nas := embp pts ++ ns in
  let c := cmapN nas (cond_of (qnorm t)) in
  let c2 := cmapN (backs_n nas) (cond_of (qnorm t)) in
  let j := tree_js_g (leaf_js_full pts ns) (qnorm t) in
  condn_to_json c = Ok j /\ json_pure j = true /\
  (exists tm, condn_from_spec j = Ok (tm, c2)) /\
  condn_eqb c2 c = true /\ condn_to_json c2 = Ok j.
Proof.
  intros pts ns t Hg Hl Hd Hm.
  assert (Hrt : leaves_rt_g (embp pts ++ ns) (leaf_js_full pts ns) t).
  { unfold leaves_rt_g. revert Hl. apply Forall_impl. intros [c q]. cbn [fst snd]. exact (leaf_full_rt pts ns c q Hg). }
  exact (C11N_roundtrip_modular_g _ _ t Hrt Hd Hm).
Qed.

(* the fragments of C11NestedProof and of C11PathProof (hence C11EscProof, C11Proof) are included *)
Theorem C11N_includes_partial : forall nas t, tree_in_c11n nas t -> tree_in_c11n_full nas t.
Proof.
  intros nas t [Hl [Hd Hm]]. exists [], nas. split; [reflexivity|]. split; [constructor|].
  split; [|split; assumption]. revert Hl. apply Forall_impl. intros [c q] H. left. exact H.
Qed.

Theorem C11N_includes_c11p : forall sts t, tree_in_c11p sts t = true -> tree_in_c11n_full (embp (pterms sts)) t.
Proof.
  intros sts t H. unfold tree_in_c11p in H.
  apply andb_true_iff in H as [H H4]. apply andb_true_iff in H as [H H3]. apply andb_true_iff in H as [H1 H2].
  apply Nat.leb_le in H3. apply negb_true_iff in H4.
  exists (pterms sts), []. split; [rewrite app_nil_r; reflexivity|]. split; [exact (path_args_good sts H1)|].
  split; [|split; assumption]. unfold leaves_c11p in H2. rewrite forallb_forall in H2.
  apply Forall_forall. intros cq Hin. right. exact (H2 cq Hin).
Qed.

(* the embedding (NestedArgs.emb) of a condition with literal / path arguments of the C11P fragment round-trips through
   the narg serialiser and parser *)
Lemma cmapN_emb pts n : leaves_c11p pts n = true -> cmapN (embp pts) (cond_of n) = emb (cmapS pts (cond_of n)).
Proof.
  unfold emb. induction n as [c q| |o a IHa b IHb]; intros H.
  - cbn [cond_of cond_map]. f_equal.
    pose proof (nleaf_emb pts [] c q (c11p_args_ok pts c q (leaves_c11p_leaf pts c q H))) as E.
    rewrite app_nil_r in E. exact E.
  - reflexivity.
  - apply leaves_c11p_bin in H as [Ha Hb]. cbn [cond_of cond_map]. rewrite (IHa Ha), (IHb Hb). reflexivity.
Qed.

Theorem C11N_emb_c11p : forall sts t,
  tree_in_c11p sts t = true ->
  exists j tm c2,
    condn_to_json (emb (cond_p sts t)) = Ok j /\ json_pure j = true /\
    condn_from_spec j = Ok (tm, c2) /\ condn_eqb c2 (emb (cond_p sts t)) = true /\ condn_to_json c2 = Ok j.
Proof.
  intros sts t H. pose proof (C11N_roundtrip _ t (C11N_includes_c11p sts t H)) as R.
  unfold tree_in_c11p in H. apply andb_true_iff in H as [H _]. apply andb_true_iff in H as [H _]. apply andb_true_iff in H as [_ H2].
  rewrite <- leaves_c11p_qnorm in H2. rewrite (cmapN_emb _ _ H2) in R. exact R.
Qed.

(* ================================================================== *)
(* 8. non-vacuity: a mixed tree                                         *)

(* (Value.in_([DataPath("a", 0), 1]) & Value.in_range(lower=DataPath("b"), upper=5)) | Value.equal_to({"path": 2}) *)
Definition p_b : pathterm pyval := spathterm_term {| st_parts := [SPrim (VStr "b")]; st_mods := []; st_src := None |}.
Lemma p_b_good : path_good p_b.
Proof. apply c12_path_good; vm_compute; reflexivity. Qed.

Definition ex_mix_list : narg := NItems false [APath 5%N p_a0; ALit (VInt 1)].
Definition ex_mix_nas : list narg := embp [p_b] ++ [ex_mix_list].
Definition ex_mix_tree : qtree :=
  QBin BoOr (QBin BoAnd (QLeaf SValue (Q_in (VObj 1))) (QLeaf SValue (Q_in_range (VObj 0) (VInt 5))))
            (QLeaf SValue (Q_equal_to (VDict [(VStr "path", VInt 2)]))).

Example ex_mix_in : tree_in_c11n_full ex_mix_nas ex_mix_tree.
Proof.
  exists [p_b], [ex_mix_list]. split; [reflexivity|]. split; [repeat constructor; exact p_b_good|].
  split; [|split; [vm_compute; lia|reflexivity]].
  cbn [qleaves ex_mix_tree app]. apply Forall_cons; [|apply Forall_cons; [|apply Forall_cons; [|apply Forall_nil]]]; cbn [fst snd].
  - left. split; [reflexivity|]. split; [reflexivity|]. exists 1%N, ex_mix_list. split; [reflexivity|]. split; [reflexivity|].
    split; [reflexivity|]. repeat constructor; cbn [item_ok1]; try exact p_a0_good; vm_compute; reflexivity.
  - right. vm_compute. reflexivity.
  - right. vm_compute. reflexivity.
Qed.

Example ex_mix_cond :
  cmapN ex_mix_nas (cond_of (qnorm ex_mix_tree)) =
  CBin BoOr
    (CBin BoAnd
       (CLeaf {| l_cls := "Value"; l_kind := DValue; l_pre := PNone; l_call := "in_"; l_args := [];
                 l_kwargs := [("value", NItems false [APath 5%N p_a0; ALit (VInt 1)])] |})
       (CLeaf {| l_cls := "Value"; l_kind := DValue; l_pre := PNone; l_call := "in_range"; l_args := [];
                 l_kwargs := [("lower", NA (APath 0%N p_b)); ("upper", NA (ALit (VInt 5)))] |}))
    (CLeaf {| l_cls := "Value"; l_kind := DValue; l_pre := PNone; l_call := "equal_to"; l_args := [];
              l_kwargs := [("value", NA (ALit (VDict [(VStr "path", VInt 2)])))] |}).
Proof. vm_compute. reflexivity. Qed.

Example ex_mix_rt :
  nested_roundtrip (cmapN ex_mix_nas (cond_of (qnorm ex_mix_tree))) =
  Ok (VTuple [VDict [(VStr "or", VList [
                VDict [(VStr "and", VList [
                  VDict [(VStr "value.in_", VList [VDict [(VStr "path", VList [VStr "a"; VInt 0])]; VInt 1])];
                  VDict [(VStr "value.in_range", VDict [(VStr "lower", VDict [(VStr "path", VList [VStr "b"])]);
                                                        (VStr "upper", VInt 5)])]])];
                VDict [(VStr "value.equal_to", VDict [(VStr "\path", VInt 2)])]])];
              VBool true; VBool true]).
Proof. vm_compute. reflexivity. Qed.

Print Assumptions C11N_roundtrip.
Print Assumptions C11N_roundtrip_eq.
Print Assumptions C11N_includes_partial.
Print Assumptions C11N_includes_c11p.
Print Assumptions C11N_emb_c11p.
